"""Solver budgets are CPU budgets: z3's and cvc5's time limits are wall-clock, so on an oversubscribed machine (other jobs on the same cores)
a query that needs 2 s of CPU can run into a 20 s wall limit and a verdict would flip to `unknown` for no semantic reason.  Every wall limit
is therefore stretched by the current load per core (1 minute load average / number of cores), never below 1 and at most PYVC_MAX_LOAD_SCALE."""
import os


def load_scale():
    try:
        load = os.getloadavg()[0]
    except (OSError, AttributeError):
        return 1.0
    n = os.cpu_count() or 1
    return min(float(os.environ.get("PYVC_MAX_LOAD_SCALE", "30")), max(1.0, load / n))


def ms(base_ms):
    return int(base_ms * load_scale())
