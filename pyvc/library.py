"""Modelled library calls (section 2.4 of DESIGN.md) and the uninterpreted pow/sqrt theory."""
import builtins
import math
import warnings
import ast

import numpy as np
import z3

from .values import (SV, SymObj, SymMap, SymSeq, Unsupported, as_real, as_int, kind_of, truth,
                     real_val, is_symbolic, key_eq)
from .interp import Models, PyRaise, PathEnd, BoundMethod, InterpFunction

R = z3.RealSort()
POW = z3.Function("pow_", R, R, R)
SQRT = z3.Function("sqrt_", R, R)
EXP = z3.Function("exp_", R, R)
LOG = z3.Function("log_", R, R)

SIN = z3.Function("sin_", R, R)
COS = z3.Function("cos_", R, R)
TAN = z3.Function("tan_", R, R)
ASIN = z3.Function("asin_", R, R)
ACOS = z3.Function("acos_", R, R)
ATAN = z3.Function("atan_", R, R)

POW_AXIOMS_TEXT = [
    "sqrt_(x) >= 0 and sqrt_(x)^2 = x            (x >= 0; instantiated at every use)",
    "pow_(x, 1/2) = sqrt_(x)",
    "x > 0 => pow_(x, y) > 0",
    "x = 0 and y > 0 => pow_(x, y) = 0",
    "x = 1 => pow_(x, y) = 1",
    "pow_(x, 1) = x, pow_(x, 0) = 1, pow_(x, 2) = x*x   (instantiated when y is that literal)",
    "0 <= x < x' and y > 0 => pow_(x, y) < pow_(x', y)   (only where a lemma instantiates it)",
]


def sqrt_model(interp, x):
    t = as_real(x)
    if interp.path.branch(t < 0):
        raise PyRaise(ValueError("math domain error: sqrt of negative (nan in numpy)"))
    s = SQRT(t)
    interp.path.assume(z3.And(s >= 0, s * s == t))
    return SV(s, "real")


def pow_model(interp, a, b):
    """General a ** b as uninterpreted pow_ with axioms instantiated at the use site."""
    x, y = as_real(a), as_real(b)
    # concrete 0.5: sqrt
    if not isinstance(b, SV) and float(b) == 0.5:
        return sqrt_model(interp, a)
    # negative base with non-integer exponent -> complex in python: domain error path
    if interp.path.branch(x < 0):
        raise PyRaise(ValueError("negative base with non-integer/symbolic exponent"))
    if not isinstance(b, SV) and float(b) < 0 or isinstance(b, SV):
        if isinstance(b, SV):
            neg = interp.path.branch(z3.And(x == 0, y < 0))
        else:
            neg = interp.path.branch(x == 0)
        if neg:
            raise PyRaise(ZeroDivisionError("0.0 cannot be raised to a negative power"))
    p = POW(x, y)
    ax = [z3.Implies(x > 0, p > 0), z3.Implies(z3.And(x == 0, y > 0), p == 0), z3.Implies(x == 1, p == 1),
          z3.Implies(y == 1, p == x), z3.Implies(y == 0, p == 1),
          z3.Implies(z3.And(y == real_val(0.5), x >= 0), z3.And(p >= 0, p * p == x))]
    for a_ in ax:
        interp.path.assume(a_)
    return SV(p, "real")


def _num_args(args):
    return all(kind_of(a) in ("int", "real", "bool") for a in args)


def m_abs(interp, args, kw):
    (v,) = args
    if hasattr(v, "sym_abs"):
        return v.sym_abs()
    if isinstance(v, SymObj):
        r = interp._dunder(v, "__abs__", [])
        if r is NotImplemented:
            raise PyRaise(TypeError("bad operand type for abs()"))
        return r
    if v.k == "int":
        return SV(z3.If(v.t >= 0, v.t, -v.t), "int")
    t = as_real(v)
    return SV(z3.If(t >= 0, t, -t), "real")


def _minmax(is_min):
    def m(interp, args, kw):
        if kw:
            raise Unsupported("min/max with key on symbolic values")
        xs = list(args[0]) if len(args) == 1 else list(args)
        if not xs:
            raise PyRaise(ValueError("min() arg is an empty sequence"))
        if not _num_args(xs):
            if any(x is None for x in xs):
                raise PyRaise(TypeError("'<' not supported between NoneType and number"))
            raise Unsupported("min/max of non-numeric symbolic values")
        allint = all(kind_of(x) in ("int", "bool") for x in xs)
        conv = as_int if allint else as_real
        cur = conv(xs[0])
        for x in xs[1:]:
            t = conv(x)
            cur = z3.If(t < cur, t, cur) if is_min else z3.If(t > cur, t, cur)
        return SV(cur, "int" if allint else "real")
    return m


def m_np_minmax(is_min):
    inner = _minmax(is_min)

    def m(interp, args, kw):
        xs = args[0]
        if hasattr(xs, "sym_max") and not is_min:
            return xs.sym_max()
        if isinstance(xs, (list, tuple)):
            r = inner(interp, [list(xs)], {})
            return r
        raise Unsupported("np.min/np.max on symbolic array")
    return m


def m_isinstance(interp, args, kw):
    v, cls = args
    if isinstance(cls, tuple):
        return any(m_isinstance(interp, [v, c], {}) for c in cls)
    if isinstance(v, SymObj):
        return issubclass(v.cls, cls)
    if isinstance(v, SV):
        py = {"int": int, "real": float, "bool": bool, "name": str}[v.k]
        try:
            return issubclass(py, cls)
        except TypeError:
            return False
    if isinstance(v, SymMap):
        return cls in (dict, object) or getattr(cls, "__name__", "") in ("Mapping", "MutableMapping")
    if isinstance(v, SymSeq):
        return cls in (list, object)
    return isinstance(v, cls)


def m_hasattr(interp, args, kw):
    o, a = args
    if isinstance(o, SymObj):
        try:
            interp.getattr(o, a)
            return True
        except PyRaise as pr:
            if isinstance(pr.exc, AttributeError):
                return False
            raise
    return hasattr(o, a)


def m_getattr(interp, args, kw):
    o, a = args[0], args[1]
    if isinstance(a, SV):
        raise Unsupported("getattr with symbolic attribute name")
    try:
        return interp.getattr(o, a)
    except PyRaise as pr:
        if isinstance(pr.exc, AttributeError) and len(args) > 2:
            return args[2]
        raise


def m_setattr(interp, args, kw):
    o, a, v = args
    if isinstance(a, SV):
        raise Unsupported("setattr with symbolic attribute name")
    interp.setattr(o, a, v)


def m_len(interp, args, kw):
    (v,) = args
    if hasattr(v, "sym_len"):
        return v.sym_len()
    if isinstance(v, SymSeq):
        return v.length
    if isinstance(v, SymObj):
        r = interp._dunder(v, "__len__", [])
        if r is NotImplemented:
            raise PyRaise(TypeError("object has no len()"))
        return r
    if isinstance(v, SymMap):
        raise Unsupported("len of symbolic map")
    from .values import NativeModel
    if isinstance(v, NativeModel) and not hasattr(v, "__len__"):
        # a contract stub that models only the methods the code used to call: "needs contract", not a TypeError of the real code
        raise Unsupported("the contract's stub is incomplete for the code as it now is: %s has no len()" % type(v).__name__)
    return len(v)


def m_float(interp, args, kw):
    return interp._convert(float, args)


def m_int(interp, args, kw):
    return interp._convert(int, args)


def m_bool(interp, args, kw):
    (v,) = args
    t = interp.truth(v)
    return t if isinstance(t, bool) else SV(t, "bool")


def m_round(interp, args, kw):
    v = args[0]
    nd = args[1] if len(args) > 1 else kw.get("ndigits", kw.get("decimals", None))
    if not isinstance(v, SV):
        return round(*args, **kw)
    if nd is None or nd == 0:
        if v.k == "int":
            return v
        raise Unsupported("round() of symbolic real to integer")
    # float == R assumption: rounding to >= 6 decimals is the identity
    if isinstance(nd, int) and nd >= 6:
        interp.path.notes.append("round(x,%d) treated as identity (float == R)" % nd)
        return v
    raise Unsupported("round to %r digits" % (nd,))


def m_floor(interp, args, kw):
    (v,) = args
    if not isinstance(v, SV):
        return math.floor(v)
    if v.k == "int":
        return v
    return SV(z3.ToInt(as_real(v)), "int")


def m_np_floor(interp, args, kw):
    (v,) = args
    if not isinstance(v, SV):
        return np.floor(v)
    return SV(z3.ToReal(z3.ToInt(as_real(v))), "real")


def m_ceil(interp, args, kw):
    (v,) = args
    if not isinstance(v, SV):
        return math.ceil(v)
    if v.k == "int":
        return v
    return SV(-z3.ToInt(-as_real(v)), "int")


def m_sqrt(interp, args, kw):
    (v,) = args
    if not isinstance(v, SV):
        return math.sqrt(v)
    return sqrt_model(interp, v)


def m_power(interp, args, kw):
    a, b = args
    return interp.pow(a, b)


def m_isnan(interp, args, kw):
    (v,) = args
    if isinstance(v, SV):
        return False  # float == R
    return bool(np.isnan(v))


def m_np_abs(interp, args, kw):
    return m_abs(interp, args, kw)


SIGMA = z3.Function("sigma_", z3.ArraySort(z3.IntSort(), R), z3.IntSort(), R)   # sigma_(a, n) = sum_{i<n} a[i]
_bound_n = [0]


def sigma_of(seq, interp=None, path=None):
    """z3 term for the sum of a SymSeq: sigma_(Lambda i. elem(i), len)."""
    _bound_n[0] += 1
    i = z3.Int("i!b%d" % _bound_n[0])
    p = path if path is not None else interp.path
    old = getattr(p, "no_branch", False)
    p.no_branch = True
    try:
        v = seq.elem(i)
    finally:
        p.no_branch = old
    return SIGMA(z3.Lambda([i], as_real(v)), seq.len_term())


def sigma_unfold(arr, k):
    """definitional axioms of sigma_ instantiated at k: sigma(a,0)=0, sigma(a,k+1)=sigma(a,k)+a[k]."""
    return [SIGMA(arr, 0) == 0, SIGMA(arr, k + 1) == SIGMA(arr, k) + arr[k]]


class PrefixSum:
    """Spec function F(k) = sum_{i<k} summand(i), given by its defining recurrence (quantifier-free:
    the recurrence is instantiated where a loop rule / sum rule needs it)."""

    def __init__(self, name, summand, *extra_sorts):
        self.f = z3.Function(name, z3.IntSort(), R)
        self.summand = summand

    def at(self, k):
        return self.f(k if not isinstance(k, int) else z3.IntVal(k))

    def defs(self, k):
        return [self.f(z3.IntVal(0)) == 0, self.f(k + 1) == self.f(k) + self.summand(k)]


def m_sum(interp, args, kw):
    xs = args[0]
    start = args[1] if len(args) > 1 else 0
    if isinstance(xs, SymSeq):
        spec = None
        site = getattr(interp, "call_site", None)
        if site is not None:
            spec = interp.sum_specs.get(site)
        if spec is None:
            t = sigma_of(xs, interp)
            return SV(t + as_real(start), "real")
        # sum rule (induction over the prefix): summand(k) == F(k+1) - F(k) for an arbitrary k, F(0) == 0
        ps = spec(interp.call_env.locals)
        path = interp.path
        n = xs.len_term()
        k = path.fresh("ksum", "int")
        path.assume(z3.And(k.t >= 0, k.t < n))
        if xs.facts is not None:
            for f in xs.facts(k.t):
                path.assume(f)
        old = getattr(path, "no_branch", False)
        path.no_branch = True
        try:
            v = xs.elem(k.t)
        finally:
            path.no_branch = old
        for ax in ps.defs(k.t):
            path.assume(ax)
        path.oblige("sum@%s:%d_summand_matches_spec" % site, as_real(v) == ps.summand(k.t), kind="inv")
        return SV(ps.at(n) + as_real(start), "real")
    acc = start
    for x in interp.iterate(xs):
        acc = interp.binop(ast.Add, acc, x)
    return acc


def _key_less(interp, a, b):
    """python `a < b` on sort keys (scalars or tuples, lexicographic), decided by path branching."""
    if isinstance(a, tuple) and isinstance(b, tuple):
        for x, y in zip(a, b):
            if interp.path.branch(truth(interp.compare(ast.Lt, x, y))):
                return True
            if interp.path.branch(truth(interp.compare(ast.Lt, y, x))):
                return False
        return len(a) < len(b)
    return interp.path.branch(truth(interp.compare(ast.Lt, a, b)))


def stable_sort(interp, items, key=None, reverse=False):
    """list.sort / sorted semantics (stable; reverse keeps the original order of equal keys): insertion sort whose
    comparisons fork the path, so each path carries one concrete permutation plus the order facts in its pc."""
    keyed = [(interp.call(key, [x]) if key is not None else x, x) for x in items]
    out = []
    for k, x in keyed:
        pos = len(out)
        while pos > 0:
            pk = out[pos - 1][0]
            move = _key_less(interp, pk, k) if reverse else _key_less(interp, k, pk)
            if not move:
                break
            pos -= 1
        out.insert(pos, (k, x))
    return [x for k, x in out]


def m_sorted(interp, args, kw):
    return stable_sort(interp, interp.iterate(args[0]), key=kw.get("key"), reverse=bool(kw.get("reverse", False)))


def m_list_sort(interp, lst, args, kw):
    lst[:] = stable_sort(interp, list(lst), key=kw.get("key"), reverse=bool(kw.get("reverse", False)))
    return None


def m_warn(interp, args, kw):
    interp.path.events.append(("warning", args[0] if args else None))
    return None


def m_any(interp, args, kw):
    terms = []
    for x in interp.iterate(args[0]):
        t = truth(x)
        if isinstance(t, bool):
            if t:
                return True
        else:
            terms.append(t)
    if not terms:
        return False
    return SV(z3.Or(*terms), "bool")


def m_all(interp, args, kw):
    terms = []
    for x in interp.iterate(args[0]):
        t = truth(x)
        if isinstance(t, bool):
            if not t:
                return False
        else:
            terms.append(t)
    if not terms:
        return True
    return SV(z3.And(*terms), "bool")


def m_np_sign(interp, args, kw):
    (v,) = args
    t = as_real(v)
    return SV(z3.If(t > 0, z3.RealVal(1), z3.If(t < 0, z3.RealVal(-1), z3.RealVal(0))), "real")


def m_str(interp, args, kw):
    (v,) = args
    if isinstance(v, SV) and v.k == "name":
        return v
    from .values import SymStr
    if isinstance(v, SymStr):
        return v
    if isinstance(v, SV) and v.k in ("int", "real"):
        return SymStr((v,), tokens=[v])        # token model: str(v) is one token whose float() is v
    if is_symbolic(v):
        return "<sym>"
    return str(v)


def m_print(interp, args, kw):
    return None


def m_type(interp, args, kw):
    if len(args) == 1:
        v = args[0]
        if isinstance(v, SymObj):
            return v.cls
        if isinstance(v, SV):
            return {"int": int, "real": float, "bool": bool, "name": str}[v.k]
        if isinstance(v, SymMap):
            return dict
        return type(v)
    raise Unsupported("type() with 3 args")


def m_np_float64(interp, args, kw):
    return m_float(interp, args, kw)


def m_id(interp, args, kw):
    return id(args[0])


def _np_cmp(op):
    def m(interp, args, kw):
        a, b = args
        return interp.compare(op, a, b)
    return m


def build_models():
    m = Models()
    reg = m.register
    for uf, op in ((np.greater, ast.Gt), (np.greater_equal, ast.GtE), (np.less, ast.Lt), (np.less_equal, ast.LtE),
                   (np.equal, ast.Eq), (np.not_equal, ast.NotEq)):
        reg(uf, _np_cmp(op))
    reg(builtins.abs, m_abs)
    reg(builtins.min, _minmax(True))
    reg(builtins.max, _minmax(False))
    reg(builtins.isinstance, m_isinstance)
    reg(builtins.hasattr, m_hasattr)
    reg(builtins.getattr, m_getattr)
    reg(builtins.setattr, m_setattr)
    reg(builtins.len, m_len)
    reg(builtins.float, m_float)
    reg(builtins.int, m_int)
    reg(builtins.bool, m_bool)
    reg(builtins.round, m_round)
    reg(builtins.sum, m_sum)
    reg(builtins.sorted, m_sorted)
    reg(builtins.any, m_any)
    reg(builtins.all, m_all)
    reg(builtins.str, m_str)
    reg(builtins.print, m_print)
    reg(builtins.type, m_type)
    reg(builtins.id, m_id)
    reg(math.floor, m_floor)
    reg(math.ceil, m_ceil)
    reg(math.sqrt, m_sqrt)
    reg(math.fabs, m_abs)
    reg(math.pow, m_power)
    reg(np.floor, m_np_floor)
    reg(np.sqrt, m_sqrt)
    reg(np.power, m_power)
    reg(np.round, m_round)
    reg(np.around, m_round)
    reg(np.isnan, m_isnan)
    reg(np.abs, m_np_abs)
    reg(np.absolute, m_np_abs)
    # elementwise maximum / minimum of two scalars
    def _pair(is_min):
        inner = _minmax(is_min)
        def m(interp, args, kw):
            if len(args) != 2 or kw or any(isinstance(a, (list, tuple)) or hasattr(a, "sym_max") for a in args):
                raise Unsupported("np.maximum / np.minimum on arrays")
            return inner(interp, [list(args)], {})
        return m
    reg(np.maximum, _pair(False))
    reg(np.minimum, _pair(True))
    reg(np.min, m_np_minmax(True))
    reg(np.max, m_np_minmax(False))
    reg(np.sign, m_np_sign)
    reg(np.float64, m_np_float64)
    reg(warnings.warn, m_warn)
    def _uf(fn_):
        def m_(interp, args, kw):
            (v,) = args
            return SV(fn_(as_real(v)), "real")
        return m_
    for pyf, zf in ((math.exp, EXP), (math.log, LOG), (math.sin, SIN), (math.cos, COS), (math.tan, TAN),
                    (math.asin, ASIN), (math.acos, ACOS), (math.atan, ATAN)):
        reg(pyf, _uf(zf), trusted="uninterpreted transcendental function")
    import operator as _op

    def _binop_model(astop):
        def m_(interp, args, kw):
            return interp.binop(astop, args[0], args[1])
        return m_
    for pyf, astop in ((_op.add, ast.Add), (_op.sub, ast.Sub), (_op.mul, ast.Mult), (_op.truediv, ast.Div), (_op.pow, ast.Pow),
                       (_op.floordiv, ast.FloorDiv), (_op.mod, ast.Mod)):
        reg(pyf, _binop_model(astop))
    reg(_op.neg, lambda interp, args, kw: interp.binop(ast.Sub, 0, args[0]))
    import time as _time

    def m_time(interp, args, kw):
        # wall clock: an arbitrary non-decreasing real
        p = interp.path
        t = p.fresh("clock", "real")
        last = getattr(p, "_last_clock", None)
        if last is not None:
            p.assume(t.t >= last.t)
        p._last_clock = t
        return t
    reg(_time.time, m_time)
    return m
