"""pyvc driver: cases, path exploration, discharge (z3 then cvc5), replay, CPython cross-check."""
import json
import math
import os
import random
import subprocess
import tempfile
import time
import traceback
import types
from fractions import Fraction

import z3

from .values import (SV, SymObj, SymMap, SymSeq, Leaf, Unsupported, as_real, as_int, kind_of, truth,
                     real_val, NameSort, name_distinct_axioms, is_symbolic)
from .interp import Interp, Path, PyRaise, PathEnd, SOURCES, Models, BoundMethod

from . import budget
Z3_TIMEOUT_MS = int(os.environ.get("PYVC_Z3_TIMEOUT_MS", "45000"))
CVC5_TIMEOUT_MS = int(os.environ.get("PYVC_CVC5_TIMEOUT_MS", "60000"))
CVC5_BIN = "/usr/bin/cvc5"
MAX_PATHS = 4000


class Outcome:
    def __init__(self, kind, value=None, exc=None):
        self.kind, self.value, self.exc = kind, value, exc

    @property
    def returned(self):
        return self.kind == "return"

    def __repr__(self):
        if self.kind == "return":
            return "return %r" % (self.value,)
        return "raise %s" % type(self.exc).__name__


class NInt(int):
    """python int carrying the z3 symbol it was read from (replay mode)."""
    sym = None


class NFloat(float):
    sym = None


class NStr(str):
    sym = None


class _NoPath:
    """stand-in for cx.path in replay mode: nothing is logged natively (frame obligations hold vacuously)."""
    writes = ()
    events = ()
    inlined = set()
    notes = []

    def assume(self, c):
        pass


class NativeMap:
    """replay-mode counterpart of a SymMap over names: content and domain come from the verifier's model."""

    def __init__(self, cx, func, dom=None, leaf=False, label="map"):
        self.cx, self.func, self.domf, self.leaf, self.label = cx, func, dom, leaf, label
        self.store = {}
        self.deleted = set()

    def __contains__(self, k):
        if k in self.store:
            return True
        if k in self.deleted:
            return False
        if self.domf is None:
            return True
        return bool(self.cx.zeval(self.domf(self.cx._zterm(k))))

    def __getitem__(self, k):
        if k not in self:
            raise KeyError(k)
        if k not in self.store:
            v = self.cx.fval(self.func, k) if self.func is not None else None
            self.store[k] = types.SimpleNamespace(value=v) if self.leaf else v
        return self.store[k]

    def __setitem__(self, k, v):
        self.store[k] = v
        self.deleted.discard(k)

    def __delitem__(self, k):
        if k not in self:
            raise KeyError(k)
        self.store.pop(k, None)
        self.deleted.add(k)


class CaseCtx:
    """Per-path construction context handed to Case.build."""

    def __init__(self, path, mode="symbolic", assignment=None, tol=1e-9, zmodel=None):
        self.path = path if path is not None or mode != "replay" else _NoPath()
        self.mode = mode  # 'symbolic' | 'native' (python numbers everywhere) | 'replay' (native objects + z3 posts under the model)
        self.zmodel = zmodel
        self.assignment = assignment or {}
        self.inputs = {}  # name -> SV (symbolic mode)
        self.requires = []
        self.target_call = None
        self.post_fn = None
        self.allowed_raises = []  # (exc class, cond)
        self.tol = tol
        self.regions = {}
        self.concretizers = []
        self.native_setup = None
        self.notes = []
        self.frame = None
        self.hints = []   # soft preferences for sampled / counter models (e.g. small sequence lengths); never assumed in proofs

    # ---- inputs
    def _inp(self, name, kind):
        if self.mode == "native":
            v = self.assignment[name]
            return v
        if self.mode == "replay":
            sym = {"int": z3.Int, "real": z3.Real, "bool": z3.Bool, "name": lambda n: z3.Const(n, NameSort)}[kind](name)
            sv = SV(sym, kind)
            self.inputs[name] = sv
            pv = model_value(self.zmodel, sv)
            self.assignment[name] = pv
            if pv is None:
                raise ReplayImpossible("model value of %s is not representable natively" % name)
            w = {"int": NInt, "real": NFloat, "bool": NInt, "name": NStr}[kind](pv)
            w.sym = sym
            return w
        sv = {"int": lambda: SV(z3.Int(name), "int"), "real": lambda: SV(z3.Real(name), "real"),
              "bool": lambda: SV(z3.Bool(name), "bool"),
              "name": lambda: SV(z3.Const(name, NameSort), "name")}[kind]()
        self.inputs[name] = sv
        return sv

    def int(self, name):
        return self._inp(name, "int")

    def real(self, name):
        return self._inp(name, "real")

    def bool(self, name):
        return self._inp(name, "bool")

    def name(self, name):
        return self._inp(name, "name")

    def obj(self, cls, label=None, **fields):
        if self.mode in ("native", "replay"):
            return make_native(cls, fields)
        return SymObj(cls, fields, label=label)

    # ---- model-backed helpers (symbolic: z3 terms / SymSeq / SymMap; replay: python values read from the model)
    def _zterm(self, v):
        if isinstance(v, SV):
            return v.t
        if getattr(v, "sym", None) is not None:
            return v.sym
        if isinstance(v, z3.ExprRef):
            return v
        if isinstance(v, bool):
            return z3.BoolVal(v)
        if isinstance(v, int):
            return z3.IntVal(v)
        if isinstance(v, float):
            return real_val(v)
        if isinstance(v, str):
            # a name value of the model (e.g. 'Name!val!0') or a literal name
            for c in self._name_universe():
                if str(c) == v:
                    return c
            from .values import name_const
            return name_const(v)
        raise Unsupported("no z3 term for %r" % (v,))

    def _name_universe(self):
        try:
            return list(self.zmodel.get_universe(NameSort) or [])
        except Exception:
            return []

    def fval(self, func, *args):
        """func(*args): a z3-valued SV symbolically; the model's python value in replay mode."""
        app = func(*[self._zterm(a) for a in args])
        k = {"Int": "int", "Real": "real", "Bool": "bool"}.get(str(app.sort()), "name")
        if self.mode == "symbolic":
            return SV(app, k)
        v = model_value(self.zmodel, SV(app, k))
        if v is None:
            raise ReplayImpossible("model value of %s is not representable natively" % app)
        return v

    def seq(self, length, func, *prefix, label="seq", facts=None):
        """sequence i -> func(*prefix, i) of the given length."""
        if self.mode == "symbolic":
            pre = [self._zterm(a) for a in prefix]

            def elem(i):
                it = z3.IntVal(i) if isinstance(i, int) else i
                app = func(*(pre + [it]))
                k = {"Int": "int", "Real": "real", "Bool": "bool"}.get(str(app.sort()), "name")
                return SV(app, k)
            return SymSeq(length, elem, label=label, facts=facts)
        return [self.fval(func, *(list(prefix) + [i])) for i in range(int(length))]

    def map(self, func, dom=None, leaf=False, label="map"):
        """map over names: k -> func(k) on the domain dom(k) (z3 predicate on the key term)."""
        if self.mode == "symbolic":
            cache = {}

            def get(k):
                key = k.t.get_id()
                if key not in cache:
                    app = func(k.t)
                    kd = {"Int": "int", "Real": "real", "Bool": "bool"}.get(str(app.sort()), "name")
                    cache[key] = Leaf(SV(app, kd)) if leaf else SV(app, kd)
                return cache[key]
            return SymMap((lambda k: dom(k.t)) if dom is not None else (lambda k: z3.BoolVal(True)), get, label=label)
        return NativeMap(self, func, dom, leaf, label)

    def field(self, obj, name):
        """current value of an attribute of a case object (SymObj field / native attribute)."""
        if isinstance(obj, SymObj):
            return obj.fields.get(name)
        return getattr(obj, name)

    def dom(self, mp, key):
        """key in mp (z3 Bool / bool)."""
        if self.mode == "symbolic":
            return self.interp.map_dom(mp, key)
        return key in mp

    def add(self, a, b):
        if self.mode == "symbolic":
            import ast as _ast
            return self.interp.binop(_ast.Add, a, b)
        return a + b

    def zeval(self, expr):
        """truth of a z3 Bool under the replay model, with a tolerance on arithmetic comparisons."""
        return zeval(expr, self.zmodel, self.tol)

    def num(self, v):
        """z3 real term of a value of either mode (python number, SV, Leaf, input wrapper -> its *native* value)."""
        from .values import as_real as _ar
        if isinstance(v, (NInt, NFloat)):
            return real_val(float(v)) if isinstance(v, NFloat) else z3.RealVal(int(v))
        if hasattr(v, "value") and not isinstance(v, (SV,)) and self.mode != "symbolic":
            v = v.value
        try:
            import numpy as _np
            if isinstance(v, _np.generic):
                v = v.item()
        except Exception:
            pass
        return _ar(v)

    # ---- spec helpers (work in both modes)
    def t(self, v):
        """z3 term (symbolic mode) or python number (native mode) of a value; in replay mode the z3 symbol of an input."""
        if isinstance(v, SV):
            return v.t
        if self.mode == "replay" and getattr(v, "sym", None) is not None:
            return v.sym
        return v

    def assume(self, *conds):
        for c in conds:
            self.requires.append(c)
            if self.mode == "symbolic":
                self.path.assume(c)

    def is_symbolic(self):
        return self.mode == "symbolic"

    def hint(self, *conds):
        self.hints.extend(conds)

    def target(self, f, *args, **kwargs):
        self.target_call = (f, args, kwargs)

    def ensure(self, fn):
        self.post_fn = fn

    def allow_raise(self, exc_cls, when=True):
        self.allowed_raises.append((exc_cls, when))

    def region(self, key, cond):
        self.regions[key] = cond

    # tolerant comparisons: exact in symbolic mode, tolerance in native replay
    def eq(self, a, b):
        if self.mode == "symbolic" or _has_z3(a) or _has_z3(b):
            return _z(a) == _z(b)
        if a is None or b is None:
            return a is b
        if isinstance(a, bool) or isinstance(b, bool):
            return bool(a) == bool(b)
        try:
            return abs(a - b) <= self.tol * max(1.0, abs(a), abs(b))
        except TypeError:
            return a == b

    def close(self, a, b, scale, rel=1e-12):
        """|a - b| <= rel * scale : for specs whose code constant is a rounded float literal (e.g. 4.0/3.0)."""
        if self.mode == "symbolic" or _has_z3(a) or _has_z3(b) or _has_z3(scale):
            a, b, sc = _z(a), _z(b), _z(scale)
            r = real_val(rel)
            return z3.And(a - b <= r * sc, b - a <= r * sc)
        return abs(a - b) <= max(rel, self.tol) * max(abs(scale), 1e-300)

    def le(self, a, b):
        if self.mode == "symbolic" or _has_z3(a) or _has_z3(b):
            return _z(a) <= _z(b)
        return a <= b + self.tol * max(1.0, abs(a), abs(b))

    def lt(self, a, b):
        if self.mode == "symbolic" or _has_z3(a) or _has_z3(b):
            return _z(a) < _z(b)
        return a < b


class ReplayImpossible(Exception):
    pass


def _num_of(v):
    """python float of a z3 numeral (rational / algebraic), else None."""
    try:
        if z3.is_algebraic_value(v):
            v = v.approx(20)
        if z3.is_rational_value(v) or z3.is_int_value(v):
            return float(Fraction(v.numerator_as_long(), v.denominator_as_long()))
    except Exception:
        pass
    return None


def zeval(expr, zmodel, tol=1e-9):
    """True / False / None: value of a z3 Bool under zmodel with relative tolerance tol on ==, <=, < between reals."""
    if isinstance(expr, bool):
        return expr
    e = expr
    if z3.is_true(e):
        return True
    if z3.is_false(e):
        return False
    k = e.decl().kind() if z3.is_app(e) else None
    ch = e.children() if z3.is_app(e) else []
    if k == z3.Z3_OP_AND:
        vs = [zeval(c, zmodel, tol) for c in ch]
        return False if any(v is False for v in vs) else (None if any(v is None for v in vs) else True)
    if k == z3.Z3_OP_OR:
        vs = [zeval(c, zmodel, tol) for c in ch]
        return True if any(v is True for v in vs) else (None if any(v is None for v in vs) else False)
    if k == z3.Z3_OP_NOT:
        v = zeval(ch[0], zmodel, tol)
        return None if v is None else (not v)
    if k == z3.Z3_OP_IMPLIES:
        a = zeval(ch[0], zmodel, tol)
        if a is False:
            return True
        b = zeval(ch[1], zmodel, tol)
        if a is True:
            return b
        return True if b is True else None
    if k == z3.Z3_OP_ITE and z3.is_bool(e):
        c = zeval(ch[0], zmodel, tol)
        if c is None:
            return None
        return zeval(ch[1] if c else ch[2], zmodel, tol)
    if k in (z3.Z3_OP_EQ, z3.Z3_OP_LE, z3.Z3_OP_LT, z3.Z3_OP_GE, z3.Z3_OP_GT, z3.Z3_OP_DISTINCT) and len(ch) == 2 and z3.is_arith(ch[0]):
        a = _num_of(zmodel.eval(ch[0], model_completion=True))
        b = _num_of(zmodel.eval(ch[1], model_completion=True))
        if a is None or b is None:
            return None
        slack = tol * max(1.0, abs(a), abs(b))
        if k == z3.Z3_OP_EQ:
            return abs(a - b) <= slack
        if k == z3.Z3_OP_DISTINCT:
            return abs(a - b) > slack
        if k == z3.Z3_OP_LE:
            return a <= b + slack
        if k == z3.Z3_OP_LT:
            return a < b + slack
        if k == z3.Z3_OP_GE:
            return a >= b - slack
        return a > b - slack
    if k == z3.Z3_OP_EQ and len(ch) == 2 and z3.is_bool(ch[0]):
        a, b = zeval(ch[0], zmodel, tol), zeval(ch[1], zmodel, tol)
        return None if a is None or b is None else (a == b)
    v = zmodel.eval(e, model_completion=True)
    if z3.is_true(v):
        return True
    if z3.is_false(v):
        return False
    return None


def _has_z3(x):
    return isinstance(x, (z3.ExprRef, SV))


def _z(x):
    if isinstance(x, SV):
        return x.t
    if isinstance(x, float):
        return real_val(x)
    return x


def make_native(cls, fields):
    """Real instance of cls with the given attribute values, bypassing __init__."""
    if cls is types.SimpleNamespace:
        return types.SimpleNamespace(**fields)
    try:
        o = cls.__new__(cls)
    except TypeError:
        o = object.__new__(cls)
    for k, v in fields.items():
        try:
            object.__setattr__(o, k, v)
        except AttributeError:
            o.__dict__[k] = v
    return o


class Case:
    def __init__(self, name, build, target=None, properties=(), known=None, sample=None, crosscheck=True,
                 native_compare=None, replay="native"):
        self.name = name
        self.build = build  # build(cx) -> None (sets cx.target, cx.ensure...)
        self.target = target
        self.properties = tuple(properties)
        self.sample = sample  # optional callable(rng)->assignment dict for cross-check
        self.crosscheck = crosscheck
        self.native_compare = native_compare
        self.replay = replay   # 'native' (python numbers, posts evaluated in python) | 'model' (native objects, z3 posts under the model)


class Contract:
    """A group of cases for one real function."""

    def __init__(self, target, properties, cases, models=None, inline_ok=None, loop_specs=None,
                 pow_fn=None, trusted=(), note="", axioms=None, interpret_always=(), expect_min_paths=1, total_arith=False,
                 sum_specs=None):
        self.target = target
        self.properties = tuple(properties)
        self.cases = list(cases)
        self.models = models
        self.inline_ok = inline_ok
        self.loop_specs = loop_specs or {}
        self.pow_fn = pow_fn
        self.trusted = list(trusted)
        self.note = note
        self.axioms = axioms  # callable() -> list of z3 axioms
        self.interpret_always = interpret_always
        self.total_arith = total_arith
        self.sum_specs = sum_specs or {}
        for c in self.cases:
            c.target = c.target or target
            if not c.properties:
                c.properties = self.properties


# ------------------------------------------------------------------------------------------------
# discharge


def model_value(m, sv):
    v = m.eval(sv.t, model_completion=True)
    if sv.k == "int":
        try:
            return v.as_long()
        except Exception:
            return None
    if sv.k == "bool":
        return z3.is_true(v)
    if sv.k == "real":
        try:
            if z3.is_algebraic_value(v):
                v = v.approx(20)
            return float(Fraction(v.numerator_as_long(), v.denominator_as_long()))
        except Exception:
            try:
                return float(v.as_decimal(17).rstrip("?"))
            except Exception:
                return None
    return str(v)


def _tactic_solver(formulas, timeout_ms):
    s = z3.Solver()
    s.set("timeout", budget.ms(timeout_ms))
    seed = int(os.environ.get("VERIF_SEED", "0") or 0)
    s.set("random_seed", seed % (2 ** 30))
    for f in formulas:
        s.add(f)
    return s


def run_cvc5(smt2, timeout_ms, extra=()):
    timeout_ms = budget.ms(timeout_ms)
    with tempfile.NamedTemporaryFile("w", suffix=".smt2", delete=False, dir=_scratch_dir()) as fh:
        fh.write(smt2)
        fn = fh.name
    try:
        t0 = time.time()
        cmd = [CVC5_BIN, "--lang=smt2", "--tlimit=%d" % timeout_ms, "--nl-ext-tplanes"] + list(extra) + [fn]
        try:
            out = subprocess.run(cmd, capture_output=True, text=True, timeout=timeout_ms / 1000.0 + 5)
            res = out.stdout.strip().splitlines()[0] if out.stdout.strip() else "unknown"
        except subprocess.TimeoutExpired:
            res = "unknown"
        return res, time.time() - t0
    finally:
        os.unlink(fn)


_SCRATCH = None


def _scratch_dir():
    global _SCRATCH
    if _SCRATCH is None:
        _SCRATCH = os.path.join(os.path.dirname(os.path.dirname(os.path.abspath(__file__))), ".scratch")
        os.makedirs(_SCRATCH, exist_ok=True)
    return _SCRATCH


def discharge(axioms, pc, goal, use_cvc5_fallback=True, also_cvc5=False, extra_assume=None, prefer=()):
    """Returns dict(verdict, backend, seconds, model). `prefer`: soft constraints for a nicer counter-model."""
    fs = list(axioms) + list(pc) + ([extra_assume] if extra_assume is not None else []) + [z3.Not(goal)]
    t0 = time.time()
    s = _tactic_solver(fs, Z3_TIMEOUT_MS)
    r = s.check()
    dt = time.time() - t0
    res = dict(verdict=None, backend="z3", seconds=dt, model=None, cvc5=None)
    if r == z3.unsat:
        res["verdict"] = "discharged"
    elif r == z3.sat:
        res["verdict"] = "refuted"
        res["model"] = s.model()
        if prefer:
            s.push()
            for h in prefer:
                s.add(h)
            s.set("timeout", 3000)
            if s.check() == z3.sat:
                res["model"] = s.model()
            s.pop()
    else:
        res["verdict"] = "unknown"
        res["reason"] = s.reason_unknown()
        # solver instability guard: retry with other seeds before giving up (verdicts must not flip under load)
        for extra_seed in (1, 2):
            s2 = z3.Solver()
            s2.set("timeout", budget.ms(Z3_TIMEOUT_MS))
            s2.set("random_seed", 7919 * extra_seed)
            for f in fs:
                s2.add(f)
            t1 = time.time()
            r2 = s2.check()
            res["seconds"] += time.time() - t1
            if r2 == z3.unsat:
                res["verdict"] = "discharged"
                res["backend"] = "z3(retry)"
                break
            if r2 == z3.sat:
                res["verdict"] = "refuted"
                res["model"] = s2.model()
                break
    if (res["verdict"] == "unknown" and use_cvc5_fallback) or also_cvc5:
        smt2 = "(set-logic ALL)\n" + s.to_smt2().replace("(check-sat)", "") + "\n(check-sat)\n"
        cres, cdt = run_cvc5(smt2, CVC5_TIMEOUT_MS)
        res["cvc5"] = cres
        res["cvc5_seconds"] = cdt
        if res["verdict"] == "unknown":
            if cres == "unsat":
                res["verdict"] = "discharged"
                res["backend"] = "cvc5"
                res["seconds"] += cdt
            # a cvc5 `sat` without a model we can replay stays unknown (never a violation)
        elif also_cvc5:
            if (res["verdict"] == "discharged" and cres == "sat") or (res["verdict"] == "refuted" and cres == "unsat"):
                res["verdict"] = "engine-disagreement"
    return res


# ------------------------------------------------------------------------------------------------
# running a case


class CaseResult:
    def __init__(self, contract, case):
        self.target = case.target
        self.case = case.name
        self.properties = list(case.properties)
        self.paths = 0
        self.path_summaries = []
        self.obligations = []  # dicts: name, verdict, backend, seconds, where, model, replay
        self.unsupported = []
        self.crosscheck = dict(samples=0, compared=0, mismatches=[])
        self.vacuity = dict(cover=None, canary=None)
        self.requires = []
        self.functions = {}
        self.inlined = set()
        self.dropped = set()
        self.error = None
        self.seconds = 0.0
        self.feas_checks = 0

    def to_json(self):
        d = dict(self.__dict__)
        d["inlined"] = sorted(self.inlined)
        d["dropped"] = sorted(self.dropped)
        return d


def default_models():
    from . import library
    return library.build_models()


def run_path(contract, case, prefix, models):
    axioms = list(contract.axioms()) if contract.axioms else []
    path = Path(prefix, axioms=axioms)
    cx = CaseCtx(path)
    from . import library
    interp = Interp(path, models, inline_ok=contract.inline_ok, loop_specs=contract.loop_specs,
                    pow_fn=contract.pow_fn or library.pow_model, interpret_always=contract.interpret_always,
                    total_arith=contract.total_arith)
    interp.sum_specs = contract.sum_specs
    cx.interp = interp
    outcome = None
    try:
        case.build(cx)
        f, args, kwargs = cx.target_call
        try:
            v = interp.call(f, list(args), dict(kwargs))
            outcome = Outcome("return", value=v)
        except PyRaise as pr:
            outcome = Outcome("raise", exc=pr.exc)
    except PathEnd as pe:
        outcome = Outcome("end", value=pe.reason)
    except Unsupported as u:
        outcome = Outcome("unsupported", value=str(u))
    for ax in name_distinct_axioms():
        path.axioms.append(ax)
    return path, cx, interp, outcome


def explore(contract, case, models, max_paths=MAX_PATHS):
    work = [[]]
    done = []
    while work:
        prefix = work.pop()
        path, cx, interp, outcome = run_path(contract, case, prefix, models)
        done.append((path, cx, interp, outcome))
        work.extend(path.new_prefixes)
        if len(done) > max_paths:
            raise Unsupported("path budget exceeded (%d)" % max_paths)
    return done


def _exc_allowed(cx, exc):
    conds = []
    for cls, when in cx.allowed_raises:
        if isinstance(exc, cls):
            conds.append(when)
    if not conds:
        return z3.BoolVal(False)
    zs = [z3.BoolVal(c) if isinstance(c, bool) else c for c in conds]
    return z3.Or(*zs) if len(zs) > 1 else zs[0]


def _describe_exc(exc):
    try:
        return "%s(%s)" % (type(exc).__name__, ", ".join(_short(a) for a in exc.args))
    except Exception:
        return type(exc).__name__


def _short(a):
    s = repr(a)
    return s if len(s) < 80 else s[:77] + "..."


def run_case(contract, case, tier="quick", known=None, do_crosscheck=True, seed=0):
    t0 = time.time()
    res = CaseResult(contract, case)
    models = contract.models() if contract.models else default_models()
    known = known or []
    try:
        paths = explore(contract, case, models)
    except Unsupported as u:
        res.unsupported.append(str(u))
        res.seconds = time.time() - t0
        return res
    except Exception:
        res.error = traceback.format_exc()
        res.seconds = time.time() - t0
        return res
    also_cvc5 = tier == "thorough"
    live = 0
    for pi, (path, cx, interp, outcome) in enumerate(paths):
        res.feas_checks += path.feas_checks
        res.inlined |= path.inlined
        res.dropped |= interp.dropped
        if outcome.kind == "end":
            # in-path obligations recorded before the cut still count
            if not path.obligations:
                continue
        if outcome.kind == "unsupported":
            res.unsupported.append("path %d: %s" % (pi, outcome.value))
            continue
        if outcome.kind == "raise" and type(outcome.exc).__name__ == "StubAttributeError":
            res.unsupported.append("path %d: the contract's stub is incomplete for the code as it now is: %s" % (pi, outcome.exc))
            continue
        live += 1
        obls = []
        for ob in path.obligations:
            obls.append((ob.name, ob.pc, ob.goal, ob.where, ob.kind))
        if outcome.kind == "raise":
            allowed = _exc_allowed(cx, outcome.exc)
            obls.append(("no_raise[%s]" % type(outcome.exc).__name__, list(path.pc), allowed,
                         _describe_exc(outcome.exc), "safety"))
        if outcome.kind in ("return", "raise") and cx.post_fn is not None:
            try:
                posts = cx.post_fn(outcome) or []
            except Unsupported as u:
                res.unsupported.append("post of path %d: %s" % (pi, u))
                posts = []
            for nm, goal in posts:
                if isinstance(goal, bool):
                    goal = z3.BoolVal(goal)
                obls.append((nm, list(path.pc), goal, "", "post"))
        res.path_summaries.append(dict(i=pi, outcome=repr(outcome)[:200], pc_len=len(path.pc),
                                       decisions=len(path.decisions)))
        for nm, pc, goal, where, kind in obls:
            full = "%s#%s#%s" % (case.target, case.name, nm)
            kf = [k for k in known if k.get("status") == "known" and _kf_match(k, full)]
            entry = dict(name=full, path=pi, where=where, kind=kind)
            if kf:
                k = kf[0]
                region = cx.regions.get(k.get("region"), None) if k.get("region") not in (None, "*") else z3.BoolVal(True)
                if region is None:
                    entry.update(verdict="error", detail="known-finding region %r not defined by the contract" % k.get("region"))
                    res.obligations.append(entry)
                    continue
                inside = discharge(path.axioms, pc, goal, extra_assume=region)
                outside = discharge(path.axioms, pc, goal, extra_assume=z3.Not(region), also_cvc5=also_cvc5)
                entry.update(verdict=outside["verdict"], backend=outside["backend"], seconds=outside["seconds"] + inside["seconds"],
                             known_finding=dict(id=k.get("id"), inside=inside["verdict"], what=k.get("what_fails")))
                if outside["verdict"] == "refuted":
                    entry["model"] = _model_dict(outside["model"], cx)
                if inside["verdict"] == "refuted":
                    entry["known_model"] = _model_dict(inside["model"], cx)
                res.obligations.append(entry)
                continue
            d = discharge(path.axioms, pc, goal, also_cvc5=also_cvc5, prefer=cx.hints)
            entry.update(verdict=d["verdict"], backend=d["backend"], seconds=d["seconds"])
            if d.get("cvc5") is not None:
                entry["cvc5"] = d["cvc5"]
            if d["verdict"] == "unknown":
                entry["reason"] = d.get("reason")
            if d["verdict"] == "refuted":
                entry["model"] = _model_dict(d["model"], cx)
                entry["goal"] = _short_term(goal)
                entry["_zmodel"] = d["model"]
            res.obligations.append(entry)
    res.paths = live
    # vacuity: requires satisfiable (cover) and canary (False must be refuted on the first live path)
    try:
        p0 = Path([], axioms=list(contract.axioms()) if contract.axioms else [])
        cx0 = CaseCtx(p0)
        cx0.interp = Interp(p0, models)
        try:
            case.build(cx0)
        except PathEnd:
            pass
        s = _tactic_solver(list(p0.axioms) + list(p0.pc), 5000)
        cover = str(s.check())
        if cover == "unknown":
            # nonlinear preconditions (volume curves) can need more than the first budget, above all on a loaded machine: the guard must not flip to
            # "undetermined" for that reason - try again with other seeds and a larger budget, then with the hints as a guide to a witness
            for attempt, extra in ((1, []), (2, list(cx0.hints))):
                s2 = z3.Solver()
                s2.set("timeout", budget.ms(40000))
                s2.set("random_seed", 7919 * attempt)
                for f in list(p0.axioms) + list(p0.pc) + extra:
                    s2.add(f)
                r2 = str(s2.check())
                if r2 == "sat" or (r2 == "unsat" and not extra):
                    cover = r2
                    break
        res.vacuity["cover"] = cover
        res.requires = [_short_term(c) for c in cx0.requires][:16]       # the case's preconditions, for the evidence
    except Exception as e:
        res.vacuity["cover"] = "error: %s" % e
    if do_crosscheck and case.replay == "model" and not res.unsupported and res.error is None and \
            all(e.get("verdict") == "discharged" for e in res.obligations):
        try:
            crosscheck_model(contract, case, res, n=(6 if tier == "quick" else 60), seed=seed)
        except Exception:
            res.crosscheck["error"] = traceback.format_exc()
    elif do_crosscheck and case.crosscheck and not res.unsupported and res.error is None:
        try:
            crosscheck(contract, case, paths, res, n=(25 if tier == "quick" else 300), seed=seed)
        except Exception:
            res.crosscheck["error"] = traceback.format_exc()
    # the proof is undecided because the code left the subset the contract's stubs / loop specifications cover (typically after a change): a failed
    # proof is not a violation, but a *real run of the real code* on an input satisfying the precondition that breaks a postcondition is one
    if res.unsupported and res.error is None and case.replay == "model" and do_crosscheck:
        try:
            refute_by_sampling(contract, case, res, n=(12 if tier == "quick" else 60), seed=seed)
        except Exception:
            res.crosscheck["error"] = traceback.format_exc()
    elif res.unsupported and res.error is None and case.crosscheck and do_crosscheck:
        try:
            refute_by_sampling_native(contract, case, res, n=(25 if tier == "quick" else 200), seed=seed)
        except Exception:
            res.crosscheck["error"] = traceback.format_exc()
    # replay refuted obligations natively
    for entry in res.obligations:
        zm = entry.pop("_zmodel", None)
        if entry.get("verdict") == "refuted" and "model" in entry and "replay" not in entry:
            try:
                if case.replay == "model" and zm is not None:
                    entry["replay"] = replay_model(contract, case, zm, entry["name"].split("#")[-1])
                else:
                    entry["replay"] = replay_native(contract, case, entry["model"], entry["name"].split("#")[-1])
            except Exception:
                entry["replay"] = dict(reproduced=False, error=traceback.format_exc()[-800:])
        if entry.get("known_finding") and entry.get("known_model"):
            try:
                entry["known_finding"]["replay"] = replay_native(contract, case, entry["known_model"], entry["name"].split("#")[-1])
            except Exception:
                entry["known_finding"]["replay"] = dict(reproduced=False, error=traceback.format_exc()[-800:])
    for q, info in SOURCES.used.items():
        res.functions[q] = info
    res.seconds = time.time() - t0
    return res


def _kf_match(k, full):
    ob = k.get("obligation", "")
    if ob.endswith("*"):
        return full.startswith(ob[:-1])
    return ob == full


def _short_term(t):
    s = str(t)
    return s if len(s) < 600 else s[:600] + " ..."


def _model_dict(m, cx):
    out = {}
    for nm, sv in cx.inputs.items():
        out[nm] = model_value(m, sv)
    return out


# ------------------------------------------------------------------------------------------------
# native replay and CPython cross-check


def run_native(case, assignment, tol=1e-9):
    """Run the real function natively on the concrete assignment; returns (cx, outcome)."""
    cx = CaseCtx(None, mode="native", assignment=assignment, tol=tol)
    case.build(cx)
    f, args, kwargs = cx.target_call
    try:
        import warnings
        with warnings.catch_warnings(record=True):
            warnings.simplefilter("always")
            v = f(*args, **kwargs)
        outcome = Outcome("return", value=v)
    except Exception as e:
        outcome = Outcome("raise", exc=e)
    return cx, outcome


def _native_truth(g):
    if isinstance(g, z3.ExprRef):
        g = z3.simplify(g)
        if z3.is_true(g):
            return True
        if z3.is_false(g):
            return False
        s = z3.Solver()
        s.set("timeout", 5000)
        s.add(z3.Not(g))
        r = s.check()
        if r == z3.unsat:
            return True
        if r == z3.sat:
            return False
        return None
    return bool(g)


def requires_hold(cx):
    for c in cx.requires:
        t = _native_truth(c)
        if t is not True:
            return False
    return True


def replay_native(contract, case, model, post_name):
    if any(v is None for v in model.values()):
        return dict(reproduced=False, note="model value not representable natively", inputs=model)
    cx, outcome = run_native(case, model)
    rep = dict(inputs=model, native_outcome=repr(outcome)[:300])
    if not requires_hold(cx):
        rep.update(reproduced=False, note="model violates requires when evaluated natively (rounding)")
        return rep
    if post_name.startswith("no_raise"):
        if outcome.kind == "raise":
            ok = False
            for cls, when in cx.allowed_raises:
                if isinstance(outcome.exc, cls) and _native_truth(when) is True:
                    ok = True
            # the real run must fail the way the refuted path does: another exception type (typically the replay harness
            # itself handing a contract stub to real code) reproduces nothing
            same = type(outcome.exc).__name__ == post_name[len("no_raise["):-1]
            rep["reproduced"] = (not ok) and same
            rep["observed"] = _describe_exc(outcome.exc)
            if not same:
                rep["note"] = "the native run raised a different exception type than the refuted path"
        else:
            rep["reproduced"] = False
        return rep
    if cx.post_fn is None:
        rep["reproduced"] = False
        return rep
    try:
        posts = dict(cx.post_fn(outcome) or [])
    except Exception as e:
        rep.update(reproduced=False, note="post not evaluable natively: %r" % (e,))
        return rep
    if post_name not in posts:
        rep.update(reproduced=False, note="obligation is internal to the verified text (no native observable)")
        return rep
    t = _native_truth(posts[post_name])
    rep["reproduced"] = (t is False)
    rep["post_value"] = t
    return rep


def replay_model(contract, case, zmodel, post_name):
    """Replay a counter-model against the real code: the case is rebuilt with *real* objects whose field values,
    sequence elements and map contents are read from the verifier's model; the real function runs natively; the
    postcondition (a z3 formula over the inputs and the native results) is evaluated under the model."""
    cx = CaseCtx(None, mode="replay", zmodel=zmodel)
    rep = dict(mode="model")
    try:
        case.build(cx)
    except ReplayImpossible as e:
        rep.update(reproduced=False, note=str(e))
        return rep
    rep["inputs"] = {k: (v if isinstance(v, (int, float, str, bool)) else repr(v)) for k, v in cx.assignment.items()}
    for c in cx.requires:
        if zeval(c, zmodel, 1e-9) is False:
            rep.update(reproduced=False, note="model violates requires under native evaluation (rounding)")
            return rep
    f, args, kwargs = cx.target_call
    try:
        import warnings
        with warnings.catch_warnings(record=True):
            warnings.simplefilter("always")
            v = f(*args, **kwargs)
        outcome = Outcome("return", value=v)
    except Exception as e:
        outcome = Outcome("raise", exc=e)
        rep["traceback"] = traceback.format_exc()[-600:]
    rep["native_outcome"] = repr(outcome)[:300]
    if post_name.startswith("no_raise"):
        if outcome.kind == "raise":
            ok = False
            for cls, when in cx.allowed_raises:
                if isinstance(outcome.exc, cls) and zeval(when if not isinstance(when, bool) else z3.BoolVal(when), zmodel) is True:
                    ok = True
            # the real run must fail the way the refuted path does: another exception type (typically the replay harness
            # itself handing a contract stub to real code) reproduces nothing
            same = type(outcome.exc).__name__ == post_name[len("no_raise["):-1]
            rep["reproduced"] = (not ok) and same
            rep["observed"] = _describe_exc(outcome.exc)
            if not same:
                rep["note"] = "the native run raised a different exception type than the refuted path"
        else:
            rep["reproduced"] = False
        return rep
    if cx.post_fn is None:
        rep["reproduced"] = False
        return rep
    try:
        posts = dict(cx.post_fn(outcome) or [])
    except Exception as e:
        rep.update(reproduced=False, note="post not evaluable natively: %r" % (e,), traceback=traceback.format_exc()[-600:])
        return rep
    if post_name not in posts:
        rep.update(reproduced=False, note="obligation is internal to the verified text or path-specific (no native observable)")
        return rep
    g = posts[post_name]
    t = g if isinstance(g, bool) else zeval(g, zmodel, 1e-9)
    rep["reproduced"] = (t is False)
    rep["post_value"] = t
    return rep


def _sample_assignment(case, contract, rng, models, want_model=False):
    """Random concrete assignment satisfying requires (z3-guided)."""
    p0 = Path([], axioms=list(contract.axioms()) if contract.axioms else [])
    cx0 = CaseCtx(p0)
    cx0.interp = Interp(p0, models)
    case.build(cx0)
    s = z3.Solver()
    s.set("timeout", 3000)
    s.set("random_seed", rng.randrange(1 << 30))
    for c in p0.pc:
        s.add(c)
    s.push()
    for h in cx0.hints:
        s.add(h)
    if s.check() != z3.sat:
        s.pop()
    # diversify: soft random anchors
    anchors = []
    for nm, sv in cx0.inputs.items():
        if sv.k == "int":
            a = rng.choice([0, 1, 2, 3, 5, 10, 60, 3600, 7200, 86399, 86400, 86401, 100000, 172800]) + rng.randrange(-3, 4)
            anchors.append((sv.t >= a - rng.randrange(0, 5000), sv.t <= a + rng.randrange(0, 5000)))
        elif sv.k == "real":
            a = rng.choice([0.0, 1e-4, 0.01, 0.5, 1.0, 2.5, 10.0, 100.0, 1234.5]) * rng.choice([1, 1, 1, -1])
            w = abs(a) * rng.random() + rng.random()
            anchors.append((sv.t >= real_val(a - w), sv.t <= real_val(a + w)))
        elif sv.k == "bool":
            b = rng.random() < 0.5
            anchors.append((sv.t == b,))
    rng.shuffle(anchors)
    s.push()
    for a in anchors:
        for c in a:
            s.add(c)
    r = s.check()
    if r != z3.sat:
        s.pop()
        # drop anchors progressively
        for keep in (len(anchors) // 2, 0):
            s.push()
            for a in anchors[:keep]:
                for c in a:
                    s.add(c)
            r = s.check()
            if r == z3.sat:
                break
            s.pop()
    if r != z3.sat:
        return None
    m = s.model()
    if want_model:
        return m
    out = {nm: model_value(m, sv) for nm, sv in cx0.inputs.items()}
    if any(v is None for v in out.values()):
        return None
    return out


def crosscheck_model(contract, case, res, n=10, seed=0):
    """Run-time contract check on the real code: models of the precondition are turned into real objects, the real
    function runs natively and every postcondition is evaluated under the model (engine / contract self-check)."""
    rng = random.Random(seed * 104729 + _name_seed(case.name))
    models = contract.models() if contract.models else default_models()
    for _ in range(n):
        zm = _sample_assignment(case, contract, rng, models, want_model=True)
        if zm is None:
            continue
        res.crosscheck["samples"] += 1
        cx = CaseCtx(None, mode="replay", zmodel=zm)
        try:
            case.build(cx)
        except ReplayImpossible:
            continue
        if any(zeval(c, zm, 1e-9) is False for c in cx.requires):
            continue
        f, args, kwargs = cx.target_call
        try:
            import warnings
            with warnings.catch_warnings(record=True):
                warnings.simplefilter("always")
                v = f(*args, **kwargs)
            outcome = Outcome("return", value=v)
        except Exception as e:
            outcome = Outcome("raise", exc=e)
        if outcome.kind == "raise" and isinstance(outcome.exc, OverflowError):
            continue        # the sampled reals leave the range of machine floats (e.g. x ** 150): outside the stated float = real assumption
        if outcome.kind == "raise":
            ok = any(isinstance(outcome.exc, cls) and zeval(when if not isinstance(when, bool) else z3.BoolVal(when), zm) is not False
                     for cls, when in cx.allowed_raises)
            res.crosscheck["compared"] += 1
            if not ok:
                res.crosscheck["mismatches"].append(dict(inputs=_plain(cx.assignment), native=repr(outcome)[:200],
                                                         note="real code raised where every symbolic path returned or the contract forbids it: %s" % traceback.format_exception_only(type(outcome.exc), outcome.exc)[-1][:200]))
            if cx.post_fn is None:
                continue
        if cx.post_fn is None:
            continue
        try:
            posts = cx.post_fn(outcome) or []
        except Exception as e:
            res.crosscheck["mismatches"].append(dict(inputs=_plain(cx.assignment), note="post not evaluable natively: %r" % (e,)))
            continue
        res.crosscheck["compared"] += 1
        for nm, g in posts:
            t = g if isinstance(g, bool) else zeval(g, zm, 1e-7)
            if t is False:
                res.crosscheck["mismatches"].append(dict(inputs=_plain(cx.assignment), post=nm, native=repr(outcome)[:200],
                                                         note="postcondition proved symbolically is false on the real code"))


def refute_by_sampling(contract, case, res, n=12, seed=0):
    """For a case whose proof is undecided: sample models of the precondition, build real objects, run the real function natively and evaluate the
    postconditions; a false postcondition becomes a refuted obligation carrying the real failing input (its replay is the run itself)."""
    rng = random.Random(seed * 7907 + _name_seed(case.name))
    models = contract.models() if contract.models else default_models()
    seen = set()
    for _ in range(n):
        try:
            zm = _sample_assignment(case, contract, rng, models, want_model=True)
        except (Unsupported, PathEnd):
            return
        if zm is None:
            continue
        cx = CaseCtx(None, mode="replay", zmodel=zm)
        try:
            case.build(cx)
        except ReplayImpossible:
            continue
        if any(zeval(c, zm, 1e-9) is False for c in cx.requires):
            continue
        f, args, kwargs = cx.target_call
        try:
            import warnings
            with warnings.catch_warnings(record=True):
                warnings.simplefilter("always")
                v = f(*args, **kwargs)
            outcome = Outcome("return", value=v)
        except Exception as e:
            outcome = Outcome("raise", exc=e)
        if outcome.kind == "raise" and isinstance(outcome.exc, OverflowError):
            continue
        if outcome.kind == "raise" and isinstance(outcome.exc, AttributeError):
            continue        # the replay objects are built field by field (no __init__): a missing attribute says the builder is incomplete, not the code wrong
        failed = []
        if outcome.kind == "raise":
            ok = any(isinstance(outcome.exc, cls) and zeval(when if not isinstance(when, bool) else z3.BoolVal(when), zm) is not False
                     for cls, when in cx.allowed_raises)
            if not ok:
                failed.append(("no_raise[%s]" % type(outcome.exc).__name__, _describe_exc(outcome.exc)))
        if cx.post_fn is not None and not failed:
            try:
                posts = cx.post_fn(outcome) or []
            except Exception:
                posts = []
            for nm, g in posts:
                t = g if isinstance(g, bool) else zeval(g, zm, 1e-7)
                if t is False:
                    failed.append((nm, ""))
        for nm, where in failed:
            if nm in seen:
                continue
            seen.add(nm)
            res.obligations.append(dict(name="%s#%s#%s" % (case.target, case.name, nm), path=-1, where=where, kind="post", verdict="refuted",
                                        backend="sampling of the precondition on the real code (symbolic proof undecided)", seconds=0.0,
                                        model=_plain(cx.assignment), goal="postcondition %s evaluated on the native result" % nm,
                                        replay=dict(mode="model", reproduced=True, inputs=_plain(cx.assignment), native_outcome=repr(outcome)[:300],
                                                    note="found by running the real code on a sampled model of the precondition")))


def refute_by_sampling_native(contract, case, res, n=25, seed=0):
    """the same for cases that run natively on plain numbers (cases with crosscheck=True): sampled inputs satisfying requires, the real function, the posts"""
    rng = random.Random(seed * 7907 + _name_seed(case.name))
    models = contract.models() if contract.models else default_models()
    seen = set()
    for _ in range(n):
        try:
            asg = case.sample(rng) if case.sample else _sample_assignment(case, contract, rng, models)
        except (Unsupported, PathEnd):
            return
        if asg is None:
            continue
        try:
            cxn, out = run_native(case, asg)
        except Exception:
            continue
        if not requires_hold(cxn):
            continue
        if out.kind == "raise" and isinstance(out.exc, OverflowError):
            continue
        failed = []
        if out.kind == "raise":
            ok = any(isinstance(out.exc, cls) and _native_truth(when) is not False for cls, when in cxn.allowed_raises)
            if not ok:
                failed.append(("no_raise[%s]" % type(out.exc).__name__, _describe_exc(out.exc)))
        if cxn.post_fn is not None and not failed:
            try:
                posts = cxn.post_fn(out) or []
            except Exception:
                posts = []
            for nm, g in posts:
                if _native_truth(g) is False:
                    failed.append((nm, ""))
        for nm, where in failed:
            if nm in seen:
                continue
            seen.add(nm)
            res.obligations.append(dict(name="%s#%s#%s" % (case.target, case.name, nm), path=-1, where=where, kind="post", verdict="refuted",
                                        backend="sampling of the precondition on the real code (symbolic proof undecided)", seconds=0.0,
                                        model=dict(asg), goal="postcondition %s evaluated on the native result" % nm,
                                        replay=dict(reproduced=True, inputs=dict(asg), native_outcome=repr(out)[:300],
                                                    note="found by running the real code on a sampled input satisfying the precondition")))


def _plain(d):
    return {k: (v if isinstance(v, (int, float, str, bool)) and not isinstance(v, (NInt, NFloat, NStr)) else
                (int(v) if isinstance(v, NInt) else float(v) if isinstance(v, NFloat) else str(v))) for k, v in d.items()}


def _subst_value(v, subs):
    """Evaluate a symbolic value under a substitution of the inputs -> python value (or None)."""
    if isinstance(v, SV):
        t = z3.simplify(z3.substitute(v.t, *subs)) if subs else z3.simplify(v.t)
        if v.k == "bool":
            if z3.is_true(t):
                return True
            if z3.is_false(t):
                return False
            return None
        if v.k == "int":
            return t.as_long() if z3.is_int_value(t) else None
        if v.k == "real":
            if z3.is_rational_value(t):
                return float(Fraction(t.numerator_as_long(), t.denominator_as_long()))
            if z3.is_algebraic_value(t):
                a = t.approx(20)
                return float(Fraction(a.numerator_as_long(), a.denominator_as_long()))
            return None
        return str(t)
    if isinstance(v, (tuple, list)):
        return type(v)(_subst_value(x, subs) for x in v)
    return v


def _close(a, b, tol=1e-7):
    if isinstance(a, (tuple, list)) and isinstance(b, (tuple, list)):
        return len(a) == len(b) and all(_close(x, y, tol) for x, y in zip(a, b))
    if a is None or b is None:
        return a is b
    if isinstance(a, bool) or isinstance(b, bool) or type(a).__name__ == "bool_" or type(b).__name__ == "bool_":
        return bool(a) == bool(b)
    if isinstance(a, (int, float)) and isinstance(b, (int, float)) or hasattr(a, "dtype") or hasattr(b, "dtype"):
        try:
            return abs(float(a) - float(b)) <= tol * max(1.0, abs(float(a)), abs(float(b)))
        except Exception:
            return False
    return a == b


def _name_seed(name):
    import zlib
    return zlib.crc32(name.encode()) % 100000        # (hash() of a str changes from process to process)


def crosscheck(contract, case, paths, res, n=25, seed=0):
    """Engine self-check: native CPython result vs. the value of the matching symbolic path."""
    rng = random.Random(seed * 7919 + _name_seed(case.name))
    models = contract.models() if contract.models else default_models()
    tried = 0
    for _ in range(n):
        asg = case.sample(rng) if case.sample else _sample_assignment(case, contract, rng, models)
        if asg is None:
            continue
        tried += 1
        cxn, out_n = run_native(case, asg)
        if not requires_hold(cxn):
            continue
        # locate the symbolic path taken by this assignment
        match = None
        for (path, cx, interp, outcome) in paths:
            if outcome.kind not in ("return", "raise"):
                continue
            if path.fresh_n:
                continue
            subs = [(sv.t, _const_for(sv, asg[nm])) for nm, sv in cx.inputs.items() if nm in asg]
            ok = True
            for c in path.pc:
                v = z3.simplify(z3.substitute(c, *subs)) if subs else z3.simplify(c)
                if z3.is_false(v):
                    ok = False
                    break
                if not z3.is_true(v):
                    # undetermined (uninterpreted functions): decide with a solver
                    s = z3.Solver()
                    s.set("timeout", 2000)
                    s.add(z3.Not(v))
                    for ax in path.axioms:
                        s.add(ax)
                    if s.check() != z3.unsat:
                        ok = None
                        break
            if ok:
                match = (path, cx, outcome, subs)
                break
        res.crosscheck["samples"] += 1
        if match is None:
            # no single symbolic path is known to correspond to the run (loops cut by an invariant or callee contracts introduce fresh symbols): the postconditions that
            # evaluate to plain booleans on the native run are compared with the contract directly
            if out_n.kind == "return" and cxn.post_fn is not None:
                try:
                    posts_n = cxn.post_fn(out_n) or []
                except Exception:
                    continue
                plain = [(nm, g) for nm, g in posts_n if isinstance(g, bool) or type(g).__name__ == "bool_"]
                if plain:
                    res.crosscheck["compared"] += 1
                    for nm, g in plain:
                        if not g:
                            res.crosscheck["mismatches"].append(dict(inputs=asg, note="postcondition %s is false on the native run" % nm, native=repr(out_n.value)[:200]))
            continue
        path, cx, outcome, subs = match
        if outcome.kind == "raise" or out_n.kind == "raise":
            same = outcome.kind == out_n.kind and type(outcome.exc) is type(out_n.exc)
            res.crosscheck["compared"] += 1
            if not same:
                res.crosscheck["mismatches"].append(dict(inputs=asg, symbolic=repr(outcome)[:200], native=repr(out_n)[:200]))
            continue
        if case.native_compare is not None:
            verdict = case.native_compare(cx, outcome, cxn, out_n, subs)
            if verdict is None:
                continue
            res.crosscheck["compared"] += 1
            if not verdict:
                res.crosscheck["mismatches"].append(dict(inputs=asg, note="native_compare failed"))
            continue
        sv = _subst_value(outcome.value, subs)
        if sv is None or (isinstance(sv, (tuple, list)) and any(x is None for x in sv)):
            continue
        if is_symbolic(sv) or isinstance(sv, (SymObj, SymMap, SymSeq)):
            continue
        res.crosscheck["compared"] += 1
        if not _close(sv, out_n.value):
            res.crosscheck["mismatches"].append(dict(inputs=asg, symbolic=repr(sv)[:200], native=repr(out_n.value)[:200]))


def _const_for(sv, val):
    if sv.k == "int":
        return z3.IntVal(int(val))
    if sv.k == "real":
        return real_val(val)
    if sv.k == "bool":
        return z3.BoolVal(bool(val))
    return z3.Const(str(val), NameSort)
