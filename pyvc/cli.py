"""Command line: ./check <ID> --tier quick|thorough ; ./check replay <file>."""
import argparse
import json
import os
import sys
import time

ROOT = os.path.dirname(os.path.dirname(os.path.abspath(__file__)))
sys.path.insert(0, ROOT)

GLOBAL_ASSUMPTIONS = [
    "python float is treated as a mathematical real (no rounding, overflow, NaN, inf); np.isnan(x)=False, round(x,>=6)=x",
    "python int is a mathematical integer; // and % are floor division/modulo; int() truncates toward zero",
    "x**y for non-literal-integer y is the uninterpreted pow_/sqrt_ theory with the axiom list in pyvc/library.py",
    "symbolic objects passed to a function are pairwise non-aliased unless the contract builds them aliased",
    "iteration over dict/OrderedSet yields each key exactly once; list.sort is a stable sort",
    "no concurrency, no signals",
    "pyvc (the VC generator in /verif/pyvc) is itself unverified; guarded by CPython cross-check, canaries, cvc5 re-discharge (thorough) and seeded-change drills",
]
DROPPED = ["docstrings", "logger.* calls and logger-only if-blocks", "type annotations", "decorators other than property/classmethod/staticmethod (DocInheritor)"]


def write_replay(pid, entry, tag):
    from pyvc.runner import sanitize
    d = os.path.join(ROOT, "replays", pid)
    os.makedirs(d, exist_ok=True)
    fn = os.path.join(d, sanitize(entry["name"] + "_p%s" % entry.get("path", "")) + ".json")
    payload = dict(property=pid, obligation=entry["name"], verifier_output=entry, tag=tag,
                   how_to_replay="./check replay %s" % fn)
    with open(fn, "w") as fh:
        json.dump(payload, fh, indent=1, default=repr)
    return fn


def cmd_replay(path):
    from pyvc import core, runner
    import importlib
    with open(path) as fh:
        rep = json.load(fh)
    entry = rep["verifier_output"]
    if entry.get("bounded"):
        print(json.dumps(entry, indent=1))
        print("bounded failure: re-run the check to re-execute the stated case")
        return 0
    name = entry["name"]
    if name.startswith("lemma:"):
        print("lemma obligation; verifier output:\n" + json.dumps(entry, indent=1))
        return 0
    target, case_name, post = name.split("#", 2)
    for mod in runner.load_modules():
        for c in getattr(mod, "CONTRACTS", []):
            for k in c.cases:
                if k.target == target and k.name == case_name:
                    if k.replay == "model" or str(entry.get("backend", "")).startswith("sampling"):
                        # the counter-model lives in the solver (function interpretations, sequence contents): the case is run again on the current tree
                        # and the same obligation, if refuted again, is replayed on real objects built from the new counter-model
                        res = core.run_case(c, k, tier="quick", known=[], seed=int(os.environ.get("VERIF_SEED", "0") or 0))
                        again = [o for o in res.obligations if o["name"] == name and o.get("verdict") == "refuted"]
                        if not again:
                            print(json.dumps(dict(reproduced=False, note="the obligation is not refuted on the current tree"), indent=1))
                            return 0
                        r = again[0].get("replay") or dict(reproduced=False)
                        print(json.dumps(dict(obligation=name, backend=again[0].get("backend"), model=again[0].get("model"), replay=r), indent=1, default=repr))
                        return 1 if r.get("reproduced") else 0
                    r = core.replay_native(c, k, entry.get("model") or {}, post)
                    print(json.dumps(r, indent=1, default=repr))
                    return 1 if r.get("reproduced") else 0
    print("case not found: " + name)
    return 3


def main():
    if len(sys.argv) > 1 and sys.argv[1] == "replay":
        sys.exit(cmd_replay(sys.argv[2]))
    ap = argparse.ArgumentParser()
    ap.add_argument("pid")
    ap.add_argument("--tier", default=os.environ.get("VERIF_TIER", "quick"))
    ap.add_argument("--only", default=None)
    ap.add_argument("--jobs", type=int, default=None)
    ap.add_argument("--no-evidence", action="store_true")
    a = ap.parse_args()
    tier = a.tier if a.tier in ("quick", "thorough") else "quick"
    try:
        seed = int(os.environ.get("VERIF_SEED", "0") or 0)
    except ValueError:
        seed = 0
    from pyvc import runner
    import props
    meta = props.PROPS.get(a.pid) or dict(level="proof", explanation="development run of an unclaimed property", _unclaimed=True)
    if meta.get("_unclaimed"):
        a.no_evidence = True
    t0 = time.time()
    try:
        s = runner.run_property(a.pid, tier=tier, seed=seed, jobs=a.jobs, only=a.only)
    except Exception:
        import traceback
        traceback.print_exc()
        print("CHECKER-ERROR property=%s" % a.pid)
        sys.exit(3)
    wall = time.time() - t0
    for line in s["known_lines"]:
        print(line)
    code = 0
    nviol = 0
    for v in s["violations"]:
        nviol += 1
        rep = v.get("replay") or {}
        reproduced = v.get("reproduced", rep.get("reproduced", False))
        fn = write_replay(a.pid, v, "reproduced" if reproduced else "no-failing-input-found")
        print("VIOLATION property=%s replay=%s%s" % (a.pid, fn, "" if reproduced else " no-failing-input-found"))
        print("  obligation: %s" % v["name"])
        if v.get("model"):
            print("  counterexample: %s" % json.dumps(v["model"])[:400])
        if rep:
            print("  native replay: %s" % json.dumps(rep, default=repr)[:400])
        code = 1
    if s["errors"]:
        for e in s["errors"]:
            print("CHECKER-ERROR property=%s %s" % (a.pid, e))
        if code == 0:
            code = 3
    if s["covers_bad"]:
        for e in s["covers_bad"]:
            print("CHECKER-ERROR property=%s vacuous/undetermined precondition: %s" % (a.pid, e))
        if code == 0:
            code = 3
    if s["undecided"]:
        for u in s["undecided"]:
            print("UNDECIDED property=%s obligation=%s reason=%s" % (a.pid, u["name"], u["reason"][:300]))
        if code == 0:
            code = 2
    if s["obligations"] == 0 and not s["bounded"]:
        print("CHECKER-ERROR property=%s zero obligations generated" % a.pid)
        code = code or 3
    level = meta["level"]
    cov = dict(
        obligations=s["obligations"], discharged=s["discharged"],
        checker_cmd="./check %s --tier %s" % (a.pid, tier),
        trusted_base=sorted(set(meta.get("trusted_base", [])) | set(s["trusted"])),
        explanation=meta["explanation"],
        by_backend=s["by_backend"], solver_seconds=round(s["solver_s"], 3), paths=s["paths"], cases=s["n_cases"],
        lemmas=s["lemmas"],
        functions_under_contract=sorted(s["functions"].values(), key=lambda d: d["qualname"]),
        preconditions={k: v for k, v in sorted(s.get("preconditions", {}).items()) if v},
        crosscheck=s["cross"], bounded=s["bounded"], samples=s["samples"] or [dict(note="no discharged deductive obligation on this run")],
        known_findings_reported=s["known_lines"], not_decided=meta.get("not_decided", []),
        dropped_by_extraction=DROPPED + s["dropped"], undecided=s["undecided"][:20],
        evaluations=sum(b["evaluations"] for b in s["bounded"]) + s["cross"]["compared"],
        distinct_nontrivial=sum(b["distinct_nontrivial"] for b in s["bounded"]),
        rule=meta.get("rule", "bounded stand-ins: see coverage.bounded[].scope; evaluations also counts CPython cross-check comparisons"),
        exhaustive=bool(s["bounded"]) and all(b["exhaustive"] for b in s["bounded"]),
    )
    ev = dict(property_id=a.pid, tier=tier, seed=seed, level=level, coverage=cov,
              assumptions=GLOBAL_ASSUMPTIONS + meta.get("assumptions", []), wall_s=round(wall, 2), violations=nviol)
    if not a.no_evidence and a.only is None:
        os.makedirs(os.path.join(ROOT, "evidence"), exist_ok=True)
        with open(os.path.join(ROOT, "evidence", a.pid + ".json"), "w") as fh:
            json.dump(ev, fh, indent=1, default=repr)
    print("property=%s tier=%s obligations=%d discharged=%d paths=%d cases=%d lemmas=%d bounded=%d cross=%d/%d solver=%.1fs wall=%.1fs exit=%d" % (
        a.pid, tier, s["obligations"], s["discharged"], s["paths"], s["n_cases"], len(s["lemmas"]), len(s["bounded"]),
        s["cross"]["compared"], s["cross"]["samples"], s["solver_s"], wall, code))
    sys.exit(code)


if __name__ == "__main__":
    main()
