"""Mechanical extraction of a statement block of a real function as a function of its free variables.

Used where a function as a whole is out of reach (binary file parsing, pandas assembly) but one block of it carries
the property: the block's text is cut out of the *current* source on every run (inspect + ast line ranges, no
editing), wrapped in a `def` whose parameters are the enclosing function's locals the block reads, compiled with the
enclosing module's globals, and handed to the symbolic executor like any other function.  What is dropped is
everything of the enclosing function outside the block; the contract that uses it has to say so.
"""
import ast
import inspect
import linecache
import textwrap


def extract_block(fn, pick, label):
    """pick(funcdef_ast) -> the single statement (e.g. an ast.If) to extract.  Returns (function, info)."""
    from .interp import _dedent_to_first_line
    src = _dedent_to_first_line(inspect.getsource(fn))
    tree = ast.parse(src)
    fdef = tree.body[0]
    stmt = pick(fdef)
    if stmt is None:
        raise LookupError("block %r not found in %s" % (label, fn.__qualname__))
    lines = src.split("\n")[stmt.lineno - 1:stmt.end_lineno]
    body = _dedent_to_first_line("\n".join(lines))
    local_names = set(fn.__code__.co_varnames)
    # parameters: the enclosing function's locals whose first use in the block is a read (a local first assigned in the
    # block is the block's own); within one line reads happen before the store
    occ = sorted((n.lineno, 0 if isinstance(n.ctx, ast.Load) else 1, n.col_offset, n.id, isinstance(n.ctx, ast.Load))
                 for n in ast.walk(stmt) if isinstance(n, ast.Name) and n.id in local_names)
    params, seen = [], set()
    for _, _, _, nm, is_load in occ:
        if nm not in seen:
            seen.add(nm)
            if is_load:
                params.append(nm)
    if "self" in params:
        params.remove("self")
        params.insert(0, "self")
    name = "%s__%s" % (fn.__name__, label)
    text = "def %s(%s):\n%s\n" % (name, ", ".join(params), textwrap.indent(body, "    "))
    first = fn.__code__.co_firstlineno + stmt.lineno - 1
    last = fn.__code__.co_firstlineno + stmt.end_lineno - 1
    filename = "<extracted:%s:%s:lines %d-%d>" % (fn.__module__, fn.__qualname__, first, last)
    linecache.cache[filename] = (len(text), None, text.splitlines(True), filename)
    loc = {}
    exec(compile(text, filename, "exec"), fn.__globals__, loc)
    f = loc[name]
    f.__module__ = fn.__module__
    f.__qualname__ = "%s[%s]" % (fn.__qualname__, label)
    info = dict(enclosing="%s:%s" % (fn.__module__, fn.__qualname__), file=inspect.getsourcefile(fn), first_line=first, last_line=last,
                parameters=params, dropped="everything of %s outside lines %d-%d" % (fn.__qualname__, first, last))
    return f, info
