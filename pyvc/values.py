"""Symbolic value universe of pyvc.

A value seen by the interpreter is either an ordinary Python object (concrete) or one of:

  SV       a z3 term of kind int / real / bool / name (opaque identifier)
  SymObj   an instance of a *real* class of /repo whose fields may hold symbolic values; method
           and property resolution go through the real class' MRO
  SymMap   a dict / registry with symbolic keys: domain predicate + content function + overlay
  SymSeq   a sequence of symbolic length (len : Int, elem : Int -> value)

Python `float` is encoded as a mathematical real (stated assumption), `int` as a mathematical
integer (true in CPython).
"""
import z3
from fractions import Fraction

NameSort = z3.DeclareSort("Name")


class Unsupported(Exception):
    """The code left the subset pyvc can encode -> verdict `unsupported`, never a violation."""


class SV:
    __slots__ = ("t", "k")

    def __init__(self, t, k):
        self.t = t
        self.k = k  # 'int' | 'real' | 'bool' | 'name'

    def __repr__(self):
        return "SV<%s:%s>" % (self.k, self.t)

    # guard against accidental native use
    def __bool__(self):
        raise Unsupported("native truth test of symbolic value %r" % (self,))

    def __hash__(self):
        return hash((self.k, self.t.get_id()))

    def __eq__(self, other):  # identity-ish, only for python-side container ops
        return isinstance(other, SV) and self.k == other.k and self.t.eq(other.t)


def real_val(x):
    """Exact rational for a Python float's shortest decimal repr (float == R assumption)."""
    if isinstance(x, bool):
        return z3.RealVal(1 if x else 0)
    if isinstance(x, int):
        return z3.RealVal(x)
    if isinstance(x, Fraction):
        return z3.RealVal(str(x))
    f = float(x)
    if f != f or f in (float("inf"), float("-inf")):
        raise Unsupported("non-finite float constant")
    fr = Fraction(repr(f))
    return z3.RealVal(str(fr))


def mk_int(name):
    return SV(z3.Int(name), "int")


def mk_real(name):
    return SV(z3.Real(name), "real")


def mk_bool(name):
    return SV(z3.Bool(name), "bool")


def mk_name(name):
    return SV(z3.Const(name, NameSort), "name")


def is_num(v):
    return isinstance(v, (int, float)) and not isinstance(v, bool) or isinstance(v, bool)


def as_real(v):
    """z3 Real term for a python number or SV."""
    if isinstance(v, Leaf):
        v = v.value
    if isinstance(v, SV):
        if v.k == "real":
            return v.t
        if v.k == "int":
            return z3.ToReal(v.t)
        if v.k == "bool":
            return z3.If(v.t, z3.RealVal(1), z3.RealVal(0))
        raise Unsupported("name used as number")
    try:
        import numpy as _np
        if isinstance(v, _np.generic):
            v = v.item()
    except Exception:
        pass
    if isinstance(v, (bool, int, float, Fraction)):
        return real_val(v)
    raise Unsupported("cannot view %r as real" % (type(v),))


def as_int(v):
    if isinstance(v, Leaf):
        v = v.value
    if isinstance(v, SV):
        if v.k == "int":
            return v.t
        if v.k == "bool":
            return z3.If(v.t, z3.IntVal(1), z3.IntVal(0))
        raise Unsupported("real used where int required")
    if isinstance(v, bool):
        return z3.IntVal(1 if v else 0)
    if isinstance(v, int):
        return z3.IntVal(v)
    try:
        import numpy as _np
        if isinstance(v, _np.integer):
            return z3.IntVal(int(v))
    except Exception:
        pass
    raise Unsupported("cannot view %r as int" % (v,))


def kind_of(v):
    if isinstance(v, Leaf):
        v = v.value
    if isinstance(v, SV):
        return v.k
    if isinstance(v, bool):
        return "bool"
    if isinstance(v, int):
        return "int"
    if isinstance(v, float):
        return "real"
    try:
        import numpy as _np
        if isinstance(v, _np.floating):
            return "real"
        if isinstance(v, _np.integer):
            return "int"
        if isinstance(v, _np.bool_):
            return "bool"
    except Exception:
        pass
    return None


def truth(v):
    """z3 Bool (or python bool) for the truthiness of v."""
    if isinstance(v, SV):
        if v.k == "bool":
            return v.t
        if v.k == "int":
            return v.t != 0
        if v.k == "real":
            return v.t != 0
        return v.t != name_const("")   # a name is a python str: falsy iff empty
    if isinstance(v, (SymObj,)):
        return True
    if isinstance(v, SymSeq):
        return v.length.t > 0 if isinstance(v.length, SV) else v.length > 0
    if isinstance(v, SymMap):
        if any(w is not SymMap.DELETED for k, w in v.overlay):
            return True
        # an arbitrary map is empty or not; membership facts about it are related to this flag where they are derived (Interp.map_dom)
        return z3.Bool("nonempty!%s!%d" % (v.label, v.uid))
    return bool(v)


class NativeModel:
    """Objects of model helper classes: their methods run natively even with symbolic arguments and
    symbolic values may be stored in their attributes."""


class GenericIter(list):
    """A concrete list whose elements stand for *arbitrary* members of a collection (independent-iteration rule):
    before each element the interpreter havocs every local the loop body assigns, i.e. the iteration is verified
    after arbitrarily many other iterations; loop-carried state that reaches the postcondition fails the proof."""


class Poison:
    """value of a non-scalar local carried into a generic iteration: reading it is a loop-carried dependency."""

    def __init__(self, name):
        self.name = name


class SymStr(NativeModel):
    """A python str built from symbolic parts (messages, derived names, formatted lines): opaque, equal only to itself.

    Token model for formatted lines (C12): a string produced by `fmt.format(*args, **kwargs)` keeps its format
    string and arguments; `.split()` yields its whitespace-separated tokens, where a symbolic field contributes
    exactly one token - the field's value itself (assumption: float(format(v)) == v, names contain no blanks) -
    and a concrete field contributes the tokens of its text; `.split(';')` cuts at the first ';' token;
    `.encode()` is the identity.
    """

    def __init__(self, parts, fmt=None, args=(), kwargs=None, tokens=None):
        self.parts = tuple(parts)
        self.fmt, self.args, self.kwargs = fmt, tuple(args), dict(kwargs or {})
        self._tokens = tokens

    def __repr__(self):
        return "SymStr%r" % (self.parts,)

    def __add__(self, other):
        return SymStr(self.parts + (other,))

    def __radd__(self, other):
        return SymStr((other,) + self.parts)

    def format(self, *a, **k):
        return SymStr(self.parts + a + tuple(k.values()))

    def encode(self, *a, **k):
        return self

    def tokens(self):
        if self._tokens is not None:
            return list(self._tokens)
        if self.fmt is None:
            # a concatenation: text parts contribute their blank-separated words, a symbolic part one token; the only glueing modelled is a text part
            # ending in ';' directly before a symbolic part (' ;' + category): ';' becomes a token of its own, which is what split(';') cuts at
            out = []
            for i, p_ in enumerate(self.parts):
                if isinstance(p_, str):
                    if p_ and not p_[-1].isspace() and not p_.endswith(";") and i + 1 < len(self.parts):
                        raise Unsupported("tokens of a concatenation that glues text to a symbolic part")
                    if p_ and not p_[0].isspace() and i > 0:
                        raise Unsupported("tokens of a concatenation that glues a symbolic part to text")
                    out.extend(_split_keep_semicolon(p_))
                elif isinstance(p_, SV):
                    out.append(p_)
                elif isinstance(p_, SymStr):
                    out.extend(p_.tokens())
                else:
                    raise Unsupported("tokens of an unstructured symbolic string")
            return out
        import string
        out = []
        auto = 0
        for lit, field, spec, conv in string.Formatter().parse(self.fmt):
            out.extend(_split_keep_semicolon(lit))
            if field is None:
                continue
            if field == "":
                v = self.args[auto]
                auto += 1
            elif field.isdigit():
                v = self.args[int(field)]
            else:
                v = self.kwargs[field]
            if isinstance(v, SV):
                out.append(v)
            elif isinstance(v, SymStr):
                out.extend(v.tokens())
            else:
                out.extend(_split_keep_semicolon(format(v, spec or "")))
        return out

    def split(self, sep=None, maxsplit=-1):
        toks = self.tokens()
        if sep is None:
            return toks
        if sep == ";":
            for i, t in enumerate(toks):
                if isinstance(t, str) and t.startswith(";"):
                    rest = [t[1:]] if len(t) > 1 else []
                    return [SymStr((), tokens=toks[:i]), SymStr((), tokens=rest + toks[i + 1:])]
                if isinstance(t, str) and ";" in t:
                    a, b = t.split(";", 1)
                    return [SymStr((), tokens=toks[:i] + [a]), SymStr((), tokens=([b] if b else []) + toks[i + 1:])]
            return [SymStr((), tokens=toks)]
        raise Unsupported("split of a symbolic string on %r" % (sep,))

    def strip(self, *a):
        return self

    # a string with at least one token is not the empty string; everything else stays "equal only to itself"
    def _nonempty(self):
        try:
            return len(self.tokens()) > 0
        except Unsupported:
            return False

    def __eq__(self, other):
        if other is self:
            return True
        if isinstance(other, str) and other == "" and self._nonempty():
            return False
        return NotImplemented

    def __ne__(self, other):
        if other is self:
            return False
        if isinstance(other, str) and other == "" and self._nonempty():
            return True
        return NotImplemented

    __hash__ = object.__hash__


def _split_keep_semicolon(text):
    return text.split()


class Leaf(NativeModel):
    """aml Param/Var box: mutable .value; arithmetic on a Leaf uses its current value."""

    def __init__(self, value):
        self.value = value

    def __repr__(self):
        return "Leaf<%r>" % (self.value,)


class SymObj:
    """Symbolic instance of the real class `cls`; fields hold python or symbolic values."""

    def __init__(self, cls, fields=None, label=None):
        object.__setattr__(self, "cls", cls)
        object.__setattr__(self, "fields", dict(fields or {}))
        object.__setattr__(self, "label", label or cls.__name__)

    def __repr__(self):
        return "<SymObj %s %s>" % (self.cls.__name__, self.label)


class SymSeq:
    """Sequence of symbolic length. elem(i) gives the i-th element for a z3 Int term / python int."""

    def __init__(self, length, elem, label="seq", facts=None):
        self.length = length  # SV int or python int
        self.elem = elem
        self.label = label
        self.facts = facts  # callable(i_term) -> list[z3 Bool] assumed about element i

    def len_term(self):
        return as_int(self.length)


class SymMap:
    """Map with symbolic keys.

    dom(k)   -> z3 Bool: k is a key of the base map
    get(k)   -> value of the base map at k (any pyvc value)
    overlay  : list of (key, value | DELETED) writes, newest last, applied on top of the base
    """
    DELETED = object()

    _n = 0

    def __init__(self, dom, get, label="map", keykind="name"):
        self.dom = dom
        self.get = get
        self.overlay = []
        self.label = label
        self.keykind = keykind
        SymMap._n += 1
        self.uid = SymMap._n

    def __repr__(self):
        return "<SymMap %s>" % self.label


def key_eq(a, b):
    """z3 Bool / python bool for equality of two keys."""
    if isinstance(a, tuple) and isinstance(b, tuple):
        if len(a) != len(b):
            return False
        acc = []
        for x, y in zip(a, b):
            e = key_eq(x, y)
            if isinstance(e, bool):
                if not e:
                    return False
            else:
                acc.append(e)
        if not acc:
            return True
        return z3.And(*acc) if len(acc) > 1 else acc[0]
    if isinstance(a, SV) or isinstance(b, SV):
        if isinstance(a, SV) and isinstance(b, SV):
            if a.k == "name" and b.k == "name":
                return a.t == b.t
            if a.k in ("int", "real", "bool") and b.k in ("int", "real", "bool"):
                if a.k == "int" and b.k == "int":
                    return a.t == b.t
                return as_real(a) == as_real(b)
            return False
        sv, other = (a, b) if isinstance(a, SV) else (b, a)
        if sv.k == "name":
            if isinstance(other, str):
                return sv.t == name_const(other)
            return False
        if kind_of(other) in ("int", "real", "bool"):
            if sv.k == "int" and kind_of(other) == "int":
                return sv.t == as_int(other)
            return as_real(sv) == as_real(other)
        return False
    return a == b


_name_consts = {}


def name_const(s):
    """Distinct z3 constant for a concrete string used as a Name (distinctness asserted by engine)."""
    c = _name_consts.get(s)
    if c is None:
        c = z3.Const("str!" + s, NameSort)
        _name_consts[s] = c
    return c


def name_distinct_axioms():
    cs = list(_name_consts.values())
    if len(cs) > 1:
        return [z3.Distinct(*cs)]
    return []


def is_symbolic(v, depth=3):
    if isinstance(v, (SV, SymObj, SymMap, SymSeq, NativeModel)):
        return True
    if depth <= 0:
        return False
    if isinstance(v, (list, tuple, set, frozenset)):
        return any(is_symbolic(x, depth - 1) for x in v)
    if isinstance(v, dict):
        return any(is_symbolic(x, depth - 1) for x in v.values()) or any(
            is_symbolic(x, depth - 1) for x in v.keys())
    return False
