"""Loop rules: inductive-invariant cut for `for x in <SymSeq>` and `while` loops."""
import ast

import z3

from .values import SV, SymSeq, SymMap, SymObj, Leaf, kind_of, as_int, Unsupported
from .interp import PathEnd, _Break, _Continue


def assigned_names(stmts):
    out = []

    def tgt(t):
        if isinstance(t, ast.Name):
            if t.id not in out:
                out.append(t.id)
        elif isinstance(t, (ast.Tuple, ast.List)):
            for e in t.elts:
                tgt(e)
    for s in stmts:
        for n in ast.walk(s):
            if isinstance(n, ast.Assign):
                for t in n.targets:
                    tgt(t)
            elif isinstance(n, (ast.AugAssign, ast.AnnAssign)):
                tgt(n.target)
            elif isinstance(n, ast.For):
                tgt(n.target)
    return out


def _havoc(path, env, names):
    for nm in names:
        if nm in env.locals:
            v = env.locals[nm]
            if isinstance(v, Leaf):
                v = v.value
            k = kind_of(v)
            if hasattr(v, "havoc"):
                env.locals[nm] = v.havoc(path)
            elif k in ("int", "real", "bool"):
                env.locals[nm] = path.fresh(nm, k)
            elif isinstance(v, SV) and v.k == "name":
                env.locals[nm] = path.fresh(nm, "name")
            else:
                raise Unsupported("loop rule: cannot havoc local %r of type %s" % (nm, type(v).__name__))


def for_seq_invariant(inv, havoc=None, kinds=None, defs=None, declare=None, allow_break=False):
    """inv(locals: dict, k: z3 Int, seq: SymSeq) -> list[(name, z3 Bool)].

    declare(path) -> dict of locals that may be unbound before the loop but are bound in every later iteration that
    reads them (the invariant must justify reading them). allow_break: a `break` leaves the loop with the state
    at the break (a genuine exit from an arbitrary iteration); at normal exhaustion the loop variable holds the
    last element.
    """

    def spec(interp, s, env, it):
        path = interp.path
        ordinal = env.loop_ordinal
        if not isinstance(it, SymSeq):
            raise Unsupported("loop rule expects a symbolic sequence, got %s" % type(it).__name__)
        n = it.len_term()
        if defs is not None:
            for ax in defs(env.locals, z3.IntVal(0), it):
                path.assume(ax)
        for nm, g in inv(env.locals, z3.IntVal(0), it):
            path.oblige("loop%d_inv_entry:%s" % (ordinal, nm), g, where="line %d" % s.lineno, kind="inv")
        names = havoc if havoc is not None else [x for x in assigned_names(s.body)]
        tnames = assigned_names([ast.Assign(targets=[s.target], value=ast.Constant(0))])
        _havoc(path, env, [x for x in names if x not in tnames])
        if declare is not None:
            for nm, v in declare(path).items():
                env.locals[nm] = v
        k = path.fresh("k", "int")
        path.assume(z3.And(k.t >= 0, k.t <= n))
        for nm, g in inv(env.locals, k.t, it):
            path.assume(g)
        if defs is not None:
            for ax in defs(env.locals, k.t, it):  # definitional axioms of spec functions, instantiated at k
                path.assume(ax)
        if path.branch(k.t < n):
            x = it.elem(k.t)
            if it.facts is not None:
                for f in it.facts(k.t):
                    path.assume(f)
            interp.assign(s.target, x, env)
            try:
                interp.exec_block(s.body, env)
            except _Continue:
                pass
            except _Break:
                if not allow_break:
                    raise Unsupported("break inside a loop under the invariant rule")
                return None      # leaves the loop from iteration k with the current state
            for nm, g in inv(env.locals, k.t + 1, it):
                path.oblige("loop%d_inv_preserved:%s" % (ordinal, nm), g, where="line %d" % s.lineno, kind="inv")
            raise PathEnd("loop body verified (cut)")
        # exit: k == n and the invariant holds; the loop variable keeps the last element (if any)
        if path.branch(n > 0):
            interp.assign(s.target, it.elem(n - 1), env)
        return None
    return _guard(spec)


def _guard(spec):
    """a loop specification that refers to locals / fields the code no longer has (a harmless rename) is 'unsupported' - the check
    becomes undecided (exit 2) -, never a checker crash and never a violation"""
    def guarded(interp, s, env, *rest):
        try:
            return spec(interp, s, env, *rest)
        except (KeyError, AttributeError, IndexError) as e:
            raise Unsupported("the loop specification no longer matches the code at line %d: %s(%s)" % (s.lineno, type(e).__name__, e))
    return guarded


def while_invariant(inv, variant=None, havoc=None):
    """inv(interp, env) -> list[(name, z3 Bool)] evaluated on the current state; variant(interp, env) -> z3 Int."""

    def spec(interp, s, env):
        path = interp.path
        ordinal = env.loop_ordinal
        for nm, g in inv(interp, env):
            path.oblige("loop%d_inv_entry:%s" % (ordinal, nm), g, where="line %d" % s.lineno, kind="inv")
        names = havoc(interp, env) if callable(havoc) else (havoc if havoc is not None else assigned_names(s.body))
        if callable(names):
            names = names(interp, env)
        _havoc(path, env, [n for n in names if isinstance(n, str)])
        for h in [n for n in names if not isinstance(n, str)]:
            h(interp, env)  # custom heap havoc
        for nm, g in inv(interp, env):
            path.assume(g)
        c = interp.eval(s.test, env)
        if path.branch(interp.truth(c)):
            v0 = variant(interp, env) if variant else None
            try:
                interp.exec_block(s.body, env)
            except _Continue:
                pass
            except _Break:
                return None  # leaves the loop with the current state (post must hold from here)
            for nm, g in inv(interp, env):
                path.oblige("loop%d_inv_preserved:%s" % (ordinal, nm), g, where="line %d" % s.lineno, kind="inv")
            if variant:
                v1 = variant(interp, env)
                if isinstance(v0, tuple):
                    # lexicographic, each component bounded below by 0 and decreasing by at least 1
                    goal = z3.BoolVal(False)
                    eq = z3.BoolVal(True)
                    for a0, a1 in zip(v0, v1):
                        goal = z3.Or(goal, z3.And(eq, a0 >= 0, a1 <= a0 - 1))
                        eq = z3.And(eq, a1 == a0)
                    path.oblige("loop%d_variant_decreases" % ordinal, goal, kind="inv")
                else:
                    path.oblige("loop%d_variant_decreases" % ordinal, z3.And(v0 >= 0, v1 < v0), kind="inv")
            raise PathEnd("loop body verified (cut)")
        interp.exec_block(s.orelse, env)
        return None
    return _guard(spec)
