"""Denotational embedding of wntr.sim.aml (DESIGN 2.5): the assumed contract of the aml layer.

An aml expression denotes a z3 real term; Param/Var leaves are boxes with a mutable `.value`;
ConditionalExpression is a first-match ite chain; Constraint(e) records [[e]]; ConstraintDict /
ParamDict are maps. C15 discharges the Python half of this assumption and bounds the C++ half.
"""
import z3

from .values import SV, SymMap, SymObj, Unsupported, as_real, truth, real_val, NativeModel, Leaf, kind_of
from .interp import PyRaise
from . import library

from wntr.sim import aml as _aml
from wntr.sim.aml import expr as _expr, aml as _amlmod


class Con(NativeModel):
    """Denotation of aml.Constraint(expr): the residual term."""

    def __init__(self, term, branches=None):
        self.term = term  # SV real
        self.branches = branches  # [(cond, expr term)] + [(None, final)] for conditional rows

    def __repr__(self):
        return "Con<%s>" % (self.term,)


class CondExpr(NativeModel):
    def __init__(self, interp):
        self.conds = []
        self.exprs = []
        self.final = None
        self.interp = interp

    def add_condition(self, cond, expr):
        t = truth(cond)
        self.conds.append(t if not isinstance(t, bool) else z3.BoolVal(t))
        self.exprs.append(as_real(_unleaf(expr)))

    def add_final_expr(self, expr):
        self.final = as_real(_unleaf(expr))

    def denote(self):
        if self.final is None:
            raise Unsupported("ConditionalExpression without final expression")
        t = self.final
        for c, e in reversed(list(zip(self.conds, self.exprs))):
            t = z3.If(c, e, t)
        return t


def _unleaf(v):
    return v.value if isinstance(v, Leaf) else v


def m_param(interp, args, kw):
    v = args[0] if args else kw.get("val", kw.get("value", 0))
    return Leaf(v)


def m_constraint(interp, args, kw):
    e = args[0] if args else kw["expr"]
    e = _unleaf(e)
    if isinstance(e, CondExpr):
        return Con(SV(e.denote(), "real"), branches=list(zip(e.conds, e.exprs)) + [(None, e.final)])
    return Con(SV(as_real(e), "real"))


def m_condexpr(interp, args, kw):
    return CondExpr(interp)


def m_inequality(interp, args, kw):
    body = args[0] if args else kw["body"]
    lb = kw.get("lb", args[1] if len(args) > 1 else None)
    ub = kw.get("ub", args[2] if len(args) > 2 else None)
    b = as_real(_unleaf(body))
    cs = []
    if lb is not None:
        cs.append(as_real(_unleaf(lb)) <= b)
    if ub is not None:
        cs.append(b <= as_real(_unleaf(ub)))
    if not cs:
        return True
    return SV(z3.And(*cs) if len(cs) > 1 else cs[0], "bool")


def m_abs(interp, args, kw):
    t = as_real(_unleaf(args[0]))
    return SV(z3.If(t >= 0, t, -t), "real")


def m_sign(interp, args, kw):
    t = as_real(_unleaf(args[0]))
    return SV(z3.If(t >= 0, z3.RealVal(1), z3.RealVal(-1)), "real")


def m_dict(interp, args, kw):
    """aml.ParamDict() / VarDict() / ConstraintDict(): empty map."""
    return SymMap(lambda k: False, lambda k: None, label="amldict")


def m_value(interp, args, kw):
    return _unleaf(args[0])


def aml_pow(interp, a, b):
    """Total power for aml expressions (built symbolically, evaluated only in the selected branch):
    no domain-error paths; pow_/sqrt_ axioms guarded by their domain conditions."""
    a, b = _unleaf(a), _unleaf(b)
    x, y = as_real(a), as_real(b)
    if not isinstance(b, SV) and float(b) == 0.5:
        s = library.SQRT(x)
        interp.path.assume(z3.Implies(x >= 0, z3.And(s >= 0, s * s == x)))
        return SV(s, "real")
    p = library.POW(x, y)
    for ax in (z3.Implies(x > 0, p > 0), z3.Implies(z3.And(x == 0, y > 0), p == 0), z3.Implies(x == 1, p == 1),
               z3.Implies(y == 1, p == x), z3.Implies(y == 0, p == 1),
               z3.Implies(z3.And(y == real_val(0.5), x >= 0), z3.And(p >= 0, p * p == x, p == library.SQRT(x)))):
        interp.path.assume(ax)
    return SV(p, "real")


def register(models):
    reg = models.register
    reg(_aml.Param, m_param, trusted="aml embedding")
    reg(_aml.Var, m_param, trusted="aml embedding")
    reg(_aml.Constraint, m_constraint, trusted="aml embedding")
    reg(_aml.ConditionalExpression, m_condexpr, trusted="aml embedding")
    reg(_aml.inequality, m_inequality, trusted="aml embedding")
    reg(_aml.abs, m_abs, trusted="aml embedding")
    reg(_aml.sign, m_sign, trusted="aml embedding")
    reg(_aml.ParamDict, m_dict, trusted="aml embedding")
    reg(_aml.VarDict, m_dict, trusted="aml embedding")
    reg(_aml.ConstraintDict, m_dict, trusted="aml embedding")
    reg(_aml.value, m_value, trusted="aml embedding")
    return models


def build_models():
    return register(library.build_models())


class ModelStub:
    """Marker class for the symbolic aml model `m` (a SymObj of this class: plain attribute store)."""
