"""Runs all contracts / lemmas / bounded stand-ins of one property and writes the evidence file."""
import glob
import importlib
import json
import multiprocessing as mp
import os
import re
import sys
import time
import traceback

ROOT = os.path.dirname(os.path.dirname(os.path.abspath(__file__)))
sys.path.insert(0, ROOT)


class Lemma:
    """A property-level statement proved over the ensures of contracts.

    fn() returns a list of (name, hypotheses(list of z3), goal(z3)); discharged iff hyps /\\ not goal unsat.
    `uses` names the contract obligations whose ensures are the hypotheses (modular link).
    """

    def __init__(self, name, properties, fn, uses=(), note=""):
        self.name, self.properties, self.fn, self.uses, self.note = name, tuple(properties), fn, list(uses), note


class Bounded:
    """Bounded stand-in: real function run natively behind a run-time contract over a stated scope.

    fn(tier, seed) -> dict(evaluations, distinct_nontrivial, failures=[dict(...)], scope, samples, exhaustive)
    """

    def __init__(self, name, properties, fn, scope="", kind="exhaustive-small-scope", needs_ext=False):
        self.name, self.properties, self.fn, self.scope, self.kind = name, tuple(properties), fn, scope, kind
        self.needs_ext = needs_ext   # the stand-in runs against the C++ extensions rebuilt from /repo's current sources ($PYVC_EXT_DIR)


def load_modules(pid=None):
    """imports every contract module; a module that fails to import (e.g. the function it is anchored in no longer exists) is a
    checker error for exactly the properties its text mentions, not for every property."""
    mods = []
    for fn in sorted(glob.glob(os.path.join(ROOT, "contracts", "*.py"))):
        nm = os.path.basename(fn)[:-3]
        if nm.startswith("_"):
            continue
        try:
            mods.append(importlib.import_module("contracts." + nm))
        except Exception:
            with open(fn) as fh:
                text = fh.read()
            if pid is None or ('"%s"' % pid) in text:
                raise
            sys.stderr.write("note: contracts/%s.py failed to import (does not mention %s): %s\n" % (nm, pid, traceback.format_exc().splitlines()[-1]))
    return mods


def load_known():
    fn = os.path.join(ROOT, "known_findings.json")
    if not os.path.exists(fn):
        return []
    with open(fn) as fh:
        return json.load(fh).get("findings", [])


def known_bounded(pid, key):
    """the 'known' (not fixed) entry of known_findings.json for a bounded-stand-in case, or None.
    An entry matches when its obligation is 'bounded:<key>' (a trailing * matches any suffix)."""
    for k in load_known():
        if k.get("property") == pid and k.get("status") == "known":
            ob = k.get("obligation", "")
            if ob == "bounded:" + key or (ob.endswith("*") and ("bounded:" + key).startswith(ob[:-1])):
                return k
    return None


_MODS = None
_TIER = "quick"
_SEED = 0
_KNOWN = []


def _worker(task):
    kind, modname, ci, ki = task
    from . import core
    mod = importlib.import_module(modname)
    t0 = time.time()
    try:
        if kind == "case":
            contract = mod.CONTRACTS[ci]
            case = contract.cases[ki]
            r = core.run_case(contract, case, tier=_TIER, known=_KNOWN, seed=_SEED)
            d = r.to_json()
            d["kind"] = "case"
            d["trusted"] = list(contract.trusted)
            return _jsonable(d)
        if kind == "lemma":
            lem = mod.LEMMAS[ci]
            return _jsonable(run_lemma(lem))
        if kind == "bounded":
            b = mod.BOUNDED[ci]
            try:
                out = b.fn(_TIER, _SEED)
                out = dict(out)
            except Exception:
                out = dict(error=traceback.format_exc())
            out.update(kind="bounded", name=b.name, scope=out.get("scope", b.scope), bkind=b.kind,
                       seconds=time.time() - t0)
            return _jsonable(out)
    except Exception:
        return dict(kind=kind, error=traceback.format_exc(), name="%s[%d,%d]" % (modname, ci, ki))


def run_lemma(lem):
    import z3
    from . import core
    t0 = time.time()
    out = dict(kind="lemma", name=lem.name, uses=lem.uses, note=lem.note, obligations=[])
    try:
        items = lem.fn()
    except Exception:
        out["error"] = traceback.format_exc()
        return out
    for nm, hyps, goal in items:
        d = core.discharge([], hyps, goal, also_cvc5=(_TIER == "thorough"))
        e = dict(name="lemma:%s#%s" % (lem.name, nm), verdict=d["verdict"], backend=d["backend"], seconds=d["seconds"])
        if d["verdict"] == "refuted":
            e["model"] = str(d["model"])[:1000]
        if d["verdict"] == "unknown":
            e["reason"] = d.get("reason")
        out["obligations"].append(e)
    out["seconds"] = time.time() - t0
    return out


def _jsonable(x):
    if isinstance(x, dict):
        return {str(k): _jsonable(v) for k, v in x.items()}
    if isinstance(x, (list, tuple, set)):
        return [_jsonable(v) for v in x]
    if isinstance(x, (str, int, float, bool)) or x is None:
        if isinstance(x, float) and (x != x or x in (float("inf"), float("-inf"))):
            return repr(x)
        return x
    return repr(x)[:300]


def sanitize(s):
    return re.sub(r"[^A-Za-z0-9_.=-]+", "_", s)[:150]


def run_property(pid, tier="quick", seed=0, jobs=None, only=None):
    global _TIER, _SEED, _KNOWN
    _TIER, _SEED = tier, seed
    _KNOWN = [k for k in load_known() if k.get("property") == pid]
    t0 = time.time()
    mods = load_modules(pid)
    tasks = []
    for mod in mods:
        for ci, c in enumerate(getattr(mod, "CONTRACTS", [])):
            for ki, k in enumerate(c.cases):
                if pid in k.properties and (only is None or only in (c.target + "#" + k.name)):
                    tasks.append(("case", mod.__name__, ci, ki))
        for li, l in enumerate(getattr(mod, "LEMMAS", [])):
            if pid in l.properties and (only is None or only in l.name):
                tasks.append(("lemma", mod.__name__, li, 0))
        for bi, b in enumerate(getattr(mod, "BOUNDED", [])):
            if pid in b.properties and (only is None or only in b.name):
                tasks.append(("bounded", mod.__name__, bi, 0))
    jobs = jobs or min(16, os.cpu_count() or 4)
    results = []
    ext_dir = None
    need_ext = any(getattr(getattr(importlib.import_module(t[1]), "BOUNDED")[t[2]], "needs_ext", False) for t in tasks if t[0] == "bounded")
    if need_ext:
        import subprocess
        b = subprocess.run([os.path.join(ROOT, "bounded", "build_ext.sh")], capture_output=True, text=True)
        if b.returncode != 0:
            raise RuntimeError("C++ extension rebuild from /repo failed: " + b.stderr[-800:])
        ext_dir = b.stdout.strip().splitlines()[-1]
        os.environ["PYVC_EXT_DIR"] = ext_dir
    try:
        results = _run_tasks(tasks, jobs)
    finally:
        if ext_dir:
            import shutil
            shutil.rmtree(ext_dir, ignore_errors=True)
            os.environ.pop("PYVC_EXT_DIR", None)
    return summarize(pid, tier, seed, results, time.time() - t0, mods)


TASK_TIMEOUT_S = int(os.environ.get("PYVC_TASK_TIMEOUT_S", "0")) or None      # default set per tier in _run_tasks


def _task_name(task):
    kind, modname, ci, ki = task
    try:
        mod = importlib.import_module(modname)
        if kind == "case":
            c = mod.CONTRACTS[ci]
            return "%s#%s" % (c.target, c.cases[ki].name)
        if kind == "lemma":
            return mod.LEMMAS[ci].name
        return mod.BOUNDED[ci].name
    except Exception:
        return "%s[%s,%d,%d]" % (modname, kind, ci, ki)


def _isolated(task, timeout):
    """one task in a process of its own: a worker that dies (signal, os._exit in native code) or hangs becomes a checker error that names the task -
    never a hang of the whole check (multiprocessing.Pool.map waits for ever for a task whose worker died)"""
    ctx = mp.get_context("fork")
    rd, wr = ctx.Pipe(duplex=False)

    def child():
        try:
            wr.send(_worker(task))
        except BaseException:
            wr.send(dict(kind=task[0], error=traceback.format_exc(), name=_task_name(task)))
        finally:
            wr.close()
    pr = ctx.Process(target=child)
    pr.start()
    wr.close()
    out = None
    try:
        if rd.poll(timeout):
            out = rd.recv()
    except (EOFError, OSError):
        out = None
    if out is None:
        hung = pr.is_alive()
        if hung:
            pr.kill()
        pr.join(10)
        return dict(kind=task[0], name=_task_name(task),
                    error="worker process %s (exit code %r) before returning a result" % ("exceeded the task time limit of %s s and was killed" % timeout if hung else "died", pr.exitcode))
    pr.join(10)
    return out


def _run_tasks(tasks, jobs):
    if not tasks:
        return []
    if jobs == 1 or len(tasks) == 1:
        return [_worker(t) for t in tasks]
    from concurrent.futures import ProcessPoolExecutor, wait, FIRST_COMPLETED
    timeout = TASK_TIMEOUT_S or (3600 if _TIER == "quick" else 6 * 3600)
    missing = object()
    results = [missing] * len(tasks)
    ex = ProcessPoolExecutor(jobs, mp_context=mp.get_context("fork"))
    try:
        futs = {ex.submit(_worker, t): i for i, t in enumerate(tasks)}
        pending = set(futs)
        deadline = time.time() + timeout
        while pending:
            done, pending = wait(pending, timeout=max(1.0, min(60.0, deadline - time.time())), return_when=FIRST_COMPLETED)
            for f in done:
                try:
                    results[futs[f]] = f.result()
                except BaseException:          # BrokenProcessPool: some worker died; every unfinished task is rerun on its own below
                    pass
            if time.time() > deadline:
                break
    finally:
        # do not wait for workers that hang: kill them, then shut the pool down
        for pr in list(getattr(ex, "_processes", {}).values()):
            try:
                if any(r is missing for r in results):
                    pr.kill()
            except Exception:
                pass
        ex.shutdown(wait=False, cancel_futures=True)
    rerun = [i for i, r in enumerate(results) if r is missing]
    if rerun:
        sys.stderr.write("NOTE: the worker pool broke (a worker process died or hung); %d unfinished task(s) rerun one by one in processes of their own\n" % len(rerun))
    for i in rerun:
        results[i] = _isolated(tasks[i], timeout)
    return results


def summarize(pid, tier, seed, results, wall, mods):
    obligations = 0
    discharged = 0
    by_backend = {}
    solver_s = 0.0
    violations = []   # (obligation entry, reproduced?)
    undecided = []
    errors = []
    known_lines = []
    functions = {}
    preconditions = {}
    inlined = set()
    dropped = set()
    trusted = set()
    paths = 0
    cross = dict(samples=0, compared=0, mismatches=0)
    bounded = []
    samples = []
    covers_bad = []
    lemma_names = []
    n_cases = 0
    for r in results:
        if r is None:
            continue
        if r.get("error"):
            errors.append("%s: %s" % (r.get("name") or r.get("target"), r["error"][-1500:]))
            continue
        if r["kind"] == "case":
            n_cases += 1
            paths += r["paths"]
            for q, info in r["functions"].items():
                functions[q] = info
            pre = preconditions.setdefault(r["target"], [])
            for c in r.get("requires", []):
                if c not in pre and len(pre) < 30:
                    pre.append(c)
            inlined |= set(r["inlined"])
            dropped |= set(r["dropped"])
            trusted |= set(r.get("trusted", []))
            cross["samples"] += r["crosscheck"]["samples"]
            cross["compared"] += r["crosscheck"]["compared"]
            cross["mismatches"] += len(r["crosscheck"]["mismatches"])
            for mm in r["crosscheck"]["mismatches"][:3]:
                errors.append("ENGINE CROSS-CHECK MISMATCH %s#%s: %s" % (r["target"], r["case"], json.dumps(mm)[:500]))
            if r["crosscheck"].get("error"):
                errors.append("cross-check error %s#%s: %s" % (r["target"], r["case"], r["crosscheck"]["error"][-800:]))
            if r["vacuity"]["cover"] not in ("sat",):
                covers_bad.append("%s#%s cover=%s" % (r["target"], r["case"], r["vacuity"]["cover"]))
            for u in r["unsupported"]:
                undecided.append(dict(name="%s#%s" % (r["target"], r["case"]), reason="unsupported: " + u))
            if not r["obligations"] and not r["unsupported"]:
                errors.append("zero obligations generated for %s#%s" % (r["target"], r["case"]))
            obls = r["obligations"]
        elif r["kind"] == "lemma":
            obls = r["obligations"]
            lemma_names.append(r["name"])
            if not obls:
                errors.append("zero obligations generated for lemma %s" % r["name"])
        elif r["kind"] == "bounded":
            b = dict(name=r["name"], kind=r.get("bkind"), scope=r.get("scope"), evaluations=r.get("evaluations", 0),
                     distinct_nontrivial=r.get("distinct_nontrivial", 0), exhaustive=r.get("exhaustive", False),
                     failures=len(r.get("failures", [])), samples=r.get("samples", [])[:3],
                     seconds=round(r.get("seconds", 0), 2), known=r.get("known", []))
            bounded.append(b)
            for kf in r.get("known", []):
                known_lines.append("KNOWN-FINDING: property=%s %s" % (pid, kf))
            for f in r.get("failures", []):
                violations.append(dict(name="bounded:%s" % r["name"], bounded=True, detail=f, reproduced=True))
            if r.get("evaluations", 0) == 0:
                errors.append("bounded stand-in %s evaluated nothing" % r["name"])
            continue
        for e in obls:
            obligations += 1
            v = e["verdict"]
            if os.environ.get("PYVC_SLOW") and e.get("seconds", 0) > float(os.environ["PYVC_SLOW"]):
                print("SLOW %.1fs %s [%s] path=%s" % (e.get("seconds", 0), e["name"], e.get("backend"), e.get("path")))
            solver_s += e.get("seconds", 0)
            kf = e.get("known_finding")
            if kf and kf.get("inside") == "refuted":
                line = "KNOWN-FINDING: property=%s %s [%s]" % (pid, kf.get("what"), e["name"])
                if line not in known_lines:
                    known_lines.append(line)
            if v == "discharged":
                discharged += 1
                by_backend[e.get("backend", "z3")] = by_backend.get(e.get("backend", "z3"), 0) + 1
                if len(samples) < 6 and e.get("kind") != "safety":
                    samples.append(dict(obligation=e["name"], path=e.get("path"), verdict=v, backend=e.get("backend")))
            elif v == "refuted":
                violations.append(e)
            elif v == "unknown":
                undecided.append(dict(name=e["name"], reason="solver unknown: %s (cvc5: %s)" % (e.get("reason"), e.get("cvc5"))))
            else:
                errors.append("%s: %s %s" % (e["name"], v, e.get("detail", "")))
    return dict(pid=pid, tier=tier, seed=seed, obligations=obligations, discharged=discharged, by_backend=by_backend,
                solver_s=solver_s, violations=violations, undecided=undecided, errors=errors, known_lines=known_lines,
                functions=functions, preconditions=preconditions, inlined=sorted(inlined), dropped=sorted(dropped), trusted=sorted(trusted),
                paths=paths, cross=cross, bounded=bounded, samples=samples, covers_bad=covers_bad,
                lemmas=lemma_names, wall=wall, n_cases=n_cases)
