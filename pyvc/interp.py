"""pyvc interpreter: forward symbolic execution of the real Python source of /repo functions.

Paths are enumerated by re-execution under a decision prefix (no state copying): every symbolic
branch consults Path.branch(), which follows the prefix or, beyond it, checks feasibility of both
sides with z3 and queues the alternative.
"""
import ast
import os
import builtins
import itertools
import inspect
import math
import operator
import textwrap
import types
import hashlib
import enum

import z3

from .values import (SV, SymObj, SymMap, SymSeq, NativeModel, Leaf, SymStr, GenericIter, Poison, Unsupported, as_real, as_int, kind_of, truth,
                     real_val, key_eq, is_symbolic, name_const, NameSort)


class PyRaise(Exception):
    """An exception raised by the interpreted program."""

    def __init__(self, exc):
        self.exc = exc  # a real exception instance (may carry symbolic args)


_WRITE_ONLY = {"append", "extend", "add", "update", "insert"}
_READ_WRITE = {"setdefault", "pop", "remove", "discard", "popitem", "clear"}


def _read_and_written_containers(body):
    """names used in `body` both as the target of a mutation (x[k] = v, x.append(v), x.add(v), ...) and in any other way (k in x, x[k], len(x), ...)"""
    written, read = set(), set()
    skip = set()
    for stmt in body:
        for node in ast.walk(stmt):
            if isinstance(node, ast.Subscript) and isinstance(node.ctx, (ast.Store, ast.Del)) and isinstance(node.value, ast.Name):
                written.add(node.value.id)
                skip.add(id(node.value))
            elif isinstance(node, ast.Call) and isinstance(node.func, ast.Attribute) and isinstance(node.func.value, ast.Name):
                if node.func.attr in _WRITE_ONLY:
                    written.add(node.func.value.id)
                    skip.add(id(node.func.value))
                elif node.func.attr in _READ_WRITE:
                    written.add(node.func.value.id)
    for stmt in body:
        for node in ast.walk(stmt):
            if isinstance(node, ast.Name) and isinstance(node.ctx, ast.Load) and id(node) not in skip:
                read.add(node.id)
    return written & read


def _surely_unequal(a, b):
    """a == b is certainly False, decided without the solver (identity of stub objects without __eq__, different concrete parts)"""
    if a is b:
        return False
    if isinstance(a, tuple) and isinstance(b, tuple):
        return len(a) != len(b) or any(_surely_unequal(x, y) for x, y in zip(a, b))
    if isinstance(a, SymObj) and isinstance(b, SymObj):
        return getattr(a.cls, "__eq__", object.__eq__) is object.__eq__ and getattr(b.cls, "__eq__", object.__eq__) is object.__eq__
    if is_symbolic(a) or is_symbolic(b):
        return False
    try:
        return bool(a != b)
    except Exception:
        return False


class StubAttributeError(AttributeError):
    """a symbolic instance of a real class was asked for an instance attribute its contract stub does not carry: real objects get every attribute in
    __init__, so this says the stub is incomplete for the code as it now is ("needs contract"), not that the code is wrong.  Still an AttributeError
    for the interpreted program (try / except, hasattr); a path that *ends* with it is undecided, not a violation."""


class LoopCarried(Exception):
    """a generic iteration read a non-scalar local written by another iteration."""


class PathEnd(Exception):
    """Terminates the current path quietly (infeasible, or cut by a loop rule)."""

    def __init__(self, reason):
        self.reason = reason


class _Return(Exception):
    def __init__(self, v):
        self.v = v


class _Break(Exception):
    pass


class _Continue(Exception):
    pass


# ------------------------------------------------------------------------------------------------
# source access


class SourceIndex:
    """Parses the real functions on demand; records what was read (for the evidence)."""

    def __init__(self):
        self.cache = {}
        self.used = {}

    def get(self, fn):
        code = getattr(fn, "__code__", None)
        key = code
        if key in self.cache:
            return self.cache[key]
        try:
            src = inspect.getsource(fn)
        except (OSError, TypeError) as e:
            raise Unsupported("no source for %r: %s" % (fn, e))
        src = _dedent_to_first_line(src)
        tree = ast.parse(src)
        node = tree.body[0]
        if not isinstance(node, (ast.FunctionDef, ast.Lambda)):
            # lambda assigned somewhere
            for n in ast.walk(tree):
                if isinstance(n, ast.Lambda):
                    node = n
                    break
        qn = "%s:%s" % (fn.__module__, fn.__qualname__)
        info = dict(qualname=qn, file=inspect.getsourcefile(fn), line=code.co_firstlineno,
                    nlines=src.count("\n"), sha256=hashlib.sha256(src.encode()).hexdigest()[:16])
        self.cache[key] = (node, info)
        return node, info

    def touch(self, info):
        self.used[info["qualname"]] = info


def _dedent_to_first_line(src):
    """textwrap.dedent that is not defeated by comment lines starting in column 0 inside an indented method"""
    lines = src.split("\n")
    first = next((l for l in lines if l.strip()), "")
    ind = len(first) - len(first.lstrip())
    out = []
    for l in lines:
        if l[:ind].strip() == "":
            out.append(l[ind:])
        elif l.lstrip().startswith("#"):
            out.append("")          # a comment line to the left of the function's own indentation
        else:
            out.append(l)
    return "\n".join(out)


SOURCES = SourceIndex()


def _all_class_attrs(cls):
    """names defined by the class or its bases below NativeModel/object (user-defined dunders only)"""
    out = set()
    for k in cls.__mro__:
        if k in (object, NativeModel):
            continue
        out.update(k.__dict__)
    return out


# ------------------------------------------------------------------------------------------------
# path


class Obligation:
    __slots__ = ("name", "pc", "goal", "where", "kind")

    def __init__(self, name, pc, goal, where, kind="post"):
        self.name, self.pc, self.goal, self.where, self.kind = name, pc, goal, where, kind


class Path:
    FEAS_TIMEOUT_MS = 3000

    def __init__(self, prefix, axioms=()):
        self.prefix = list(prefix)
        self.decisions = []
        self.pc = []
        self.axioms = list(axioms)
        self.obligations = []
        self.new_prefixes = []
        self.events = []
        self.writes = []
        self.fresh_n = 0
        self.solver = z3.Solver()
        from . import budget
        self.solver.set("timeout", budget.ms(self.FEAS_TIMEOUT_MS))
        for a in self.axioms:
            self.solver.add(a)
        self.feas_checks = 0
        self.inlined = set()
        self.notes = []

    def fresh(self, base, kind):
        self.fresh_n += 1
        nm = "%s!%d" % (base, self.fresh_n)
        if kind == "int":
            return SV(z3.Int(nm), "int")
        if kind == "real":
            return SV(z3.Real(nm), "real")
        if kind == "bool":
            return SV(z3.Bool(nm), "bool")
        if kind == "name":
            return SV(z3.Const(nm, NameSort), "name")
        raise Unsupported("fresh of kind %r" % kind)

    def assume(self, cond):
        if isinstance(cond, bool):
            if not cond:
                raise PathEnd("assume False")
            return
        cond = z3.simplify(cond)
        if z3.is_true(cond):
            return
        if z3.is_false(cond):
            raise PathEnd("assume False")
        self.pc.append(cond)
        self.solver.add(cond)

    def add_axiom(self, ax):
        self.axioms.append(ax)
        self.solver.add(ax)

    def oblige(self, name, goal, where="", kind="post"):
        """Record `pc => goal` as an obligation; the path continues under the assumption goal."""
        if isinstance(goal, bool):
            goal = z3.BoolVal(goal)
        self.obligations.append(Obligation(name, list(self.pc), goal, where, kind))
        g = z3.simplify(goal)
        if not z3.is_true(g):
            if z3.is_false(g):
                raise PathEnd("obligation trivially false: " + name)
            self.pc.append(g)
            self.solver.add(g)

    def _feasible(self, cond):
        self.feas_checks += 1
        r = self.solver.check(cond)
        return r != z3.unsat

    def branch(self, cond):
        """Decide a branch on z3 Bool / python bool `cond`; returns python bool."""
        if isinstance(cond, bool):
            return cond
        cond = z3.simplify(cond)
        if z3.is_true(cond):
            return True
        if z3.is_false(cond):
            return False
        i = len(self.decisions)
        if i < len(self.prefix):
            d = self.prefix[i]
        else:
            ft = self._feasible(cond)
            ff = self._feasible(z3.Not(cond))
            if ft and ff and getattr(self, "no_branch", False):
                raise Unsupported("data-dependent branch inside the body of a symbolic comprehension/sum")
            if ft and ff:
                self.new_prefixes.append(self.decisions + [False])
                d = True
            elif ft:
                d = True
            elif ff:
                d = False
            else:
                raise PathEnd("infeasible")
        self.decisions.append(d)
        c = cond if d else z3.Not(cond)
        self.pc.append(c)
        self.solver.add(c)
        return d


# ------------------------------------------------------------------------------------------------
# callables known to the interpreter


class BoundMethod:
    def __init__(self, fn, self_obj, defcls=None):
        self.fn, self.self_obj, self.defcls = fn, self_obj, defcls


class InterpFunction:
    """A function/lambda defined inside interpreted code (closure over an Env)."""

    def __init__(self, node, env, interp, name="<lambda>"):
        self.node, self.env, self.interp, self.name = node, env, interp, name


class Env:
    def __init__(self, locals_, globals_, closure=None, defcls=None, selfobj=None):
        self.locals = locals_
        self.globals = globals_
        self.closure = closure or {}
        self.defcls = defcls
        self.selfobj = selfobj
        self.global_names = set()

    def lookup(self, name):
        if name in self.locals and name not in self.global_names:
            v = self.locals[name]
            if isinstance(v, Poison):
                raise LoopCarried(name)
            return v
        if isinstance(self.closure, Env):
            try:
                return self.closure.lookup(name)
            except PyRaise:
                pass
        elif name in self.closure:
            return self.closure[name]
        if name in self.globals:
            return self.globals[name]
        if hasattr(builtins, name):
            return getattr(builtins, name)
        raise PyRaise(NameError("name %r is not defined" % name))


class Models:
    """Registry of modelled callables / contracts: real callable object -> model(interp, args, kwargs)."""

    def __init__(self):
        self.by_obj = {}
        self.by_qualname = {}
        self.meta = {}

    def register(self, target, fn, trusted=None, verified_by=None):
        if isinstance(target, str):
            self.by_qualname[target] = fn
            key = target
        else:
            try:
                self.by_obj[target] = fn
            except TypeError:
                self.by_obj[id(target)] = fn
            key = getattr(target, "__qualname__", repr(target))
            mod = getattr(target, "__module__", None)
            if mod:
                key = "%s:%s" % (mod, key)
        self.meta[key] = dict(trusted=trusted, verified_by=verified_by)

    def find(self, f):
        if isinstance(f, str):
            return self.by_qualname.get(f)
        try:
            m = self.by_obj.get(f)
        except TypeError:
            m = self.by_obj.get(id(f))
        if m is not None:
            return m
        qn = getattr(f, "__qualname__", None)
        mod = getattr(f, "__module__", None)
        if qn and mod:
            return self.by_qualname.get("%s:%s" % (mod, qn))
        return None


_BINOPS = {
    ast.Add: operator.add, ast.Sub: operator.sub, ast.Mult: operator.mul, ast.Div: operator.truediv,
    ast.FloorDiv: operator.floordiv, ast.Mod: operator.mod, ast.Pow: operator.pow,
    ast.BitAnd: operator.and_, ast.BitOr: operator.or_, ast.BitXor: operator.xor,
    ast.LShift: operator.lshift, ast.RShift: operator.rshift, ast.MatMult: operator.matmul,
}
_CMPOPS = {
    ast.Eq: operator.eq, ast.NotEq: operator.ne, ast.Lt: operator.lt, ast.LtE: operator.le,
    ast.Gt: operator.gt, ast.GtE: operator.ge,
}


def _is_logger_only(stmts):
    """True if a statement list consists only of logger.* calls (dropped by extraction)."""
    for s in stmts:
        if isinstance(s, ast.Expr) and isinstance(s.value, ast.Call):
            f = s.value.func
            if isinstance(f, ast.Attribute) and isinstance(f.value, ast.Name) and f.value.id == "logger":
                continue
        if isinstance(s, ast.Pass):
            continue
        return False
    return True


class Interp:
    MAX_DEPTH = 40
    MAX_UNROLL = 64

    def __init__(self, path, models, inline_ok=None, loop_specs=None, pow_fn=None, interpret_always=(), total_arith=False):
        self.path = path
        self.models = models
        self.depth = 0
        self.inline_ok = inline_ok  # callable(fn)->bool ; None = any function with source in wntr.*
        self.loop_specs = loop_specs or {}
        self.pow_fn = pow_fn
        self.interpret_always = set(interpret_always)
        self.total_arith = total_arith
        self.dropped = set()
        self.steps = 0
        self.sum_specs = {}     # (qualname, ordinal of the sum(...) call in the function text) -> spec(locals) -> PrefixSum
        self.call_site = None
        self.call_env = None

    # ---------------------------------------------------------------- calling

    def call(self, f, args=(), kwargs=None):
        kwargs = kwargs or {}
        self.depth += 1
        if self.depth > self.MAX_DEPTH:
            raise Unsupported("call depth exceeded")
        try:
            return self._call(f, list(args), kwargs)
        finally:
            self.depth -= 1

    def _call(self, f, args, kwargs):
        if isinstance(f, BoundMethod):
            m = self.models.find(f.fn)
            if m is not None:
                return m(self, [f.self_obj] + args, kwargs)
            return self._call_function(f.fn, [f.self_obj] + args, kwargs, defcls=f.defcls)
        if isinstance(f, InterpFunction):
            return self._run_node(f.node, f.name, args, kwargs, None, f.env.globals, closure=f.env,
                                  defaults=None, fnobj=None)
        m = self.models.find(f)
        if m is not None:
            return m(self, args, kwargs)
        if isinstance(f, types.MethodType) and isinstance(f.__self__, NativeModel):
            return f(*args, **kwargs)
        if isinstance(f, types.MethodType):
            m = self.models.find(f.__func__)
            if m is not None:
                return m(self, [f.__self__] + args, kwargs)
            if not (is_symbolic(args) or is_symbolic(kwargs) or is_symbolic(f.__self__)) \
                    and f.__func__ not in self.interpret_always:
                return self._native(f, args, kwargs)
            return self._call_function(f.__func__, [f.__self__] + args, kwargs)
        if isinstance(f, types.FunctionType):
            if not (is_symbolic(args) or is_symbolic(kwargs)) and f not in self.interpret_always:
                return self._native(f, args, kwargs)
            return self._call_function(f, args, kwargs)
        if isinstance(f, types.BuiltinMethodType) and isinstance(getattr(f, "__self__", None), list) and f.__name__ == "sort" \
                and (kwargs.get("key") is not None or is_symbolic(f.__self__)):
            from .library import m_list_sort
            return m_list_sort(self, f.__self__, args, kwargs)
        if isinstance(f, type):
            return self._construct(f, args, kwargs)
        if isinstance(f, enum.Enum) or (hasattr(type(f), "__mro__") and getattr(type(f), "__module__", "").startswith("wntr")):
            it = _lookup_class_attr(type(f), "__call__")
            if it is not None:
                c = it[0]
                if isinstance(c, property):
                    return self.call(c.fget(f), args, kwargs)
                if isinstance(c, types.FunctionType):
                    return self._call_function(c, [f] + args, kwargs, defcls=it[1])
        # builtins, numpy ufuncs ...
        if is_symbolic(args) or is_symbolic(kwargs):
            m = self.models.find(getattr(f, "__func__", f))
            if m is not None:
                return m(self, args, kwargs)
            if isinstance(f, NativeModel) and hasattr(type(f), "__call__"):
                return f(*args, **kwargs)          # a callable contract stub
            if isinstance(f, types.BuiltinMethodType) and isinstance(f.__self__, str) and f.__name__ == "format":
                self._format_concrete_fields(f.__self__, args, kwargs)
                return SymStr((f.__self__,) + tuple(args) + tuple(kwargs.values()), fmt=f.__self__, args=args, kwargs=kwargs)
            if isinstance(f, types.BuiltinMethodType) and f.__self__ is not None and \
                    not isinstance(f.__self__, types.ModuleType):
                return self._container_method(f, args, kwargs)
            raise Unsupported("call of unmodelled %r with symbolic arguments" % (getattr(f, "__qualname__", f),))
        return self._native(f, args, kwargs)

    def _native(self, f, args, kwargs):
        try:
            return f(*args, **kwargs)
        except Unsupported:
            raise
        except (PyRaise, PathEnd):
            raise
        except Exception as e:  # a real exception of the real code
            raise PyRaise(e)

    def _format_concrete_fields(self, fmt, args, kwargs):
        """str.format with some symbolic fields: the concrete fields are still formatted natively, so that the exceptions python raises for them
        ('{:<10}'.format(None) is a TypeError) are exceptions of the interpreted code too"""
        import string
        auto = 0
        try:
            parsed = list(string.Formatter().parse(fmt))
        except ValueError as ex:
            raise PyRaise(ex)
        for lit, field, spec, conv in parsed:
            if field is None:
                continue
            if field == "":
                key = auto
                auto += 1
            elif field.isdigit():
                key = int(field)
            else:
                key = field
            if isinstance(key, int):
                if key >= len(args):
                    raise PyRaise(IndexError("Replacement index %d out of range for positional args tuple" % key))
                v = args[key]
            elif key in kwargs:
                v = kwargs[key]
            else:
                continue                    # attribute / index lookups inside a field: left to the token model
            if is_symbolic(v) or conv or (spec and "{" in spec):
                continue
            try:
                format(v, spec or "")
            except Exception as ex:
                raise PyRaise(ex)

    def _container_method(self, f, args, kwargs):
        """list.append(SV) etc.: concrete containers holding symbolic elements."""
        owner = f.__self__
        name = f.__name__
        if isinstance(owner, (list, dict, set)) and name in (
                "append", "extend", "insert", "setdefault", "update", "add", "get", "pop", "remove",
                "index", "count", "discard", "items", "keys", "values", "copy", "clear"):
            if (name in ("remove", "index", "count", "discard") or (isinstance(owner, (dict, set)) and name in (
                    "add", "get", "pop", "setdefault") and is_symbolic(args[:1]))) and _has_sv(args[:1]):
                k0 = args[0] if args else None
                if isinstance(owner, set) and name == "add" and isinstance(k0, SV) and all(isinstance(x, SV) and x.t.eq(k0.t) for x in owner):
                    # a set that is empty or holds only this very term: the result is {k0} whatever its value (membership goes through Interp.contains)
                    if not owner:
                        owner.add(k0)
                    return None
                if isinstance(owner, list) and name == "remove":
                    # list.remove(x) where x IS an element of the list and every earlier element is certainly unequal to it
                    for i, el in enumerate(owner):
                        if el is k0:
                            del owner[i]
                            return None
                        if not _surely_unequal(el, k0):
                            break
                raise Unsupported("container method %s with symbolic key" % name)
            return f(*args, **kwargs)
        raise Unsupported("builtin method %r with symbolic arguments" % (name,))

    def _construct(self, cls, args, kwargs):
        if cls is super and len(args) == 2:
            obj = args[1]
            start = obj.cls if isinstance(obj, SymObj) else (obj if isinstance(obj, type) else type(obj))
            return _Super(obj, start, args[0])
        m = self.models.find(cls)
        if m is not None:
            return m(self, args, kwargs)
        if not (is_symbolic(args) or is_symbolic(kwargs)) and cls not in self.interpret_always:
            return self._native(cls, args, kwargs)
        if issubclass(cls, BaseException):
            return cls(*args, **kwargs)
        if cls is range and len(args) == 1 and isinstance(args[0], SV):
            n = args[0]
            ln = SV(z3.If(n.t >= 0, n.t, z3.IntVal(0)), "int")
            return SymSeq(ln, lambda i: SV(z3.IntVal(i) if isinstance(i, int) else i, "int"), label="range")
        if cls in (list, tuple, dict, set, frozenset, enumerate, zip, range, reversed, itertools.chain):
            return self._native(cls, args, kwargs)
        if cls in (float, int, bool, str):
            return self._convert(cls, args)
        init = cls.__init__
        new = _lookup_class_attr(cls, "__new__")
        if new is not None and new[1] is not object and isinstance(getattr(new[0], "__func__", new[0]), types.FunctionType):
            # user-defined __new__ (e.g. ValueCondition -> TankLevelCondition): interpret it, then __init__ of the result's class
            fnew = getattr(new[0], "__func__", new[0])
            obj = self._call_function(fnew, [cls] + list(args), kwargs, defcls=new[1])
            if isinstance(obj, SymObj) and issubclass(obj.cls, cls):
                init2 = obj.cls.__init__
                if isinstance(init2, types.FunctionType):
                    self._call_function(init2, [obj] + list(args), kwargs, defcls=_defining_class(obj.cls, "__init__"))
            return obj
        if isinstance(init, types.FunctionType):
            obj = SymObj(cls, {}, label="new " + cls.__name__)
            self._call_function(init, [obj] + list(args), kwargs, defcls=_defining_class(cls, "__init__"))
            return obj
        raise Unsupported("construction of %r with symbolic arguments" % cls)

    def _convert(self, cls, args):
        (v,) = args
        if not isinstance(v, SV):
            return cls(v)
        if cls is float:
            return SV(as_real(v), "real")
        if cls is int:
            if v.k == "int":
                return v
            if v.k == "bool":
                return SV(as_int(v), "int")
            r = v.t
            return SV(z3.If(r >= 0, z3.ToInt(r), -z3.ToInt(-r)), "int")
        if cls is bool:
            return SV(truth(v), "bool")
        raise Unsupported("str() of symbolic value")

    def _call_function(self, fn, args, kwargs, defcls=None):
        if self.inline_ok is not None and not self.inline_ok(fn):
            raise Unsupported("call of %s.%s is neither modelled, contracted nor inlinable" % (
                fn.__module__, fn.__qualname__))
        node, info = SOURCES.get(fn)
        SOURCES.touch(info)
        self.path.inlined.add(info["qualname"])
        closure = {}
        if fn.__closure__:
            for nm, cell in zip(fn.__code__.co_freevars, fn.__closure__):
                try:
                    closure[nm] = cell.cell_contents
                except ValueError:
                    pass
        if defcls is None and args and "__class__" in closure:
            defcls = closure["__class__"]
        return self._run_node(node, info["qualname"], args, kwargs, fn, fn.__globals__, closure=closure,
                              defaults=(fn.__defaults__, fn.__kwdefaults__), fnobj=fn, defcls=defcls)

    def _run_node(self, node, qualname, args, kwargs, fn, globals_, closure, defaults, fnobj, defcls=None):
        a = node.args
        locals_ = {}
        params = [p.arg for p in a.posonlyargs + a.args]
        if defaults is not None:
            pos_defaults = list(defaults[0] or ())
            kw_defaults = dict(defaults[1] or {})
        else:
            env0 = closure if isinstance(closure, Env) else Env({}, globals_)
            pos_defaults = [self.eval(d, env0) for d in a.defaults]
            kw_defaults = {k.arg: self.eval(d, env0) for k, d in zip(a.kwonlyargs, a.kw_defaults) if d is not None}
        nargs = len(args)
        for i, p in enumerate(params):
            if i < nargs:
                locals_[p] = args[i]
        if nargs > len(params):
            if a.vararg is None:
                raise PyRaise(TypeError("%s() takes %d positional arguments but %d were given" % (
                    qualname, len(params), nargs)))
            locals_[a.vararg.arg] = tuple(args[len(params):])
        elif a.vararg is not None:
            locals_[a.vararg.arg] = ()
        extra = {}
        kwonly = [k.arg for k in a.kwonlyargs]
        for k, v in kwargs.items():
            if k in params or k in kwonly:
                if k in locals_:
                    raise PyRaise(TypeError("%s() got multiple values for argument %r" % (qualname, k)))
                locals_[k] = v
            elif a.kwarg is not None:
                extra[k] = v
            else:
                raise PyRaise(TypeError("%s() got an unexpected keyword argument %r" % (qualname, k)))
        if a.kwarg is not None:
            locals_[a.kwarg.arg] = extra
        nd = len(pos_defaults)
        for i, p in enumerate(params):
            if p not in locals_:
                j = i - (len(params) - nd)
                if j >= 0:
                    locals_[p] = pos_defaults[j]
                else:
                    raise PyRaise(TypeError("%s() missing required argument %r" % (qualname, p)))
        for k in kwonly:
            if k not in locals_:
                if k in kw_defaults:
                    locals_[k] = kw_defaults[k]
                else:
                    raise PyRaise(TypeError("%s() missing keyword-only argument %r" % (qualname, k)))
        env = Env(locals_, globals_, closure, defcls=defcls, selfobj=args[0] if args else None)
        env.qualname = qualname
        env.loop_ordinal = 0
        loops = [x for x in ast.walk(node) if isinstance(x, (ast.For, ast.While))]
        loops.sort(key=lambda x: (x.lineno, x.col_offset))
        env.loop_ids = {id(x): i + 1 for i, x in enumerate(loops)}
        sums = [x for x in ast.walk(node) if isinstance(x, ast.Call) and isinstance(x.func, ast.Name) and x.func.id == "sum"]
        sums.sort(key=lambda x: (x.lineno, x.col_offset))
        env.sum_ids = {id(x): i + 1 for i, x in enumerate(sums)}
        if isinstance(node, ast.Lambda):
            return self.eval(node.body, env)
        try:
            self.exec_block(node.body, env)
        except _Return as r:
            return r.v
        return None

    # ---------------------------------------------------------------- truthiness

    def truth(self, v):
        """python truth of v: __bool__ / __len__ of the real class for symbolic instances."""
        if isinstance(v, Leaf):
            v = v.value
        if isinstance(v, SymObj):
            for nm in ("__bool__", "__len__"):
                it = _lookup_class_attr(v.cls, nm)
                if it is not None and isinstance(it[0], types.FunctionType):
                    m = self.models.find(it[0])
                    r = m(self, [v], {}) if m is not None else self._call_function(it[0], [v], {}, defcls=it[1])
                    if isinstance(r, SymObj):
                        raise Unsupported("__bool__ returned an object")
                    return truth(r)
            return True
        return truth(v)

    # ---------------------------------------------------------------- statements

    def exec_block(self, stmts, env):
        for s in stmts:
            self.exec(s, env)

    def exec(self, s, env):
        self.steps += 1
        if self.steps > 200000:
            raise Unsupported("step budget exceeded")
        meth = getattr(self, "x_" + type(s).__name__, None)
        if meth is None:
            raise Unsupported("statement %s (line %s)" % (type(s).__name__, getattr(s, "lineno", "?")))
        return meth(s, env)

    def x_Expr(self, s, env):
        v = s.value
        if isinstance(v, ast.Constant) and isinstance(v.value, str):
            return  # docstring (dropped)
        if isinstance(v, ast.Call) and isinstance(v.func, ast.Attribute) and \
                isinstance(v.func.value, ast.Name) and v.func.value.id == "logger":
            # the call itself is dropped (no effect on the state), but python evaluates its arguments whatever the log level:
            # an exception raised while building the message is an exception of the code
            self.dropped.add("logger." + v.func.attr)
            for a in list(v.args) + [k.value for k in v.keywords]:
                try:
                    self.eval(a, env)
                except Unsupported:
                    self.dropped.add("logger-argument-not-evaluated")
            return
        self.eval(v, env)

    def x_Pass(self, s, env):
        pass

    def x_Import(self, s, env):
        for al in s.names:
            mod = __import__(al.name)
            if al.asname:
                import importlib
                mod = importlib.import_module(al.name)
                env.locals[al.asname] = mod
            else:
                env.locals[al.name.split(".")[0]] = mod

    def x_ImportFrom(self, s, env):
        import importlib
        mod = importlib.import_module(s.module)
        for al in s.names:
            env.locals[al.asname or al.name] = getattr(mod, al.name)

    def x_Global(self, s, env):
        env.global_names.update(s.names)

    def x_Assign(self, s, env):
        v = self.eval(s.value, env)
        for t in s.targets:
            self.assign(t, v, env)

    def x_AnnAssign(self, s, env):
        if s.value is not None:
            self.assign(s.target, self.eval(s.value, env), env)

    def x_AugAssign(self, s, env):
        t = s.target
        if isinstance(t, ast.Name):
            cur = env.lookup(t.id)
            new = self.binop(type(s.op), cur, self.eval(s.value, env), inplace=True)
            self.assign(t, new, env)
        elif isinstance(t, ast.Attribute):
            obj = self.eval(t.value, env)
            cur = self.getattr(obj, t.attr)
            new = self.binop(type(s.op), cur, self.eval(s.value, env), inplace=True)
            self.setattr(obj, t.attr, new)
        elif isinstance(t, ast.Subscript):
            obj = self.eval(t.value, env)
            idx = self.eval_slice(t.slice, env)
            cur = self.getitem(obj, idx)
            new = self.binop(type(s.op), cur, self.eval(s.value, env), inplace=True)
            self.setitem(obj, idx, new)
        else:
            raise Unsupported("augassign target")

    def assign(self, t, v, env):
        if isinstance(t, ast.Name):
            if t.id in env.global_names:
                env.globals[t.id] = v
            else:
                env.locals[t.id] = v
        elif isinstance(t, ast.Attribute):
            self.setattr(self.eval(t.value, env), self._mangle(t.attr, env), v)
        elif isinstance(t, ast.Subscript):
            self.setitem(self.eval(t.value, env), self.eval_slice(t.slice, env), v)
        elif isinstance(t, (ast.Tuple, ast.List)):
            vals = self.iterate(v)
            star = [i for i, e in enumerate(t.elts) if isinstance(e, ast.Starred)]
            if star:
                i = star[0]
                n_after = len(t.elts) - i - 1
                if len(vals) < len(t.elts) - 1:
                    raise PyRaise(ValueError("not enough values to unpack"))
                for e, x in zip(t.elts[:i], vals[:i]):
                    self.assign(e, x, env)
                self.assign(t.elts[i].value, list(vals[i:len(vals) - n_after]), env)
                for e, x in zip(t.elts[i + 1:], vals[len(vals) - n_after:]):
                    self.assign(e, x, env)
            else:
                if len(vals) != len(t.elts):
                    raise PyRaise(ValueError("unpack: expected %d values, got %d" % (len(t.elts), len(vals))))
                for e, x in zip(t.elts, vals):
                    self.assign(e, x, env)
        else:
            raise Unsupported("assignment target %s" % type(t).__name__)

    def x_Delete(self, s, env):
        for t in s.targets:
            if isinstance(t, ast.Subscript):
                self.delitem(self.eval(t.value, env), self.eval_slice(t.slice, env))
            elif isinstance(t, ast.Name):
                env.locals.pop(t.id, None)
            elif isinstance(t, ast.Attribute):
                self.delattr(self.eval(t.value, env), t.attr)
            else:
                raise Unsupported("del target")

    def x_Return(self, s, env):
        raise _Return(self.eval(s.value, env) if s.value is not None else None)

    def x_If(self, s, env):
        # `if logger.getEffectiveLevel() <= ...:` blocks containing only logger calls are dropped
        if _is_logger_only(s.body) and not s.orelse and "logger" in ast.dump(s.test):
            self.dropped.add("if-logger-block")
            return
        c = self.eval(s.test, env)
        if self.path.branch(self.truth(c)):
            self.exec_block(s.body, env)
        else:
            self.exec_block(s.orelse, env)

    def x_Raise(self, s, env):
        if s.exc is None:
            cur = getattr(env, "current_exc", None)
            if cur is None:
                raise PyRaise(RuntimeError("No active exception to reraise"))
            raise PyRaise(cur)
        e = self.eval(s.exc, env)
        if isinstance(e, type) and issubclass(e, BaseException):
            e = e()
        if not isinstance(e, BaseException):
            raise Unsupported("raise of non-exception %r" % (e,))
        raise PyRaise(e)

    def x_Assert(self, s, env):
        c = self.eval(s.test, env)
        if not self.path.branch(self.truth(c)):
            raise PyRaise(AssertionError())

    def x_Try(self, s, env):
        try:
            try:
                self.exec_block(s.body, env)
            except PyRaise as pr:
                for h in s.handlers:
                    if h.type is None:
                        match = True
                    else:
                        ht = self.eval(h.type, env)
                        match = isinstance(pr.exc, ht)
                    if match:
                        if h.name:
                            env.locals[h.name] = pr.exc
                        old = getattr(env, "current_exc", None)
                        env.current_exc = pr.exc
                        try:
                            self.exec_block(h.body, env)
                        finally:
                            env.current_exc = old
                        break
                else:
                    raise
            else:
                self.exec_block(s.orelse, env)
        finally:
            if s.finalbody:
                self.exec_block(s.finalbody, env)

    def x_With(self, s, env):
        # only context managers that are concrete objects (e.g. warnings.catch_warnings) natively
        mgrs = []
        for it in s.items:
            m = self.eval(it.context_expr, env)
            if is_symbolic(m):
                raise Unsupported("with on symbolic object")
            v = m.__enter__()
            mgrs.append(m)
            if it.optional_vars is not None:
                self.assign(it.optional_vars, v, env)
        try:
            self.exec_block(s.body, env)
        finally:
            for m in reversed(mgrs):
                m.__exit__(None, None, None)

    def x_FunctionDef(self, s, env):
        f = InterpFunction(s, env, self, s.name)
        env.locals[s.name] = f

    def x_Break(self, s, env):
        raise _Break()

    def x_Continue(self, s, env):
        raise _Continue()

    def x_While(self, s, env):
        env.loop_ordinal = getattr(env, "loop_ids", {}).get(id(s), 0)
        spec = self.loop_specs.get((getattr(env, "qualname", None), env.loop_ordinal)) or \
            self.loop_specs.get((getattr(env, "qualname", None), s.lineno))
        if spec is None:
            # specs keyed by a fragment of the loop test (robust against loops being added / removed elsewhere)
            src = None
            for (q, key), sp in self.loop_specs.items():
                if q == getattr(env, "qualname", None) and isinstance(key, str) and key.startswith("test:"):
                    src = src or ast.unparse(s.test)
                    if key[5:] in src:
                        spec = sp
                        break
        if spec is not None:
            return spec(self, s, env)
        n = 0
        while True:
            c = self.eval(s.test, env)
            if not self.path.branch(self.truth(c)):
                self.exec_block(s.orelse, env)
                return
            n += 1
            if n > self.MAX_UNROLL:
                raise Unsupported("while loop at line %d needs an invariant (unroll bound %d hit)" % (
                    s.lineno, self.MAX_UNROLL))
            try:
                self.exec_block(s.body, env)
            except _Break:
                return
            except _Continue:
                continue

    def x_For(self, s, env):
        env.loop_ordinal = getattr(env, "loop_ids", {}).get(id(s), 0)
        spec = self.loop_specs.get((getattr(env, "qualname", None), env.loop_ordinal))
        it = self.eval(s.iter, env)
        if spec is not None:
            return spec(self, s, env, it)
        if isinstance(it, (SymSeq, SymMap)):
            raise Unsupported("for over symbolic %s at %s:%d needs a loop invariant" % (
                type(it).__name__, getattr(env, "qualname", "?"), s.lineno))
        items = self.iterate(it)
        generic = isinstance(it, GenericIter)
        for x in items:
            if generic:
                self._havoc_carried(s, env)
            self.assign(s.target, x, env)
            try:
                self.exec_block(s.body, env)
            except _Break:
                return
            except _Continue:
                continue
        self.exec_block(s.orelse, env)

    def _havoc_carried(self, s, env):
        """generic iteration: every local assigned in the loop body holds an arbitrary value of its kind (scalars)
        or a poison (objects) when the iteration starts."""
        from .loops import assigned_names
        tnames = assigned_names([ast.Assign(targets=[s.target], value=ast.Constant(0))])
        for nm in assigned_names(s.body):
            if nm in tnames or nm not in env.locals:
                continue
            v = env.locals[nm]
            if isinstance(v, Leaf):
                v = v.value
            k = kind_of(v)
            if k in ("int", "real", "bool"):
                env.locals[nm] = self.path.fresh("carried_" + nm, k)
            elif isinstance(v, SV) and v.k == "name":
                env.locals[nm] = self.path.fresh("carried_" + nm, "name")
            else:
                env.locals[nm] = Poison(nm)
        # a local container the body both reads and writes (a cache, a running set) carries state from one iteration to the next: the
        # iterations are not independent, whatever it holds now (write-only use - an output list that is appended to - is independent)
        for nm in _read_and_written_containers(s.body):
            if nm in env.locals and isinstance(env.locals[nm], (dict, set, list)) and not isinstance(env.locals[nm], GenericIter):
                env.locals[nm] = Poison(nm)

    def iterate(self, v):
        if isinstance(v, (SymSeq, SymMap, SV)):
            raise Unsupported("iteration over symbolic %s" % type(v).__name__)
        if isinstance(v, SymObj):
            it = _lookup_class_attr(v.cls, "__iter__")
            if it is None:
                raise PyRaise(TypeError("%s object is not iterable" % v.cls.__name__))
            r = self._call_function(it[0], [v], {}, defcls=it[1])
            return self.iterate(r)
        try:
            return list(v)
        except TypeError as e:
            raise PyRaise(e)

    # ---------------------------------------------------------------- expressions

    def eval(self, e, env):
        meth = getattr(self, "e_" + type(e).__name__, None)
        if meth is None:
            raise Unsupported("expression %s (line %s)" % (type(e).__name__, getattr(e, "lineno", "?")))
        return meth(e, env)

    def e_Constant(self, e, env):
        return e.value

    def e_Name(self, e, env):
        try:
            return env.lookup(e.id)
        except LoopCarried as lc:
            # the independent-iteration rule does not apply to this loop as it now is: that is a proof that cannot be made, not a refutation -
            # undecided (the fixed-size companion cases and the sampling fallback decide whether the code is wrong)
            raise Unsupported("the iterations of the loop are not independent: local '%s' is carried from one iteration to the next (line %d); "
                              "the independent-iteration rule does not apply" % (lc, getattr(e, "lineno", 0)))

    def e_Tuple(self, e, env):
        return tuple(self._elts(e.elts, env))

    def e_List(self, e, env):
        return list(self._elts(e.elts, env))

    def e_Set(self, e, env):
        xs = self._elts(e.elts, env)
        if is_symbolic(xs) and not all(isinstance(x, SV) or not is_symbolic(x) for x in xs):
            raise Unsupported("set display with symbolic elements")
        # a display of scalars (possibly symbolic): membership tests compare element-wise (Interp.contains)
        return set(xs) if not is_symbolic(xs) else list(xs)

    def _elts(self, elts, env):
        out = []
        for x in elts:
            if isinstance(x, ast.Starred):
                out.extend(self.iterate(self.eval(x.value, env)))
            else:
                out.append(self.eval(x, env))
        return out

    def e_Dict(self, e, env):
        d = {}
        for k, v in zip(e.keys, e.values):
            if k is None:
                d.update(self.eval(v, env))
            else:
                kk = self.eval(k, env)
                if is_symbolic(kk):
                    raise Unsupported("dict display with symbolic key")
                d[kk] = self.eval(v, env)
        return d

    def e_JoinedStr(self, e, env):
        parts = []
        for v in e.values:
            if isinstance(v, ast.Constant):
                parts.append(str(v.value))
            else:
                x = self.eval(v.value, env)
                if is_symbolic(x):
                    parts.append("<sym>")
                else:
                    spec = self.eval(v.format_spec, env) if v.format_spec is not None else ""
                    if v.conversion == ord("r"):
                        x = repr(x)
                    elif v.conversion == ord("s"):
                        x = str(x)
                    parts.append(format(x, spec))
        return "".join(parts)

    def e_Lambda(self, e, env):
        return InterpFunction(e, env, self)

    def e_IfExp(self, e, env):
        c = self.eval(e.test, env)
        if self.path.branch(self.truth(c)):
            return self.eval(e.body, env)
        return self.eval(e.orelse, env)

    def e_BoolOp(self, e, env):
        is_and = isinstance(e.op, ast.And)
        v = None
        for i, sub in enumerate(e.values):
            v = self.eval(sub, env)
            if i == len(e.values) - 1:
                return v
            t = self.path.branch(self.truth(v))
            if is_and and not t:
                return v
            if not is_and and t:
                return v
        return v

    def e_UnaryOp(self, e, env):
        v = self.eval(e.operand, env)
        if isinstance(v, Leaf):
            v = v.value
        if isinstance(e.op, ast.Not):
            t = self.truth(v)
            if isinstance(t, bool):
                return not t
            return SV(z3.Not(t), "bool")
        if isinstance(e.op, ast.USub):
            if isinstance(v, SV):
                if v.k == "int":
                    return SV(-v.t, "int")
                return SV(-as_real(v), "real")
            if isinstance(v, SymObj):
                return self._dunder(v, "__neg__", [])
            return self._native(operator.neg, [v], {})
        if isinstance(e.op, ast.UAdd):
            return v
        if isinstance(e.op, ast.Invert):
            if isinstance(v, NativeModel) and hasattr(type(v), "__invert__"):
                return v.__invert__()
            if not is_symbolic(v):
                return self._native(operator.invert, [v], {})
        raise Unsupported("unary op")

    def e_BinOp(self, e, env):
        return self.binop(type(e.op), self.eval(e.left, env), self.eval(e.right, env))

    def _dunder(self, obj, name, args):
        it = _lookup_class_attr(obj.cls, name)
        if it is None:
            return NotImplemented
        m = self.models.find(it[0])
        if m is not None:
            return m(self, [obj] + args, {})
        return self._call_function(it[0], [obj] + args, {}, defcls=it[1])

    def binop(self, op, a, b, inplace=False):
        if isinstance(a, Leaf):
            a = a.value
        if isinstance(b, Leaf):
            b = b.value
        if op is ast.Add and (isinstance(a, (str, SymStr)) or isinstance(b, (str, SymStr))):
            # python: str + number is a TypeError, whatever the number
            for x, y in ((a, b), (b, a)):
                if isinstance(x, (str, SymStr)) and ((isinstance(y, SV) and y.k in ("int", "real", "bool")) or
                                                    (not isinstance(y, (str, SymStr, SV)) and isinstance(y, (int, float, type(None))))):
                    raise PyRaise(TypeError('can only concatenate str (not "%s") to str' % ({"real": "float"}.get(getattr(y, "k", None), getattr(y, "k", type(y).__name__)))))
        if op is ast.Add and (isinstance(a, SymStr) or isinstance(b, SymStr)):
            return SymStr((a, b))
        if op is ast.Mod and isinstance(a, str) and is_symbolic(b):
            return SymStr((a, b))     # old-style formatting of a message with symbolic parts
        if (isinstance(a, NativeModel) or isinstance(b, NativeModel)) and not isinstance(a, (SymStr,)) and not isinstance(b, (SymStr,)):
            nm = {ast.Add: "add", ast.Sub: "sub", ast.Mult: "mul", ast.Div: "truediv", ast.BitOr: "or", ast.BitAnd: "and", ast.BitXor: "xor"}.get(op)
            if nm is not None:
                if isinstance(a, NativeModel):
                    f = getattr(a, ("__i%s__" % nm) if inplace and hasattr(a, "__i%s__" % nm) else "__%s__" % nm, None)
                    if f is not None:
                        r = f(b)
                        if r is not NotImplemented:
                            return r
                if isinstance(b, NativeModel):
                    f = getattr(b, "__r%s__" % nm, None)
                    if f is not None:
                        r = f(a)
                        if r is not NotImplemented:
                            return r
        if isinstance(a, SymObj) or isinstance(b, SymObj):
            nm = {ast.Add: "add", ast.Sub: "sub", ast.Mult: "mul", ast.Div: "truediv", ast.Pow: "pow",
                  ast.FloorDiv: "floordiv", ast.Mod: "mod"}.get(op)
            if nm is None:
                raise Unsupported("operator on symbolic object")
            if isinstance(a, SymObj):
                r = self._dunder(a, "__%s__" % nm, [b])
                if r is not NotImplemented:
                    return r
            if isinstance(b, SymObj):
                r = self._dunder(b, "__r%s__" % nm, [a])
                if r is not NotImplemented:
                    return r
            raise PyRaise(TypeError("unsupported operand types"))
        if not (isinstance(a, SV) or isinstance(b, SV)):
            if is_symbolic(a) or is_symbolic(b):
                if op is ast.Add and isinstance(a, (list, tuple)) and isinstance(b, type(a)):
                    return a + b
                if op is ast.Mult and isinstance(a, (list, tuple)) and isinstance(b, int):
                    return a * b
                raise Unsupported("operator %s on %s, %s" % (op.__name__, type(a).__name__, type(b).__name__))
            if op in (ast.Div, ast.FloorDiv, ast.Mod):
                pass
            return self._native(_BINOPS[op], [a, b], {})
        ka, kb = kind_of(a), kind_of(b)
        if (isinstance(a, SV) and kb is None and b is not None and not isinstance(b, (str, SymStr))) or \
                (isinstance(b, SV) and ka is None and a is not None and not isinstance(a, (str, SymStr))):
            nm = {ast.Add: "add", ast.Sub: "sub", ast.Mult: "mul", ast.Div: "truediv", ast.Pow: "pow"}.get(op)
            obj, other, refl = (b, a, True) if isinstance(a, SV) else (a, b, False)
            if nm is not None:
                it = _lookup_class_attr(type(obj), "__%s%s__" % ("r" if refl else "", nm))
                if it is not None and isinstance(it[0], types.FunctionType):
                    return self._call_function(it[0], [obj, other], {}, defcls=it[1])
        if op is ast.Add and (isinstance(a, (str, SymStr)) or ka == "name") and (isinstance(b, (str, SymStr)) or kb == "name"):
            return SymStr((a, b))     # string concatenation with a symbolic name: opaque string
        if op is ast.Mod and isinstance(a, str):
            return SymStr((a, b))     # old-style formatting
        if ka is None or kb is None or "name" in (ka, kb):
            if a is None or b is None:
                raise PyRaise(TypeError("unsupported operand type(s): %s and %s" % (
                    type(a).__name__, type(b).__name__)))
            raise Unsupported("arithmetic on %r and %r" % (a, b))
        both_int = ka in ("int", "bool") and kb in ("int", "bool")
        if op is ast.Add:
            return SV(as_int(a) + as_int(b), "int") if both_int else SV(as_real(a) + as_real(b), "real")
        if op is ast.Sub:
            return SV(as_int(a) - as_int(b), "int") if both_int else SV(as_real(a) - as_real(b), "real")
        if op is ast.Mult:
            return SV(as_int(a) * as_int(b), "int") if both_int else SV(as_real(a) * as_real(b), "real")
        if op is ast.Div:
            zb = as_real(b)
            if not self.total_arith and self.path.branch(zb == 0):
                raise PyRaise(ZeroDivisionError("division by zero"))
            return SV(as_real(a) / zb, "real")
        if op in (ast.FloorDiv, ast.Mod):
            if both_int:
                x, y = as_int(a), as_int(b)
                if self.path.branch(y == 0):
                    raise PyRaise(ZeroDivisionError("integer division or modulo by zero"))
                if isinstance(b, (int,)) and not isinstance(b, bool) and b > 0:
                    q = x / y
                else:
                    q = z3.If(y > 0, x / y, (-x) / (-y))
                if op is ast.FloorDiv:
                    return SV(q, "int")
                return SV(x - y * q, "int")
            x, y = as_real(a), as_real(b)
            if self.path.branch(y == 0):
                raise PyRaise(ZeroDivisionError("float floor division by zero"))
            q = z3.ToReal(z3.ToInt(x / y))
            if op is ast.FloorDiv:
                return SV(q, "real")
            return SV(x - y * q, "real")
        if op is ast.Pow:
            return self.pow(a, b)
        raise Unsupported("binary operator %s on symbolic values" % op.__name__)

    def pow(self, a, b):
        if isinstance(a, Leaf):
            a = a.value
        if isinstance(b, Leaf):
            b = b.value
        # concrete non-negative integer exponent: repeated multiplication
        if not isinstance(b, SV) and isinstance(b, int) and not isinstance(b, bool) and 0 <= b <= 8:
            if b == 0:
                return 1 if kind_of(a) in ("int", "bool") else 1.0
            int_base = kind_of(a) in ("int", "bool")
            t = as_int(a) if int_base else as_real(a)
            r = t
            for _ in range(b - 1):
                r = r * t
            return SV(r, "int" if int_base else "real")
        if not isinstance(b, SV) and isinstance(b, float) and b == int(b) and 0 <= b <= 8:
            t = as_real(a)
            r = z3.RealVal(1)
            for _ in range(int(b)):
                r = r * t
            return SV(r, "real")
        if self.pow_fn is None:
            raise Unsupported("general power needs a pow model")
        return self.pow_fn(self, a, b)

    def e_Compare(self, e, env):
        left = self.eval(e.left, env)
        result = None
        for op, rn in zip(e.ops, e.comparators):
            right = self.eval(rn, env)
            r = self.compare(type(op), left, right)
            if result is None:
                result = r
            else:
                result = self._and(result, r)
            # short circuit (python semantics) only matters for side effects; comparators are pure here
            left = right
        return result

    def _and(self, a, b):
        ta, tb = truth(a), truth(b)
        if isinstance(ta, bool):
            return b if ta else a
        if isinstance(tb, bool):
            return a if tb else False
        return SV(z3.And(ta, tb), "bool")

    def compare(self, op, a, b):
        if isinstance(a, Leaf) and op not in (ast.Is, ast.IsNot):
            a = a.value
        if isinstance(b, Leaf) and op not in (ast.Is, ast.IsNot):
            b = b.value
        if op is ast.Is or op is ast.IsNot:
            if isinstance(a, SV) or isinstance(b, SV):
                if a is None or b is None:
                    r = False
                elif isinstance(a, SV) and isinstance(b, SV):
                    r = a.t.eq(b.t)
                    if not r:
                        raise Unsupported("`is` between two symbolic values")
                elif isinstance(a, enum.Enum) or isinstance(b, enum.Enum):
                    r = False
                else:
                    raise Unsupported("`is` between symbolic value and %r" % (b if isinstance(a, SV) else a,))
            else:
                r = a is b
            return r if op is ast.Is else (not r)
        if op is ast.In or op is ast.NotIn:
            r = self.contains(b, a)
            if op is ast.In:
                return r
            t = truth(r)
            return (not t) if isinstance(t, bool) else SV(z3.Not(t), "bool")
        if isinstance(a, NativeModel) or isinstance(b, NativeModel):
            # a contract stub that defines the rich comparison itself (array-like stubs returning masks)
            names = {ast.Lt: ("__lt__", "__gt__"), ast.LtE: ("__le__", "__ge__"), ast.Gt: ("__gt__", "__lt__"),
                     ast.GtE: ("__ge__", "__le__"), ast.Eq: ("__eq__", "__eq__"), ast.NotEq: ("__ne__", "__ne__")}.get(op)
            if names is not None:
                for x, y, nm in ((a, b, names[0]), (b, a, names[1])):
                    if isinstance(x, NativeModel) and nm in _all_class_attrs(type(x)):
                        r = getattr(x, nm)(y)
                        if r is not NotImplemented:
                            return r
        if isinstance(a, SymObj) or isinstance(b, SymObj):
            if op in (ast.Eq, ast.NotEq):
                nm = "__eq__" if op is ast.Eq else "__ne__"
                for x, y in ((a, b), (b, a)):
                    if isinstance(x, SymObj):
                        it = _lookup_class_attr(x.cls, nm)
                        if it is not None and it[0] is not getattr(object, nm, None) and isinstance(it[0], types.FunctionType):
                            return self._call_function(it[0], [x, y], {}, defcls=it[1])
                r = a is b
                return r if op is ast.Eq else (not r)
            raise Unsupported("ordering of symbolic objects")
        if not (isinstance(a, SV) or isinstance(b, SV)):
            if is_symbolic(a) or is_symbolic(b):
                if op in (ast.Eq, ast.NotEq) and isinstance(a, (tuple, list)) and isinstance(b, (tuple, list)):
                    if len(a) != len(b) or type(a) is not type(b):
                        return op is ast.NotEq
                    acc = True
                    for x, y in zip(a, b):
                        acc = self._and(acc, self.compare(ast.Eq, x, y))
                    if op is ast.Eq:
                        return acc
                    t = truth(acc)
                    return (not t) if isinstance(t, bool) else SV(z3.Not(t), "bool")
                if op in (ast.Eq, ast.NotEq):
                    # symbolic container vs unrelated concrete (e.g. None): python identity fallback
                    if a is None or b is None:
                        return op is ast.NotEq
                raise Unsupported("comparison of %s and %s" % (type(a).__name__, type(b).__name__))
            return self._native(_CMPOPS[op], [a, b], {})
        if op in (ast.Eq, ast.NotEq):
            r = key_eq(a, b)
            if isinstance(r, bool):
                return r if op is ast.Eq else (not r)
            return SV(r if op is ast.Eq else z3.Not(r), "bool")
        for x, y, flip in ((a, b, False), (b, a, True)):
            if isinstance(y, float) and y in (float("inf"), float("-inf")) and isinstance(x, SV) and x.k in ("int", "real"):
                # every real is strictly between -inf and +inf
                pos = y > 0
                o = {ast.Lt: ast.Gt, ast.Gt: ast.Lt, ast.LtE: ast.GtE, ast.GtE: ast.LtE}[op] if flip else op
                return (o in (ast.Lt, ast.LtE)) if pos else (o in (ast.Gt, ast.GtE))
        ka, kb = kind_of(a), kind_of(b)
        if ka in (None, "name") or kb in (None, "name"):
            if a is None or b is None:
                raise PyRaise(TypeError("'%s' not supported between %s and %s" % (
                    op.__name__, type(a).__name__, type(b).__name__)))
            raise Unsupported("ordering on %r, %r" % (a, b))
        if ka in ("int", "bool") and kb in ("int", "bool"):
            x, y = as_int(a), as_int(b)
        else:
            x, y = as_real(a), as_real(b)
        t = {ast.Lt: x < y, ast.LtE: x <= y, ast.Gt: x > y, ast.GtE: x >= y}[op]
        return SV(t, "bool")

    def contains(self, container, item):
        if isinstance(container, SymMap):
            return SV(self.map_dom(container, item), "bool") if not isinstance(
                self.map_dom(container, item), bool) else self.map_dom(container, item)
        if isinstance(container, SymObj):
            it = _lookup_class_attr(container.cls, "__contains__")
            if it is None:
                raise Unsupported("`in` on %s" % container.cls.__name__)
            m = self.models.find(it[0])
            if m is not None:
                return m(self, [container, item], {})
            return self._call_function(it[0], [container, item], {}, defcls=it[1])
        if isinstance(container, SymSeq):
            raise Unsupported("`in` on symbolic sequence")
        if isinstance(container, SV) and container.k in ("int", "real") and isinstance(item, str) and item and not any(ch.isdigit() or ch in "+-.eE" for ch in item):
            return False          # token model: the text of a number contains no such character (':' in '3.5')
        if not is_symbolic(item) and not is_symbolic(container):
            return self._native(operator.contains, [container, item], {})
        if isinstance(container, (list, tuple, set, frozenset)) or isinstance(container, dict) or \
                type(container).__name__ in ("dict_keys", "OrderedSet", "odict_keys"):
            acc = False
            terms = []
            for x in container:
                r = self.compare(ast.Eq, item, x)
                t = truth(r)
                if isinstance(t, bool):
                    if t:
                        return True
                else:
                    terms.append(t)
            if not terms:
                return False
            return SV(z3.Or(*terms), "bool")
        raise Unsupported("`in` on %s with symbolic operand" % type(container).__name__)

    @staticmethod
    def _mangle(attr, env):
        """private name mangling inside a class body: self.__x -> self._Class__x"""
        if attr.startswith("__") and not attr.endswith("__"):
            cname = env.defcls.__name__ if env.defcls is not None else None
            if cname is None:
                q = getattr(env, "qualname", None) or ""
                q = q.split(":", 1)[-1]
                if "." in q:
                    cname = q.rsplit(".", 1)[0].split(".")[-1]
            if cname and cname != "<locals>":
                return "_%s%s" % (cname.lstrip("_"), attr)
        return attr

    def e_Attribute(self, e, env):
        return self.getattr(self.eval(e.value, env), self._mangle(e.attr, env))

    def getattr(self, obj, attr):
        if isinstance(obj, SymObj):
            return self.sym_getattr(obj, attr)
        if isinstance(obj, (SV, SymMap, SymSeq)):
            return self.sym_builtin_attr(obj, attr)
        if isinstance(obj, _Super):
            it = _lookup_class_attr(obj.start, attr, after=obj.after)
            if it is None:
                raise PyRaise(AttributeError(attr))
            f, dc = it
            if isinstance(f, property):
                return self._call_function(f.fget, [obj.obj], {}, defcls=dc)
            if isinstance(f, types.FunctionType):
                return BoundMethod(f, obj.obj, dc)
            if isinstance(f, (classmethod,)):
                return BoundMethod(f.__func__, obj.start, dc)
            if isinstance(f, staticmethod):
                return f.__func__
            # C-level slot wrappers (object.__init__, ...)
            if isinstance(obj.obj, SymObj):
                return _NoOp()
            return getattr(super(obj.after, obj.obj), attr)
        # concrete object: properties of wntr classes whose evaluation may touch symbolic fields are
        # not possible here (no symbolic values inside concrete objects) -> native
        try:
            return getattr(obj, attr)
        except Unsupported:
            raise
        except Exception as ex:
            raise PyRaise(ex)

    def sym_builtin_attr(self, obj, attr):
        m = self.models.find("sym:%s.%s" % (type(obj).__name__, attr))
        if m is not None:
            return _Partial(m, obj)
        if isinstance(obj, SymMap) and attr in ("pop", "get"):
            return _Partial(_symmap_pop if attr == "pop" else _symmap_get, obj)
        if os.environ.get("PYVC_TRACE"):
            import sys as _s
            fr = _s._getframe()
            while fr is not None:
                if fr.f_code.co_name == "exec" and "s" in fr.f_locals and "env" in fr.f_locals:
                    print("PYVC_TRACE at %s line %s" % (getattr(fr.f_locals["env"], "qualname", "?"), getattr(fr.f_locals["s"], "lineno", "?")), file=_s.stderr)
                fr = fr.f_back
        raise Unsupported("attribute %s of symbolic %s" % (attr, type(obj).__name__))

    def sym_getattr(self, obj, attr):
        if attr == "__class__":
            return obj.cls
        if attr == "__dict__":
            return obj.fields
        # data descriptors on the class win over instance fields (python semantics)
        it = _lookup_class_attr(obj.cls, attr)
        if it is not None and isinstance(it[0], property):
            f, dc = it
            m = self.models.find(f.fget)
            if m is not None:
                return m(self, [obj], {})
            return self._call_function(f.fget, [obj], {}, defcls=dc)
        if attr in obj.fields:
            return obj.fields[attr]
        if it is None:
            ga = _lookup_class_attr(obj.cls, "__getattr__")
            if ga is not None:
                return self._call_function(ga[0], [obj, attr], {}, defcls=ga[1])
            has_init = isinstance(getattr(obj.cls, "__init__", None), types.FunctionType)
            exc_cls = StubAttributeError if (has_init and getattr(obj.cls, "__module__", "").startswith("wntr")) else AttributeError
            raise PyRaise(exc_cls("%r object has no attribute %r" % (obj.cls.__name__, attr)))
        f, dc = it
        if isinstance(f, types.FunctionType):
            return BoundMethod(f, obj, dc)
        if isinstance(f, classmethod):
            return BoundMethod(f.__func__, obj.cls, dc)
        if isinstance(f, staticmethod):
            return f.__func__
        if hasattr(f, "__get__") and not isinstance(f, (type,)) and type(f).__name__ in (
                "member_descriptor", "getset_descriptor"):
            raise PyRaise(AttributeError(attr))
        return f

    def setattr(self, obj, attr, v):
        if isinstance(obj, SymObj):
            it = _lookup_class_attr(obj.cls, attr)
            if it is not None and isinstance(it[0], property):
                f, dc = it
                if f.fset is None:
                    raise PyRaise(AttributeError("can't set attribute %r" % attr))
                m = self.models.find(f.fset)
                if m is not None:
                    m(self, [obj, v], {})
                    return
                self._call_function(f.fset, [obj, v], {}, defcls=dc)
                return
            sa = _lookup_class_attr(obj.cls, "__setattr__")
            if sa is not None and isinstance(sa[0], types.FunctionType):
                m = self.models.find(sa[0])
                if m is not None:
                    m(self, [obj, attr, v], {})
                    return
                self._call_function(sa[0], [obj, attr, v], {}, defcls=sa[1])
                return
            obj.fields[attr] = v
            self.path.writes.append((obj, attr, v))
            return
        if isinstance(obj, _Super):
            # super().__setattr__ pattern
            raise Unsupported("setattr through super()")
        if isinstance(obj, NativeModel):
            setattr(obj, attr, v)
            self.path.writes.append((obj, attr, v))
            return
        if is_symbolic(v) and not isinstance(v, (SymObj, NativeModel)):
            raise Unsupported("store of symbolic value into concrete %s.%s" % (type(obj).__name__, attr))
        try:
            setattr(obj, attr, v)
        except Exception as ex:
            raise PyRaise(ex)

    def delattr(self, obj, attr):
        if isinstance(obj, SymObj):
            if attr in obj.fields:
                del obj.fields[attr]
                return
            raise PyRaise(AttributeError(attr))
        try:
            delattr(obj, attr)
        except Exception as ex:
            raise PyRaise(ex)

    def eval_slice(self, sl, env):
        if isinstance(sl, ast.Slice):
            return slice(self.eval(sl.lower, env) if sl.lower else None,
                         self.eval(sl.upper, env) if sl.upper else None,
                         self.eval(sl.step, env) if sl.step else None)
        if isinstance(sl, ast.Tuple) and any(isinstance(x, ast.Slice) for x in sl.elts):
            return tuple(self.eval_slice(x, env) for x in sl.elts)      # a[:, mask]
        return self.eval(sl, env)

    def e_Subscript(self, e, env):
        return self.getitem(self.eval(e.value, env), self.eval_slice(e.slice, env))

    # ---- maps

    def map_dom(self, m, k):
        """z3 Bool / bool: k in m (with overlay)."""
        cur = m.dom(k)
        if not m.overlay and not isinstance(cur, bool):
            self.path.assume(z3.Implies(cur, z3.Bool("nonempty!%s!%d" % (m.label, m.uid))))
        for (wk, wv) in m.overlay:
            eq = key_eq(wk, k)
            if isinstance(eq, bool):
                if eq:
                    cur = wv is not SymMap.DELETED
            else:
                present = wv is not SymMap.DELETED
                cur = z3.If(eq, z3.BoolVal(present), cur if not isinstance(cur, bool) else z3.BoolVal(cur))
        return cur

    def map_get(self, m, k):
        """value at k assuming k in dom."""
        for (wk, wv) in reversed(m.overlay):
            eq = key_eq(wk, k)
            if isinstance(eq, bool):
                if eq:
                    if wv is SymMap.DELETED:
                        raise PathEnd("read of deleted key under dom assumption")
                    return wv
                continue
            if self.path.branch(eq):
                if wv is SymMap.DELETED:
                    raise PathEnd("read of deleted key under dom assumption")
                return wv
        return m.get(k)

    def getitem(self, obj, idx):
        if isinstance(obj, SymMap):
            d = self.map_dom(obj, idx)
            if not self.path.branch(d):
                self.path.events.append(("KeyError", obj.label, idx))
                raise PyRaise(KeyError((obj.label, idx)))
            return self.map_get(obj, idx)
        if isinstance(obj, SymSeq):
            i = as_int(idx)
            n = obj.len_term()
            if not self.path.branch(z3.And(i >= -n, i < n)):
                raise PyRaise(IndexError("sequence index out of range"))
            if not self.path.branch(i >= 0):
                i = i + n
            return obj.elem(i)
        if isinstance(obj, SymObj):
            r = self._dunder(obj, "__getitem__", [idx])
            if r is NotImplemented:
                raise PyRaise(TypeError("%s is not subscriptable" % obj.cls.__name__))
            return r
        if isinstance(obj, NativeModel):
            if not hasattr(obj, "__getitem__"):
                raise Unsupported("the contract's stub is incomplete for the code as it now is: %s is not subscriptable" % type(obj).__name__)
            return obj[idx]
        if isinstance(idx, SV):
            if isinstance(obj, (list, tuple)) and idx.k == "int":
                n = len(obj)
                i = idx.t
                if not self.path.branch(z3.And(i >= -n, i < n)):
                    raise PyRaise(IndexError("list index out of range"))
                # fork over the concrete positions
                for j in range(-n, n):
                    if self.path.branch(i == j):
                        return obj[j]
                raise PathEnd("infeasible index")
            if isinstance(obj, dict):
                for kk in obj:
                    eq = key_eq(kk, idx)
                    if self.path.branch(eq if not isinstance(eq, bool) else eq):
                        return obj[kk]
                raise PyRaise(KeyError(idx))
            raise Unsupported("symbolic index into %s" % type(obj).__name__)
        if isinstance(obj, SV):
            raise Unsupported("subscript of symbolic scalar")
        try:
            return obj[idx]
        except Unsupported:
            raise
        except Exception as ex:
            raise PyRaise(ex)

    def setitem(self, obj, idx, v):
        if isinstance(obj, SymMap):
            obj.overlay.append((idx, v))
            self.path.writes.append((obj, idx, v))
            return
        if isinstance(obj, SymObj):
            r = self._dunder(obj, "__setitem__", [idx, v])
            if r is NotImplemented:
                raise PyRaise(TypeError("%s does not support item assignment" % obj.cls.__name__))
            return
        if isinstance(idx, SV):
            # a concrete dict keyed by one symbolic name: exact as long as no other key could alias it
            if isinstance(obj, dict) and idx.k == "name" and all(isinstance(k, SV) and k.t.eq(idx.t) for k in obj):
                obj[idx] = v
                return
            if isinstance(obj, NativeModel) and "__setitem__" in _all_class_attrs(type(obj)):
                obj[idx] = v          # a contract stub that defines item assignment itself
                return
            raise Unsupported("store at symbolic index into %s" % type(obj).__name__)
        if is_symbolic(v) and not isinstance(obj, (list, dict)) and not (isinstance(obj, NativeModel) and hasattr(type(obj), "__setitem__")):
            raise Unsupported("store of symbolic value into %s" % type(obj).__name__)
        try:
            obj[idx] = v
        except Exception as ex:
            raise PyRaise(ex)

    def delitem(self, obj, idx):
        if isinstance(obj, SymMap):
            d = self.map_dom(obj, idx)
            if not self.path.branch(d):
                raise PyRaise(KeyError((obj.label, idx)))
            obj.overlay.append((idx, SymMap.DELETED))
            self.path.writes.append((obj, idx, SymMap.DELETED))
            return
        if isinstance(obj, SymObj):
            r = self._dunder(obj, "__delitem__", [idx])
            if r is NotImplemented:
                raise PyRaise(TypeError("%s does not support item deletion" % obj.cls.__name__))
            return
        if isinstance(idx, SV):
            raise Unsupported("delete at symbolic index")
        try:
            del obj[idx]
        except Exception as ex:
            raise PyRaise(ex)

    # ---- comprehensions

    def _map_seq(self, e, g, seq, env):
        """[elt for target in <SymSeq>] -> lazily mapped SymSeq (no filter); the element expression is
        evaluated when an index is requested."""
        base_locals = dict(env.locals)

        def elem(i):
            sub = Env(dict(base_locals), env.globals, env.closure, env.defcls, env.selfobj)
            sub.qualname = getattr(env, "qualname", None)
            sub.loop_ordinal = 1000
            self.assign(g.target, seq.elem(i), sub)
            return self.eval(e.elt, sub)
        return SymSeq(seq.length, elem, label="map(%s)" % seq.label, facts=seq.facts)

    def _comp(self, e, env, emit, first_iter=None):
        sub = Env(dict(env.locals), env.globals, env.closure, env.defcls, env.selfobj)
        sub.qualname = getattr(env, "qualname", None)
        sub.loop_ordinal = 1000
        sub.sum_ids = getattr(env, "sum_ids", {})

        def rec(i):
            if i == len(e.generators):
                emit(sub)
                return
            g = e.generators[i]
            src = first_iter if (i == 0 and first_iter is not None) else self.eval(g.iter, sub)
            for x in self.iterate(src):
                self.assign(g.target, x, sub)
                ok = True
                for c in g.ifs:
                    if not self.path.branch(self.truth(self.eval(c, sub))):
                        ok = False
                        break
                if ok:
                    rec(i + 1)
        rec(0)

    def e_ListComp(self, e, env):
        out = []
        first = self.eval(e.generators[0].iter, env)
        if isinstance(first, SymSeq):
            if len(e.generators) != 1 or e.generators[0].ifs:
                raise Unsupported("nested/filtered comprehension over a symbolic sequence (line %d)" % e.lineno)
            return self._map_seq(e, e.generators[0], first, env)
        self._comp(e, env, lambda sub: out.append(self.eval(e.elt, sub)), first_iter=first)
        return out

    def e_GeneratorExp(self, e, env):
        return self.e_ListComp(e, env)

    def e_SetComp(self, e, env):
        out = self.e_ListComp(e, env)
        if is_symbolic(out):
            raise Unsupported("set comprehension with symbolic elements")
        return set(out)

    def e_DictComp(self, e, env):
        out = {}

        def emit(sub):
            k = self.eval(e.key, sub)
            if is_symbolic(k):
                raise Unsupported("dict comprehension with symbolic key")
            out[k] = self.eval(e.value, sub)
        self._comp(e, env, emit)
        return out

    # ---- calls

    def e_Call(self, e, env):
        # zero-argument super()
        if isinstance(e.func, ast.Name) and e.func.id == "super" and not e.args:
            if env.defcls is None:
                raise Unsupported("super() without a known defining class")
            obj = env.selfobj
            start = obj.cls if isinstance(obj, SymObj) else (obj if isinstance(obj, type) else type(obj))
            return _Super(obj, start, env.defcls)
        f = self.eval(e.func, env)
        args = []
        for a in e.args:
            if isinstance(a, ast.Starred):
                args.extend(self.iterate(self.eval(a.value, env)))
            else:
                args.append(self.eval(a, env))
        kwargs = {}
        for k in e.keywords:
            if k.arg is None:
                kwargs.update(self.eval(k.value, env))
            else:
                kwargs[k.arg] = self.eval(k.value, env)
        so = getattr(env, "sum_ids", {}).get(id(e))
        if so is not None:
            self.call_site = (getattr(env, "qualname", None), so)
            self.call_env = env
            try:
                return self.call(f, args, kwargs)
            finally:
                self.call_site = None
        return self.call(f, args, kwargs)


def _has_sv(x, depth=4):
    """True if x contains a z3-valued scalar (whose equality is not python identity)."""
    if isinstance(x, SV):
        return True
    if depth > 0 and isinstance(x, (tuple, list, set, frozenset)):
        return any(_has_sv(y, depth - 1) for y in x)
    return False


_MISSING = object()


def _symmap_pop(interp, args, kw):
    m, key = args[0], args[1]
    default = args[2] if len(args) > 2 else _MISSING
    d = interp.map_dom(m, key)
    if interp.path.branch(d):
        v = interp.map_get(m, key)
        m.overlay.append((key, SymMap.DELETED))
        interp.path.writes.append((m, key, SymMap.DELETED))
        return v
    if default is _MISSING:
        raise PyRaise(KeyError((m.label, key)))
    return default


def _symmap_get(interp, args, kw):
    m, key = args[0], args[1]
    default = args[2] if len(args) > 2 else None
    if interp.path.branch(interp.map_dom(m, key)):
        return interp.map_get(m, key)
    return default


class _NoOp:
    pass


class _Partial:
    def __init__(self, m, obj):
        self.m, self.obj = m, obj


class _Super:
    def __init__(self, obj, start, after):
        self.obj, self.start, self.after = obj, start, after


def _lookup_class_attr(cls, name, after=None):
    """(raw attribute, defining class) through the real MRO (no descriptor binding)."""
    mro = cls.__mro__
    if after is not None:
        mro = mro[mro.index(after) + 1:] if after in mro else ()
    for c in mro:
        if name in c.__dict__:
            return c.__dict__[name], c
    return None


def _defining_class(cls, name):
    it = _lookup_class_attr(cls, name)
    return it[1] if it else None


def _call_partial_or_noop(interp, f, args, kwargs):
    if isinstance(f, _NoOp):
        return None
    if isinstance(f, _Partial):
        return f.m(interp, [f.obj] + list(args), kwargs)
    return None


_orig_call = Interp._call


def _call_ext(self, f, args, kwargs):
    if isinstance(f, (_NoOp, _Partial)):
        return _call_partial_or_noop(self, f, args, kwargs)
    if f is object.__new__ and args and isinstance(args[0], type):
        return SymObj(args[0], {}, label="new " + args[0].__name__)
    return _orig_call(self, f, args, kwargs)


Interp._call = _call_ext
