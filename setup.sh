#!/bin/bash
# Builds the overlay venv /verif/.venv offline: python 3.12 (= /venv, which has wntr editable -> /repo
# and its deps) plus z3-solver, cvc5, icontract, deal, crosshair-tool from /opt/veriftools/wheels.
set -e
cd "$(dirname "$0")"
V=.venv
SP=$V/lib/python3.12/site-packages
if [ -x $V/bin/python ] && $V/bin/python -c "import z3, wntr" 2>/dev/null; then
  echo "setup: .venv already usable"; exit 0
fi
rm -rf $V
/venv/bin/python -m venv $V --without-pip
echo "import site; site.addsitedir('/venv/lib/python3.12/site-packages')" > $SP/_base.pth
PIP_NO_INDEX=1 /venv/bin/python -m pip install -q --no-index --find-links /opt/veriftools/wheels \
   --target $SP z3-solver cvc5 icontract deal crosshair-tool jsonschema 2>&1 | tail -3 || true
$V/bin/python -c "import z3, cvc5, icontract, wntr, numpy; print('setup ok: z3', z3.get_version_string(), 'wntr', wntr.__file__)"
