#!/bin/bash
# usage: tools_seed_confirm.sh <PID> <k> [full]  : confirms a candidate seeded change in a scratch copy of /repo HEAD
#   demo passes unchanged, fails changed; (full) the pinned test suite passes with the change. Results -> /tmp/seedrun/<PID>_<k>.json
pid=$1; k=$2; full=$3
src=/tmp/seed/out_$pid/$k
W=$(mktemp -d /tmp/seedrun/w_${pid}_${k}_XXXX)
git -C /repo archive HEAD | tar -x -C $W
cp /repo/wntr/sim/aml/_evaluator*.so $W/wntr/sim/aml/; cp /repo/wntr/sim/network_isolation/_network_isolation*.so $W/wntr/sim/network_isolation/
cd $W
PYTHONPATH=$W /venv/bin/python $src/demo.py > $W/demo_unchanged.log 2>&1; r0=$?
patch -p1 -s < $src/patch.diff > $W/patch.log 2>&1; rp=$?
PYTHONPATH=$W /venv/bin/python $src/demo.py > $W/demo_changed.log 2>&1; r1=$?
rt=-1; summary=""
if [ -n "$full" ]; then
  /venv/bin/python -m pytest -q -p no:cacheprovider --timeout=900 --deselect wntr/tests/test_demos.py wntr/tests > $W/tests.log 2>&1
  summary=$(tail -1 $W/tests.log)
  fails=$(grep "^FAILED" $W/tests.log | sort | tr '\n' ';')
fi
python3 - <<PY
import json
json.dump(dict(pid="$pid", k="$k", demo_unchanged_exit=$r0, patch_exit=$rp, demo_changed_exit=$r1, tests_summary="""$summary""", tests_failed="""$fails"""), open("/tmp/seedrun/${pid}_${k}.json","w"), indent=1)
PY
tail -3 $W/demo_changed.log > /tmp/seedrun/${pid}_${k}.demo_changed.txt
rm -rf $W
