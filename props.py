"""Per-property metadata used by the evidence writer (level, explanation, what is not decided)."""

AML_TRUST = "wntr.sim.aml operators/Constraint/ConditionalExpression denote real arithmetic (DESIGN 2.5); Python half discharged by C15, C++ half bounded"
CPP_TRUST = "C++ evaluator.cpp / network_isolation.cpp: outside any verifier present; bounded differential checks only"

PROPS = {
    "C17": dict(
        level="proof",
        explanation="Every (param, flow unit, mass unit, reaction order) case of HydParam/QualParam._to_si/_from_si and the "
                    "to_si/from_si dispatchers is symbolically executed from the real source with a symbolic real value; obligations: "
                    "result = k*x with k equal to the physical constant table written from the property statement, exact inverse "
                    "round trips in both directions, dispatch raises only for a non-param. Containers (list/ndarray/dict/DataFrame) are a bounded stand-in.",
        trusted_base=["numpy scalar arithmetic == real arithmetic", "np.sqrt/np.power on constants evaluated natively"],
        not_decided=["float rounding of the conversions (floats are reals here)"],
        assumptions=["spec constants: gal=3.785411784 L, ft=0.3048 m, psi=0.3048/0.4333 m, hp=745.699872 W, in=0.0254 m, acre-ft=43560 ft3, Imp gal=4.54609 L; "
                     "relative tolerance 1e-8 on EPANET's rounded constants (CFS 0.0283168466, AFD 1233.48184), 1e-5 on ft2=0.092903"],
    ),
}


def get(pid):
    return PROPS[pid]

# properties not claimed (kept current by hand): id -> reason
NA = {}
