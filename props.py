"""Per-property metadata used by the evidence writer (level, explanation, what is not decided)."""

AML_TRUST = "wntr.sim.aml operators/Constraint/ConditionalExpression denote real arithmetic (DESIGN 2.5); Python half discharged by C15, C++ half bounded"
CPP_TRUST = "C++ evaluator.cpp / network_isolation.cpp: outside any verifier present; bounded differential checks only"

PROPS = {
    "C17": dict(
        level="proof",
        explanation="Every (param, flow unit, mass unit, reaction order) case of HydParam/QualParam._to_si/_from_si and the "
                    "to_si/from_si dispatchers is symbolically executed from the real source with a symbolic real value; obligations: "
                    "result = k*x with k equal to the physical constant table written from the property statement, exact inverse "
                    "round trips in both directions, dispatch raises only for a non-param. Containers (list/ndarray/dict/DataFrame) are a bounded stand-in.",
        trusted_base=["numpy scalar arithmetic == real arithmetic", "np.sqrt/np.power on constants evaluated natively"],
        not_decided=["float rounding of the conversions (floats are reals here)"],
        assumptions=["spec constants: gal=3.785411784 L, ft=0.3048 m, psi=0.3048/0.4333 m, hp=745.699872 W, in=0.0254 m, acre-ft=43560 ft3, Imp gal=4.54609 L; "
                     "relative tolerance 1e-8 on EPANET's rounded constants (CFS 0.0283168466, AFD 1233.48184), 1e-5 on ft2=0.092903"],
    ),
}


def get(pid):
    return PROPS[pid]

# properties not claimed (kept current by hand): id -> reason
NA = {}

PROPS["C04"] = dict(
    level="proof",
    explanation="SimTimeCondition.evaluate and TimeOfDayCondition.evaluate are executed symbolically from the real source for every "
                "relation / repeat / first_day case over symbolic integer times; posts are written from the property text "
                "(fires iff a configured instant lies in (prev, cur], backtrack lands on that instant, range relations true exactly on the interval).",
    trusted_base=["np.floor on symbolic reals == floor"],
    not_decided=[],
    assumptions=["simulation times are integer seconds (run_sim refuses sub-second steps)"],
)

PROPS["C08"] = dict(
    level="proof",
    explanation="leak_constraint.build is executed symbolically for an arbitrary junction/tank name (independent-iteration rule) "
                "in every (node kind, leak_status, isolated, fresh/update) case; post: the registered row denotes leak - lambda(p) with the "
                "three-branch lambda written from the property text; key-domain safety obligations are generated automatically.",
    trusted_base=[AML_TRUST], not_decided=[], assumptions=[],
)

PROPS["C07"] = dict(
    level="proof",
    explanation="pdd_constraint.build executed symbolically for an arbitrary junction; the row denotes d - D*ghat(p) with the five-branch "
                "ghat written from the documentation; pmin/pnom/pdd_poly_coeffs params and cubic_spline under contract; lemma: continuity at the "
                "four joins, values at/below Pmin and at/above Preq, monotonicity, per-junction override frame.",
    trusted_base=[AML_TRUST], not_decided=[], assumptions=[],
)
PROPS["C01"] = dict(
    level="proof",
    explanation="mass-balance builders proved for arbitrarily many inlet/outlet links via prefix-sum loop invariants; "
                "store_results/save_results/get_links_for_node/Demands.at under contract (see functions_under_contract).",
    trusted_base=[AML_TRUST, CPP_TRUST], not_decided=["floating point"], assumptions=[],
)

PROPS["C02"] = dict(
    level="proof",
    explanation="every head-loss builder executed symbolically for an arbitrary link in every (user status, internal status, isolated, end-node kinds) case; "
                "rows compared with the law of the type written from the property text; params, constants, cubic_spline, status properties under contract.",
    trusted_base=[AML_TRUST, CPP_TRUST], not_decided=["pumps never report reverse flow (emergent, network-level)", ">=3-point pump curve fit (scipy curve_fit) is bounded only"], assumptions=[],
)

RT_TRUST = "RegInv (C14): typed iterators / get_links_for_node / registries enumerate exactly the registered elements (assumed where C14's own obligations are not yet discharged)"

PROPS["C01"]["explanation"] = (
    "mass-balance builders proved for arbitrarily many inlet/outlet links via prefix-sum loop invariants; the demand chain "
    "Pattern.at / TimeSeries.at / Demands.at (loop invariant over the demand entries) / expected_demand_param / demand_var, and "
    "store_results_in_network (sum rule over in/out links) and save_results are executed symbolically from the real source for an "
    "arbitrary element of each kind (independent-iteration rule with havoc of loop-carried locals); lemmas compose row + stored results "
    "into the reported balance and the demand formula. Counter-models are replayed on real wntr objects.")
PROPS["C01"]["trusted_base"] = [AML_TRUST, CPP_TRUST, RT_TRUST]
PROPS["C01"]["not_decided"] = ["floating point", "WaterNetworkModel.get_links_for_node itself (C14) is an assumed contract here"]

PROPS["C04"]["explanation"] += (
    " _compute_next_timestep_and_run_presolve_controls_and_rules is executed from the real source against protocol stubs with ghost "
    "state (K=2 due controls, R=2 rules, all values symbolic; unbounded rule grid by loop invariant + variant; the two stable sorts executed "
    "exactly): rules are evaluated with sim_time at positive multiples of the rule timestep in increasing order, controls act in time order "
    "and ascending priority (highest last), the step stops exactly at the first change. run_sim's entry code establishes the rule-grid invariant. "
    "And/Or backtrack, Rule action selection, ControlChecker.check and control actions are under contract (shared with C05).")

PROPS["C05"] = dict(
    level="proof",
    explanation="ValueCondition / TankLevelCondition (cylindrical tanks: partial-step backtrack lands within one second of flow past the threshold) / "
                "RelativeCondition / And / Or conditions, ControlAction and _InternalControlAction (which attribute is written, observers notified), "
                "Rule action selection, ControlChecker.check (3 controls), ControlChangeTracker.update/changes_made, the internal CV/pump/valve status "
                "conditions and _get_all_tank_controls are executed symbolically from the real source; the run_sim protocol contract proves that results "
                "are saved only for a converged, stored state after which post-solve and feasibility controls ran and changed nothing (a reported step "
                "is a fixed point of the conditional controls). _run_postsolve_controls / _run_feasibility_controls are under contract (exactly the due controls "
                "run once each in ascending priority between setting and removing the change tracker's reference point).",
    trusted_base=["np.round(x, 10) is the identity (float == R)", RT_TRUST],
    not_decided=["TankLevelCondition with a volume curve of more than three points (three-point curves: contracts/c06_tanks.py)", "the step converged and the trial limit was not hit (premise of the property)",
                 ],
    assumptions=[],
)
PROPS["C06"] = dict(
    level="proof",
    explanation="update_tank_heads (cylindrical tanks of any diameter and volume-curve tanks with a three-point curve of symbolic coordinates: stored volume changes "
                "by net inflow x elapsed time, integrating from the previous solved head), "
                "update_network_previous_values, Tank.get_volume / level / init_level, TankLevelCondition's backtrack bound and "
                "WNTRSimulator._get_all_tank_controls (which links are closed at min/max head before and after each solve, re-open thresholds) are "
                "executed symbolically from the real source; lemma: overshoot below two seconds of the tank's flow.",
    trusted_base=[RT_TRUST],
    not_decided=["tanks with a volume curve of more than three points: bounded stand-in C06.volume_curve_tanks only (three-point curves with symbolic coordinates are "
                 "under contract: volume identity, get_volume, partial-step bound of the level controls; np.interp modelled as documented). Pre-survey finding 18 was "
                 "repaired by fix 3e76046b; its scenario is part of the stand-in",
                 "first step: no backtracking at t=0"],
    assumptions=[],
)
PROPS["C16"] = dict(
    level="proof",
    explanation="NewtonSolver.solve (loop invariants over both loops, ghost 'vector loaded in the model': converged only if the loaded residual is below "
                "tol; every other exit is error; bounded by maxiter / bt_maxiter), _solver_helper, and the run_sim protocol executed from the real source "
                "against contract stubs with ghost state: a failed step (after the optional backup solver) or exhausted trials stops the run - RuntimeError "
                "iff convergence_error, otherwise warning + error_code - and nothing is saved afterwards; saved times strictly increase, lie on the report "
                "grid and each save has exactly one time entry; the loop terminates (lexicographic variant). save_results / update_network_previous_values "
                "are under contract (one entry per list per element); get_results (one row per saved time, one column per element, entries as saved; "
                "numpy / pandas table construction modelled) and _setup_sim_options (effective report step a positive multiple of the effective hydraulic "
                "step, never above the configured ones, options untouched) are under contract.",
    trusted_base=["aml.Model get_x/load_var_values_from_x/evaluate_residuals (C15)", "scipy.sparse.linalg.spsolve returns a vector or raises MatrixRankWarning", RT_TRUST],
    not_decided=["results contain only finite numbers (floats are reals here)"],
    assumptions=["maxiter >= 1, bt_maxiter >= 1, max_trials >= 0, rule_timestep > 0, hydraulic_timestep >= 1"],
)

PROPS["C09"] = dict(
    level="proof",
    explanation="Python side proved from the real source: the builders' isolated branches (no mass-balance / PDD / leak row for an isolated junction, "
                "row 'flow = 0' for an isolated link, normal row otherwise), zeroing in store_results_in_network / save_results, "
                "_update_internal_graph (csr entry of a node pair is 1 iff some link of the pair is not closed; parallel links), "
                "_get_isolated_junctions_and_links (flags exactly the junctions whose indicator stayed 1 and their links, clears previous flags, "
                "tells the model updater) and update_model_for_isolated_junctions_and_links (rows rebuilt for exactly the elements whose isolation "
                "changed, hence reconnecting restores normal rows). The scipy CSR construction in _initialize_internal_graph and the C++ "
                "check_for_isolated_junctions are a bounded stand-in: every small network of the stated scope is simulated and each reported step is "
                "compared with a reference breadth-first search.",
    trusted_base=[AML_TRUST, "C++ network_isolation.cpp and scipy CSR layout: bounded end-to-end stand-in only (C09.end_to_end)", RT_TRUST],
    not_decided=["check_for_isolated_junctions (C++) and _initialize_internal_graph for networks beyond the bounded scope"],
    assumptions=[],
    rule="bounded: networks enumerated exhaustively up to the stated size; distinct = distinct (link subset, closed labelling, toggle) triples",
)

PROPS["C10"] = dict(
    level="other",
    explanation="Partial claim. Decided deductively: run_sim's entry code establishes the main-loop invariant for a resumed model (prev < sim_time, "
                "next rule instant after the last solved time, saved times strictly after every earlier one - cases start=resume of the run_sim protocol "
                "contract), _compute_next_timestep never returns a time <= the last solved time, update_tank_heads integrates from the previous solved "
                "head and update_network_previous_values snapshots what the next step reads. Bounded: pause / pickle / continue vs one run on the listed "
                "networks and pause points (heads, demands, flows, statuses equal to 1e-6). Not decided: equality for every model (determinism of "
                "numpy/scipy assumed), completeness of the simulator-object state frame (attributes re-derived at entry).",
    trusted_base=["pickle round trip preserves the model (exercised by the bounded stand-in only)", RT_TRUST],
    not_decided=["numerical equality of concatenated results for every model", "frame of simulator-object state re-derived on entry (internal graph, control managers): by code reading, not by an obligation"],
    assumptions=[],
    rule="bounded: networks x optional added ELSE rule x pause points; distinct = distinct (network, rule, pause) triples",
)

PROPS["C03"] = dict(
    level="other",
    explanation="Partial claim. Agreement of two independent numerical solvers is a whole-program differential property: no function contract "
                "states it. Decided deductively: (1) BinFile.read's conversion block - cut mechanically out of the current source on every run "
                "(pyvc.extract; dropped: the binary parsing and DataFrame assembly before it, the epilogue after it) and executed symbolically for an "
                "arbitrary table entry and link type under each of the ten flow units: every reported head / pressure / demand / flow / velocity / "
                "headloss is the raw EPANET value times the factor of its own physical quantity (constants written from the property text), and the "
                "status table maps EPANET's codes 0-2 / 3 / 4 / 5-7 to Closed / Open / Active / Open; counter-models are replayed on real pandas / "
                "numpy; (2) the util conversion functions are the physical constants and mutually inverse (C17 contracts, tagged C03); (3) lemma: "
                "with the writer's from_si (C12 pairing contracts) and EPANET equivariant under its unit systems (assumption on the external "
                "binary) the SI results do not depend on the INP flow unit. Bounded differentials against the EPANET 2.2 library shipped in the "
                "repository: EPANET stepped through its toolkit API vs BinFile.read for 10 units (decides the binary layout parsing independently of "
                "wntr.epanet.util); EpanetSimulator across the 10 units; EPANET on the original INP text vs EpanetSimulator on the model read from it "
                "(every INP file in the repository EPANET accepts); WNTRSimulator vs EpanetSimulator (DD and PDD) on the listed common-feature "
                "networks at every report step.",
    trusted_base=["EPANET 2.2 shared library (prebuilt binary in wntr/epanet/libepanet): external, trusted; assumed equivariant under its unit systems",
                  "pandas / numpy elementwise arithmetic and boolean-mask assignment (array stub in the symbolic run; real in replay and cross-check)",
                  "wntr.epanet.toolkit ctypes wrapper (used by the bounded oracle)"],
    not_decided=["agreement of the two solvers on networks outside the listed ones (e.g. generated networks with pumps/valves in every unit)",
                 "link 'setting', quality and reaction-rate tables of BinFile.read", "control-timing agreement beyond the listed networks' schedules",
                 "Anytown under PDD: EPANET's own results differ between unit systems by O(1) in the flows (ill-conditioned; excluded, not a WNTR defect)"],
    assumptions=["tolerances (relative to full scale): toolkit vs binary 2e-5, across units 3e-3, reader validation 3e-4, WNTR vs EPANET 3e-3; statuses exact"],
    rule="bounded: listed networks x flow units x demand model; distinct = distinct (network, unit / demand model) pairs",
)

PROPS["C20"] = dict(
    level="proof",
    explanation="Deductive core: Pattern.at / TimeSeries.at / Demands.at (pattern value at a time, base x pattern, sum over the entries x multiplier, "
                "category filter; loop invariant), expected_demand (entry for an arbitrary junction and grid time is Demands.at(time + pattern_start, "
                "demand multiplier, category) - the value expected_demand_param gives the simulator in demand-driven mode), _gcd (Euclid loop invariant "
                "and variant), _lcm. Bounded stand-ins (pandas): average_expected_demand (mean over one common period), population, "
                "water_service_availability, todini_index, modified_resilience_index, tank_capacity, pump power/energy/cost, annual_network_cost and "
                "annual_ghg_emissions against independently written documented formulas on random tables and example networks.",
    trusted_base=["pandas elementwise arithmetic / sum / mean (bounded stand-ins only)", RT_TRUST],
    not_decided=["the pandas table metrics for arbitrary tables (bounded only)", "tank_capacity for volume-curve tanks", "meaning of 'eff' in the maximum-pump-power formula (percent vs fraction): taken as the code passes it"],
    assumptions=["times and pattern timestep are integers"],
    rule="bounded: random tables / example networks; distinct = distinct (metric, shape) or (network, check) pairs",
)

PROPS["C19"] = dict(
    level="proof",
    explanation="_split_or_break_pipe (the body of split_pipe and break_pipe) is executed symbolically from the real source for a pipe without vertices in "
                "every (split/break, side, end-node kinds incl. reservoir ends, check valve, return_copy) case: total length preserved with the requested "
                "fraction on the requested side, junction elevation and coordinates at the fraction, new pipe copies diameter/roughness/minor loss and has "
                "no check valve, split shares one junction and break uses two, connectivity and usage records moved, every other element untouched, the "
                "input model untouched with return_copy, refused requests (name clash, not a pipe, fraction outside [0,1]) change nothing. Bounded: pipes "
                "with vertices on random polylines, hydraulics before/after a split on Net1/Net3, skeletonize on example networks x thresholds x options "
                "(sources/pumps/valves/control elements kept, total demand per time conserved, skeleton map a partition).",
    trusted_base=["WaterNetworkModel.add_junction/add_pipe/get_node/get_link (C14)", "copy.deepcopy"],
    not_decided=["hydraulic equivalence of a split for every network (bounded by simulation only)", "skeletonize beyond the listed networks (bounded stand-in only; pre-survey finding 20 - a trimmed junction carrying a quality source made skeletonize raise - was repaired by fix 98e24235 and Net2 is part of the stand-in)"],
    assumptions=[],
    rule="bounded: random polylines / listed networks; distinct = distinct parameter tuples",
)

PROPS["C15"] = dict(
    level="proof",
    explanation="Python half proved from the real source: diff_down of every operator (16 unary/binary operators + if_else) adds (adjoint of the node) x (partial "
                "derivative) to each operand's adjoint, incl. the aliased case where both operands are the same node, with the partials written from calculus; "
                "arithmetic of Var/Float/native numbers through the overloaded operators denotes the arithmetic result; Model._increment_*/_decrement_* keep "
                "refcounts and python<->C object maps consistent and never raise; Model.__setattr__/__delattr__ register / unregister every constraint of a "
                "Constraint or ConstraintDict. Bounded: the compiled evaluator, rebuilt from the current C++ sources on every run, against Python reference "
                "semantics (residuals vs Constraint.evaluate, CSR Jacobian rows/columns vs reverse-mode AD, AD vs central differences) on random expression "
                "DAGs and add/remove/set-value histories incl. conditional constraints exactly at their thresholds.",
    trusted_base=["transcendental functions uninterpreted (same symbols in code and spec)", "C++ evaluator.cpp: bounded differential stand-in only (C15.evaluator)"],
    not_decided=["chain-rule accumulation across a whole expression (reverse_ad / reverse_sd sweeps) and get_rpn: bounded only", "evaluation at singular points (division by zero, log 0)"],
    assumptions=["operators are evaluated at regular points"],
    rule="bounded: random models x histories; distinct = distinct (model, step) pairs",
)

PROPS["C18"] = dict(
    level="exploration",
    explanation="Bounded only (no obligation is claimed as proved): valve_segments and valve_segment_attributes are pandas / networkx code whose "
                "specification is reachability in a graph cut by valves; contracts over DataFrame operations and transitive closure are outside what the "
                "VC generator and the SMT solvers can decide. The real functions are run behind a run-time contract over every multigraph and every valve "
                "layer of the stated small scope (exhaustive) against a union-find reference.",
    trusted_base=[],
    not_decided=["graphs beyond the enumerated scope"],
    assumptions=[],
    rule="every multigraph with 2..4 nodes and 1..3 (thorough: 5) links incl. parallel links x every subset of link-end incidences as valve layer; "
         "distinct = distinct (node count, link multiset, valve subset); non-trivial = all of them (each is a different partition problem)",
    technique="bounded stand-in only: exhaustive small-scope run-time contract on the real functions (contract-based deductive verification not applicable: see DESIGN.md)",
)

PROPS["C13"] = dict(
    level="proof",
    explanation="from_dict is executed symbolically from the real source, one element dictionary at a time (junction, tank, reservoir, pipe, head pump, power "
                "pump, six valve types), on a contract stub of the model: the keys are exactly those the real reflective to_dict writes for that class "
                "(computed by running it on a real instance), the numeric values and the tag are symbolic; obligation per (class, key): the value reaches "
                "the constructor parameter or attribute it is read back from. Bounded: to_dict(from_dict(to_dict(wn))), read_json(write_json(wn)) and "
                "appending to an empty model on the enumerated feature models and example networks, compared after JSON normalisation.",
    trusted_base=["WaterNetworkModel.add_* store each parameter in the attribute of the same meaning (C14)", "json / pickle libraries"],
    not_decided=["options, patterns, curves, sources, controls/rules: bounded round trip only (controls go through the INP control/rule text parser, see C12)"],
    assumptions=[],
    rule="bounded: enumerated models x {dict, json, append}; distinct = distinct (model, mode) pairs",
)

PROPS["C12"] = dict(
    level="proof",
    explanation="Deductive core (token model: float(format(v)) = v): the real section writer is executed for an arbitrary element with symbolic attribute values, "
                "its formatted lines are handed as tokens to the real section reader, and what the reader stores must equal the original attributes, in each of "
                "the ten flow-unit systems - [PIPES] (both head-loss formulas, status, check valve), [JUNCTIONS], [RESERVOIRS], [TANKS], [VALVES] (five types), [PUMPS] "
                "(power / head, speed, pattern), [EMITTERS], [ENERGY] prices, [SOURCES] (mass vs concentration), [REACTIONS] under every reaction order, conditional "
                "[CONTROLS], and the [RULES] clause writers with generate_control (IF thresholds, THEN / ELSE values per attribute and valve type). Where the INP "
                "syntax prescribes the unit the written token is compared with the physical constant written from the property text ([CONTROLS], [CURVES] per "
                "curve type, emitters, prices). Bounded (text layer incl. formatting, parsing, section splitting, options, times, patterns, demands, status, mixing, "
                "quality, coordinates, tags): feature models and example networks x 10 units x INP 2.2/2.0, compared through a semantic view after one cycle and "
                "required unchanged by a second cycle; rule condition trees to depth 2; every clock time of a day through every time-text writer / reader pair.",
    trusted_base=["token model of formatted lines (pyvc/values.py:SymStr)", "to_si/from_si inverse with the right factors (C17, proved)"],
    not_decided=["[TIMES] (exhaustive bounded stand-in), [REPORT], coordinates, vertices, tags, time / clock-time simple controls: bounded only",
                 "loss of digits in formatted fields (the statement allows the precision of the file format); MINIMUM/REQUIRED PRESSURE are written with two decimals"],
    assumptions=["names contain no blanks and are not keywords of the [CONTROLS] syntax (TIME, CLOCKTIME, IF, ...)",
                 "a demand category is neither empty nor the text 'none'; a chemical is not named NONE / AGE / TRACE; a pattern is not called '1' unless it is the default"],
    rule="bounded: models x units x versions; distinct = distinct (model, unit system, version) triples",
)

PROPS["C11"] = dict(
    level="proof",
    explanation="Frame obligations recomputed from the current source on every run: the attributes assigned anywhere in the simulation code (wntr/sim/*.py, "
                "wntr/sim/models/*.py and the run / evaluate methods of wntr/network/controls.py; plain and augmented assignments and setattr with a "
                "literal name) are disjoint from the attributes the real to_dict of each element class reads (traced on real instances); the attribute a "
                "ControlAction writes is fixed by ControlAction.__init__ (status -> _user_status, setting -> _setting, leak_status -> _leak_status; own "
                "contract). WaterNetworkModel.reset_initial_values is executed symbolically per element class: every simulation-state attribute returns to "
                "the value of a freshly loaded model. Bounded: to_dict before/after WNTRSimulator and EpanetSimulator runs, reset + rerun and deepcopy "
                "reproduce results, on example and control test networks.",
    trusted_base=["determinism of numpy / scipy (equal inputs give equal results)", RT_TRUST],
    not_decided=["controls that target a definition attribute directly (pump base_speed / power): the action then rewrites the definition by design; not in the bounded scope",
                 "EpanetSimulator.run_sim / InpFile.write bodies: no attribute write reaches the model (bounded by the to_dict comparison only)"],
    assumptions=[],
    rule="bounded: networks x simulators; distinct = distinct (network, simulator, check) triples",
)

PROPS["C14"] = dict(
    level="proof",
    explanation="Representation invariant of the registries proved per operation on an ARBITRARY registry state (uninterpreted membership / usage / cardinality "
                "predicates under RegInv), so every finite edit history preserves it: Registry.add_usage / remove_usage / __delitem__, NodeRegistry and "
                "LinkRegistry __setitem__ / __delitem__ (every link class, same-node ends, speed pattern, curves), CurveRegistry.__delitem__, the Link.start_node "
                "/ end_node setters (incl. both ends on one node), WaterNetworkModel.remove_node / remove_link (a refused removal changes nothing), "
                "get_links_for_node. Posts are over the whole view: touched keys change as specified and an arbitrary other key of every registry is unchanged. "
                "Bounded: random edit histories on real models behind a run-time checker of all views (name lists, counts, typed iterators, to_graph, usage).",
    trusted_base=["OrderedDict / OrderedSet have set / map semantics", "usage sets are abstracted as membership predicate + cardinality (contracts/c14_registry.py:USet)"],
    not_decided=["add_junction / add_tank / add_pipe / add_pump / add_valve / add_curve / add_source bodies, to_graph, describe: bounded (edit histories) only",
                 "SourceRegistry.__delitem__ and the setters that move pattern usage (speed pattern, demand / head patterns): bounded only "
                 "(the curve setters vol_curve_name / pump_curve_name / headloss_curve_name and PatternRegistry.add_pattern are under contract)"],
    assumptions=["names are non-empty strings; distinct declared names are pairwise different (aliasing cases are separate cases)"],
    rule="bounded: random histories; distinct = distinct operation sequences",
)

PROPS["C01"]["explanation"] += (' Also under contract: source_head_param (tank: current head; reservoir: head pattern at simulation time + pattern start) and create_hydraulic_model (which definitions the model consists of per demand model; parameters and variables before constraints; unsupported features refused).')

PROPS["C02"]["explanation"] += (' Also under contract: Pipe / Pump / Valve.status as the full table of (user status, internal status) per link class; create_hydraulic_model (one head-loss law per supported link type); ModelUpdater / update_model_for_controls (a changed status rebuilds exactly the rows registered for it); the internal-graph contracts of C09 (which links are modelled as isolated).')

PROPS["C04"]["explanation"] += ("  The model's clock views (_shifted_time, _prev_shifted_time with the -1 sentinel before the first solve, _clock_time, _clock_day) are under contract; the time-step contract and the run_sim invariant also state that no rule instant is skipped (the next rule instant is the first one after the last accepted time).")

PROPS["C05"]["explanation"] += (" _get_control_managers (which checker holds which controls; the user's controls are registered before the simulator's own), the status tables of every link class, ModelUpdater.add / update, Definition.update and update_model_for_controls are under contract.")

PROPS["C11"]["explanation"] += (" The frame lemma also covers everything reached from the model object or its options in both simulators and the INP writer (only the clock may be assigned); get_head_curve_coefficients leaves the curve's points in the order entered. The bounded stand-in adds option corners, a pump curve entered high-flow point first, a rule registered under another key, and a definition change between two runs compared with a reloaded equal model.")

PROPS["C13"]["explanation"] += (' from_dict is also executed for a junction with several demand entries (each restored with its own base value, pattern and category, in order) and for curves / patterns (points and multipliers in the order given); every keyword of every options constructor is checked exhaustively (bounded).')

PROPS["C14"]["explanation"] += (' Every valve class is enumerated in the LinkRegistry contracts; NodeRegistry.__delitem__ also for junctions whose demand entries share a pattern; a refused curve removal leaves the typed curve sets alone; AndCondition / OrCondition / ControlBase.requires (what remove_* consults) return the union over operands and actions.')

PROPS["C20"]["explanation"] += (' average_expected_demand is under contract (one common period of all patterns and of a day, sampled once per pattern step from the pattern start); the bounded metrics include interpolated patterns off the pattern grid, a report step coarser than the hydraulic step, a reservoir being filled and a volume-curve tank.')

PROPS["C12"]["explanation"] += (" Pairing contracts also cover [QUALITY] (chemical / age / trace x mg / ug), [MIXING], [STATUS] (initial status and the status in force at time "
                                "zero), [DEMANDS] (the section replaces the [JUNCTIONS] entry, order, pattern, category; base value written as a flow), [PATTERNS] (six per "
                                "line, order) and [OPTIONS] (ten units x INP 2.0 / 2.2 x demand model x unbalanced policy x quality mode).")

PROPS["C15"]["explanation"] += (" Also under contract: get_rpn of every operator class (own program = operands' programs in order + opcode, the operands' stored programs left as "
                                "they were), the Leaf.value setter / getter with a stale compiled side, and the order of the reverse sweep (every forward operator list up to "
                                "length 5: each operator once, in decreasing order of first occurrence).")

PROPS["C16"]["explanation"] += (" _solver_helper is under contract for NewtonSolver and for the scipy solvers (converged exactly when scipy reports success, no iteration count); "
                                "the run_sim protocol has cases with such a solver; the arguments of logger calls are evaluated, so an exception while formatting a progress "
                                "line is an exception of run_sim.")

PROPS["C10"]["explanation"] += (" TankLevelCondition.__init__ / _reset are under contract: the crossing memory starts at the current value of the watched attribute (the precondition "
                                "of the evaluate contract, also for the tank controls a continued run builds afresh on the tank's head).")

PROPS["C03"]["explanation"] += (" The differentials include API-built networks for a TCV whose setting a control changes, valves with initial status Open, a rule with two ELSE "
                                "actions (also as INP text for the reader validation) and a low-head network where the pressure-demand relation is active everywhere.")

_COMPANION = (" Bounded companion that does not depend on the shape of the code (labelled bounded, never counted as proved): the property's own observable checked on the reported "
              "results of real WNTRSimulator runs - %s.")
PROPS["C01"]["explanation"] += _COMPANION % "C01.balance_on_runs (flows, demands and leak demands balance at every node at every reported step; files, special and generated networks, DD and PDD)"
PROPS["C02"]["explanation"] += _COMPANION % "C02.laws_on_runs (every link obeys the law of its type and reported status; active PRV / PSV / FCV / TCV, pump curves, both Hazen-Williams forms)"
PROPS["C04"]["explanation"] += _COMPANION % "C04.control_instants (random schedules of time controls and rules with report step ALL: every instant at which the prescribed status changes is a solved step)"
PROPS["C05"]["explanation"] += _COMPANION % "C05.conditional_consistency (every simple control whose condition holds on the reported state finds its target in the commanded state; tank thresholds met by a partial step)"
PROPS["C06"]["explanation"] += _COMPANION % "C06.cylindrical_tanks (volume change = reported net inflow x elapsed time per pair of solved steps, levels within the limits to two seconds of flow)"
PROPS["C07"]["explanation"] += _COMPANION % "C07.curve_on_runs (delivered = requested x documented fraction of the reported pressure)"
PROPS["C08"]["explanation"] += _COMPANION % "C08.leaks_on_runs (leak demand = Cd A sqrt(2 g p) inside its window, zero outside; the window's ends are solved steps)"
PROPS["C09"]["explanation"] += _COMPANION % "C01.balance_on_runs (junctions joined to a source by links that are not closed get their requested demand, junctions cut off from every source report zero)"
PROPS["C16"]["explanation"] += _COMPANION % "C16.fault_injection (solver failures injected at chosen solves: exception iff asked for, otherwise warning + error code, well-formed tables, rows before the failure equal to the fault-free run)"
for _p in ("C01", "C02", "C05", "C08", "C10", "C14"):
    PROPS[_p]["explanation"] += (" A case whose proof is undecided because the code left the subset the stubs / loop specifications cover is also attacked by sampling its precondition "
                                 "on the real code (a real failing input is a violation; no failing input leaves it undecided).")

PROPS["C14"]["explanation"] += (' Also under contract: the curve setters of head pumps, general purpose valves and tanks (the new curve records the element under exactly the record its removal releases; the old curve no longer does) and PatternRegistry.add_pattern (every registered pattern runs on the model clock; a taken name is refused and nothing changes).')
PROPS["C05"]["explanation"] += (' Also under contract (enumerated in full over control class x priority x position of the setting action): WNTRSimulator._get_valve_controls - the status-ACTIVE companion of a setting control keeps the class, condition and priority of the user control; PRV / PSV / FCV get their close (highest priority) / open / active (lowest) controls after the solve and the no-source opening as a feasibility control. save_results reports the status of a link in a cut-off part as its status; Pipe.status has a check-valve row.')
PROPS["C15"]["explanation"] += (' Also under contract: expression.get_vars / get_params / get_floats / _collect_leaves (exactly the leaves under the expression object\'s own last node, also after the object was extended into a longer expression sharing its operator list).')
PROPS["C03"]["explanation"] += (' Also under contract: _EpanetRule.generate_control for every premise list of up to four premises joined by AND / OR - the condition tree read has the truth table of EPANET\'s left-to-right premise evaluation (rules.c, evalpremises; stated in the contract, an assumption on the external engine checked by the differential on an INP text with such rules).')
PROPS["C01"]["explanation"] += (' PatternRegistry.add_pattern: every registered pattern runs on the model clock (also a Pattern object built with time options of its own).')

PROPS["C04"]["explanation"] += (' Also under contract (enumerated in full, contracts/c04_words.py): Comparison.parse (every documented spelling of a relation), _EpanetRule.set_priority (the priority is the number written), Control.__init__ (a time control of any relation is checked before the solve, a tank control before and after, every other after). TimeOfDayCondition.evaluate backtracks to the instant for the relations after / at-or-after too. Bounded: the time notations of [CONTROLS] lines and of the [TIMES] section against the instants written.')
PROPS["C05"]["explanation"] += (' WNTRSimulator._get_cv_controls and _get_pump_controls are under contract as well (which links get internal close / open controls, with which condition class, priority and phase; the status-OPEN companion of a pump-speed control).')
PROPS["C20"]["explanation"] += (' expected_demand_param has a companion over a demand list built through its real constructor (constant first entry, patterned second; creation and update).')
PROPS["C13"]["explanation"] += (' The element instances of the from_dict contract carry numbers for every optional attribute (so each becomes an arbitrary value) and a tank mixing model; the feature models cover every mixing model, options set in another order, None entries and a simulated model.')
PROPS["C09"]["explanation"] += (' WNTRSimulator._initialize_name_id_maps (names and ids are bijective, 0..n-1) is under contract.')
PROPS["C01"]["explanation"] += (' hydraulics.initialize_results_dict (one empty list per element and table, in registration order, no list shared) is under contract.')
