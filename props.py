"""Per-property metadata used by the evidence writer (level, explanation, what is not decided)."""

AML_TRUST = "wntr.sim.aml operators/Constraint/ConditionalExpression denote real arithmetic (DESIGN 2.5); Python half discharged by C15, C++ half bounded"
CPP_TRUST = "C++ evaluator.cpp / network_isolation.cpp: outside any verifier present; bounded differential checks only"

PROPS = {
    "C17": dict(
        level="proof",
        explanation="Every (param, flow unit, mass unit, reaction order) case of HydParam/QualParam._to_si/_from_si and the "
                    "to_si/from_si dispatchers is symbolically executed from the real source with a symbolic real value; obligations: "
                    "result = k*x with k equal to the physical constant table written from the property statement, exact inverse "
                    "round trips in both directions, dispatch raises only for a non-param. Containers (list/ndarray/dict/DataFrame) are a bounded stand-in.",
        trusted_base=["numpy scalar arithmetic == real arithmetic", "np.sqrt/np.power on constants evaluated natively"],
        not_decided=["float rounding of the conversions (floats are reals here)"],
        assumptions=["spec constants: gal=3.785411784 L, ft=0.3048 m, psi=0.3048/0.4333 m, hp=745.699872 W, in=0.0254 m, acre-ft=43560 ft3, Imp gal=4.54609 L; "
                     "relative tolerance 1e-8 on EPANET's rounded constants (CFS 0.0283168466, AFD 1233.48184), 1e-5 on ft2=0.092903"],
    ),
}


def get(pid):
    return PROPS[pid]

# properties not claimed (kept current by hand): id -> reason
NA = {}

PROPS["C04"] = dict(
    level="proof",
    explanation="SimTimeCondition.evaluate and TimeOfDayCondition.evaluate are executed symbolically from the real source for every "
                "relation / repeat / first_day case over symbolic integer times; posts are written from the property text "
                "(fires iff a configured instant lies in (prev, cur], backtrack lands on that instant, range relations true exactly on the interval).",
    trusted_base=["np.floor on symbolic reals == floor"],
    not_decided=[],
    assumptions=["simulation times are integer seconds (run_sim refuses sub-second steps)"],
)

PROPS["C08"] = dict(
    level="proof",
    explanation="leak_constraint.build is executed symbolically for an arbitrary junction/tank name (independent-iteration rule) "
                "in every (node kind, leak_status, isolated, fresh/update) case; post: the registered row denotes leak - lambda(p) with the "
                "three-branch lambda written from the property text; key-domain safety obligations are generated automatically.",
    trusted_base=[AML_TRUST], not_decided=[], assumptions=[],
)

PROPS["C07"] = dict(
    level="proof",
    explanation="pdd_constraint.build executed symbolically for an arbitrary junction; the row denotes d - D*ghat(p) with the five-branch "
                "ghat written from the documentation; pmin/pnom/pdd_poly_coeffs params and cubic_spline under contract; lemma: continuity at the "
                "four joins, values at/below Pmin and at/above Preq, monotonicity, per-junction override frame.",
    trusted_base=[AML_TRUST], not_decided=[], assumptions=[],
)
PROPS["C01"] = dict(
    level="proof",
    explanation="mass-balance builders proved for arbitrarily many inlet/outlet links via prefix-sum loop invariants; "
                "store_results/save_results/get_links_for_node/Demands.at under contract (see functions_under_contract).",
    trusted_base=[AML_TRUST, CPP_TRUST], not_decided=["floating point"], assumptions=[],
)

PROPS["C02"] = dict(
    level="proof",
    explanation="every head-loss builder executed symbolically for an arbitrary link in every (user status, internal status, isolated, end-node kinds) case; "
                "rows compared with the law of the type written from the property text; params, constants, cubic_spline, status properties under contract.",
    trusted_base=[AML_TRUST, CPP_TRUST], not_decided=["pumps never report reverse flow (emergent, network-level)", ">=3-point pump curve fit (scipy curve_fit) is bounded only"], assumptions=[],
)
