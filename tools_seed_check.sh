#!/bin/bash
# usage: tools_seed_check.sh <patch> <PID>... : applies the patch to /repo, runs the quick checks, reverts
patch=$1; shift
cd /repo && git apply $patch || { echo "PATCH DOES NOT APPLY"; exit 9; }
cd /verif
for pid in "$@"; do
  ./check $pid --no-evidence > .scratch/seed_$pid.out 2>&1
  echo "== $pid exit=$? : $(grep -c '^VIOLATION' .scratch/seed_$pid.out) violations ($(grep '^VIOLATION' .scratch/seed_$pid.out | grep -vc no-failing) replayed), $(grep -c '^UNDEC' .scratch/seed_$pid.out) undecided, $(grep -c '^CHECKER' .scratch/seed_$pid.out) checker-errors"
  grep -A1 "^VIOLATION" .scratch/seed_$pid.out | grep obligation | head -4
done
git -C /repo checkout -- .
