#!/usr/bin/env python3
"""Registers confirmed seeded changes under /verif/seeded/<PID>-<k>/ and records which checks catch them.
usage: tools_seed_register.py <PID> <k> <check-PID>[,<check-PID>...]   (runs the checks with the patch applied to /repo, then reverts)
With VERIF_REG_REPO=<scratch git copy of /repo HEAD> the patch is applied there and the checks read that tree (PYTHONPATH, PYVC_REPO_SRC):
used while a long run occupies /repo itself."""
import json, os, shutil, subprocess, sys, re
pid, k, checks = sys.argv[1], sys.argv[2], sys.argv[3].split(",")
src = "/tmp/seed/out_%s/%s" % (pid, k)
conf = json.load(open("/tmp/seedrun/%s_%s.json" % (pid, k)))
full = conf
if os.path.exists("/tmp/seedrun/%s_%s.full.json" % (pid, k)):
    full = json.load(open("/tmp/seedrun/%s_%s.full.json" % (pid, k)))
assert conf["demo_unchanged_exit"] == 0 and conf["demo_changed_exit"] != 0, conf
assert "297 passed" in full["tests_summary"], full["tests_summary"]
dst = "/verif/seeded/%s-%s" % (pid, k)
os.makedirs(dst, exist_ok=True)
shutil.copy(src + "/patch.diff", dst + "/patch.diff")
shutil.copy(src + "/demo.py", dst + "/demo.py")
agent = json.load(open(src + "/meta.json"))
REPO = os.environ.get("VERIF_REG_REPO", "/repo")
ENV = dict(os.environ)
if REPO != "/repo":
    ENV.update(PYTHONPATH=REPO, PYVC_REPO_SRC=REPO)
subprocess.check_call(["git", "-C", REPO, "apply", src + "/patch.diff"])
caught = {}
try:
    for c in checks:
        out = subprocess.run(["./check", c, "--no-evidence"], cwd="/verif", capture_output=True, text=True, env=ENV).stdout
        code = re.search(r"exit=(\d)", out.strip().splitlines()[-1]).group(1)
        obls = sorted(set(re.findall(r"^  obligation: (.*)$", out, re.M)))
        viol = [l for l in out.splitlines() if l.startswith("VIOLATION")]
        caught[c] = dict(exit=int(code), violations=len(viol), replayed_on_real_code=len([v for v in viol if "no-failing-input-found" not in v]),
                         undecided=len([l for l in out.splitlines() if l.startswith("UNDECIDED")]), obligations=obls[:6])
finally:
    subprocess.check_call(["git", "-C", REPO, "checkout", "--", "."])
meta = dict(property=pid, files_changed=agent.get("files_changed"), what_it_breaks=agent.get("what_it_breaks"),
            needs_to_manifest=agent.get("needs_to_manifest"),
            produced_by="fresh sub-agent given only the property text and a scratch worktree of /repo",
            confirmed_by_me=dict(
                how="git archive of /repo HEAD into a scratch directory; demo.py run before and after `patch -p1`; the pinned test suite "
                    "(pytest wntr/tests, test_demos deselected: it needs jupyter kernels / times out) run with the patch applied",
                demo_exit_unchanged=conf["demo_unchanged_exit"], demo_exit_changed=conf["demo_changed_exit"],
                tests=full["tests_summary"], tests_failing_same_as_baseline=full["tests_failed"]),
            agent_reported_tests=agent.get("tests_run"),
            detected_by=caught,
            detected=any(v["exit"] == 1 for v in caught.values()))
json.dump(meta, open(dst + "/meta.json", "w"), indent=1)
print(pid, k, {c: (v["exit"], v["violations"], v["replayed_on_real_code"]) for c, v in caught.items()})
