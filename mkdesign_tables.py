#!/usr/bin/env python3
"""Regenerates the machine-derived tables of DESIGN.md (between the BEGIN/END markers) from evidence/, seeded/ and known_findings.json."""
import glob, json, os, re
ROOT = os.path.dirname(os.path.abspath(__file__))

def status_table():
    rows = ["| id | level | obligations (all discharged) | paths | lemmas | bounded stand-ins | functions read from /repo | solver s | wall s |", "|---|---|---|---|---|---|---|---|---|"]
    for f in sorted(glob.glob(os.path.join(ROOT, "evidence", "C*.json"))):
        d = json.load(open(f)); c = d["coverage"]
        rows.append("| %s | %s | %d / %d | %d | %d | %d | %d | %.0f | %.0f |" % (d["property_id"], d["level"], c["discharged"], c["obligations"], c.get("paths", 0),
                    len(c.get("lemmas", [])), len(c.get("bounded", [])), len(c.get("functions_under_contract", [])), c.get("solver_seconds", 0), d.get("wall_s", 0)))
    return "\n".join(rows)

def seeds_table():
    rows = ["| seed | file(s) changed | what it breaks (short) | caught by | obligations that fail (first two) | replayed on real code |", "|---|---|---|---|---|---|"]
    for d in sorted(glob.glob(os.path.join(ROOT, "seeded", "*"))):
        m = json.load(open(os.path.join(d, "meta.json")))
        what = re.sub(r"\s+", " ", (m.get("what_it_breaks") or ""))[:170]
        for c, v in m["detected_by"].items():
            obl = "; ".join(o.split(":")[-1][:90] for o in v["obligations"][:2])
            rows.append("| %s | %s | %s | `./check %s` exit %d | %s | %d of %d |" % (os.path.basename(d), ", ".join(os.path.basename(x) for x in (m.get("files_changed") or [])), what.replace("|", "/"),
                        c, v["exit"], obl.replace("|", "/"), v["replayed_on_real_code"], v["violations"]))
    return "\n".join(rows)

def findings_table():
    k = json.load(open(os.path.join(ROOT, "known_findings.json")))["findings"]
    rows = ["| property | status | commit | what failed | obligation / stand-in that shows it |", "|---|---|---|---|---|"]
    for f in k:
        line = f.get("line") or f.get("what_fails") or ""
        line = re.sub(r"^fixed: property=\S+ \S+ ", "", line)
        rows.append("| %s | %s | %s | %s | %s |" % (f["property"], f["status"], f.get("commit", ""), re.sub(r"\s+", " ", line)[:260].replace("|", "/"), (f.get("obligation") or "")[:150].replace("|", "/")))
    return "\n".join(rows)

def splice(text, tag, body):
    a, b = "<!-- BEGIN:%s -->" % tag, "<!-- END:%s -->" % tag
    i, j = text.index(a) + len(a), text.index(b)
    return text[:i] + "\n" + body + "\n" + text[j:]

if __name__ == "__main__":
    p = os.path.join(ROOT, "DESIGN.md")
    t = open(p).read()
    for tag, fn in (("status", status_table), ("seeds", seeds_table), ("findings", findings_table)):
        t = splice(t, tag, fn())
    open(p, "w").write(t)
    print("DESIGN.md tables regenerated")
