#!/usr/bin/env python3
"""Regenerates MANIFEST.json from props.py (claimed properties) and NA (not claimed)."""
import json, sys, os
sys.path.insert(0, os.path.dirname(os.path.abspath(__file__)))
import props
ALL = ["C%02d" % i for i in range(1, 21)]
checks = []
for pid in ALL:
    if pid not in props.PROPS:
        continue
    m = props.PROPS[pid]
    checks.append(dict(
        property_id=pid,
        quick_cmd="./check %s --tier quick" % pid,
        thorough_cmd="./check %s --tier thorough" % pid,
        evidence_file="evidence/%s.json" % pid,
        replay_cmd_template="./check replay {path}",
        engine="pyvc",
        level_claimed=dict(category=m["level"], text=m["explanation"], design_ref=m.get("design_ref", "DESIGN.md section 6." + pid)),
        level_note="; ".join(m.get("trusted_base", []) + m.get("assumptions", []) + ["not decided: " + x for x in m.get("not_decided", [])]) or "see evidence.assumptions",
        technique=m.get("technique", "contract-based deductive verification: VCs generated from the real Python AST (pyvc), discharged by z3/cvc5; bounded stand-ins labelled"),
    ))
na = [dict(property_id=p, reason=props.NA.get(p, "deductive core not yet built in this session")) for p in ALL if p not in props.PROPS]
man = dict(
    version=1,
    setup_cmd="./setup.sh",
    hooks=dict(guard="USEPA_WNTR_VERIF", enable="none needed: contracts are sidecars in /verif/contracts, /repo has no instrumentation",
               baseline_off_cmd="cd /repo && /venv/bin/python -m pytest -ra -q -p no:cacheprovider --timeout=900 --continue-on-collection-errors",
               source_commits=[], add_only=True),
    engines=[dict(name="pyvc", path="pyvc/", serves_properties=[c["property_id"] for c in checks],
                  kind_free_text="VC generator: symbolic execution of the real Python AST of /repo functions against sidecar contracts; z3 4.x/5.x + cvc5 back ends; native replay; bounded stand-ins")],
    checks=checks,
    notes="Exit codes: 0 held, 1 violation (VIOLATION line + replay file), 2 undecided (solver unknown / unsupported construct), 3 checker error. See DESIGN.md.",
    not_applicable=na,
)
json.dump(man, open(os.path.join(os.path.dirname(os.path.abspath(__file__)), "MANIFEST.json"), "w"), indent=1)
print("claimed:", [c["property_id"] for c in checks], "n/a:", len(na))
