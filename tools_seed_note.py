#!/usr/bin/env python3
"""usage: tools_seed_note.py <PID>-<k> <first_pass: caught|missed|undecided> <note...>  : records how the checks did before any strengthening"""
import json, sys
p = "/verif/seeded/%s/meta.json" % sys.argv[1]
m = json.load(open(p))
m["first_pass"] = sys.argv[2]
if len(sys.argv) > 3:
    m["first_pass_note"] = " ".join(sys.argv[3:])
json.dump(m, open(p, "w"), indent=1)
