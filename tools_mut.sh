#!/bin/bash
# usage: tools_mut.sh <file-in-repo> <old> <new> <PID> [only]   (applies, runs check, reverts)
f=$1; old=$2; new=$3; pid=$4; only=$5
cd /repo && python3 - "$f" "$old" "$new" <<'PY'
import sys,re
f,old,new=sys.argv[1:4]
s=open(f).read()
n=s.count(old)
if n==0: print("PATTERN NOT FOUND"); sys.exit(1)
s=s.replace(old,new,1)
open(f,'w').write(s)
print("mutated 1 of",n,"occurrences")
PY
cd /verif
if [ -n "$only" ]; then ./check $pid --no-evidence --only "$only" > .scratch/mut.out 2>&1; else ./check $pid --no-evidence > .scratch/mut.out 2>&1; fi
grep "^VIOLATION\|^UNDEC\|^CHECKER\|tier=" .scratch/mut.out | sed 's/replay=.*json//' | cut -c1-200 | sort | uniq -c | head -8
git -C /repo checkout -- . 
