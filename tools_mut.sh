#!/bin/bash
# usage: tools_mut.sh <file-in-repo> <python-regex-old> <new> <PID> [only]   (applies, runs check, reverts)
f=$1; old=$2; new=$3; pid=$4; only=$5
cd /repo && python3 - "$f" "$old" "$new" <<'PY'
import sys,re
f,old,new=sys.argv[1:4]
s=open(f).read()
n=s.count(old)
if n==0: print("PATTERN NOT FOUND"); sys.exit(1)
s=s.replace(old,new,1)
open(f,'w').write(s)
print("mutated 1 of",n,"occurrences")
PY
cd /verif
if [ -n "$only" ]; then ./check $pid --no-evidence --only "$only" 2>&1 | grep -c "^VIOLATION" ; else ./check $pid --no-evidence 2>&1 | grep "^VIOLATION\|^UNDEC\|^CHECKER\|tier=" | sed 's/replay=.*json//' | sort | uniq -c | head -8; fi
git -C /repo checkout -- . 
