"""C01 bounded stand-in: mass conservation of the REPORTED results of the real WNTRSimulator.

At every reported step and every node: (sum of reported flows of links ending at the node) - (sum of those starting at it) equals the reported demand
plus the reported leak demand for junctions (within the solver tolerance), and the reported demand of tanks and reservoirs is that net inflow minus the
leak; isolated junctions report zero.  Networks: repository files, both demand models, generated networks with leaks, tanks at their limits, a branch that
is cut off and reconnected, reservoirs at either end of their pipes."""
import os
import warnings
import logging


def _special(kind):
    import wntr
    from wntr.network.controls import Control, ControlAction
    wn = wntr.network.WaterNetworkModel()
    wn.add_pattern("dp", [1.0, 0.4, 1.7, 0.9])
    wn.add_reservoir("R1", base_head=50.0)
    wn.add_reservoir("R2", base_head=42.0)
    for n, d, e in (("A", 0.004, 0.0), ("B", 0.006, 3.0), ("C", 0.003, 1.0), ("D", 0.002, 2.0)):
        wn.add_junction(n, base_demand=d, elevation=e, demand_pattern="dp")
    wn.add_pipe("R1A", "R1", "A", length=200, diameter=0.3, roughness=100)
    wn.add_pipe("BR2", "B", "R2", length=250, diameter=0.25, roughness=100)       # a reservoir as the END node of its pipe
    wn.add_pipe("AB", "A", "B", length=300, diameter=0.2, roughness=100)
    wn.add_pipe("BC", "B", "C", length=150, diameter=0.15, roughness=100)
    wn.add_pipe("CD", "C", "D", length=150, diameter=0.15, roughness=100)         # dead-end branch C - D behind BC
    wn.options.time.duration = 6 * 3600
    wn.options.time.pattern_timestep = 3600
    if kind == "branch_cut_and_reconnected":
        wn.add_control("cut", Control._time_control(wn, 2 * 3600, "SIM_TIME", False, ControlAction(wn.get_link("BC"), "status", 0)))
        wn.add_control("back", Control._time_control(wn, 4 * 3600, "SIM_TIME", False, ControlAction(wn.get_link("BC"), "status", 1)))
    elif kind == "two_stage_reconnection":
        wn.add_control("cut1", Control._time_control(wn, 1 * 3600, "SIM_TIME", False, ControlAction(wn.get_link("BC"), "status", 0)))
        wn.add_control("cut2", Control._time_control(wn, 1 * 3600, "SIM_TIME", False, ControlAction(wn.get_link("CD"), "status", 0)))
        wn.add_control("back1", Control._time_control(wn, 3 * 3600, "SIM_TIME", False, ControlAction(wn.get_link("BC"), "status", 1)))
        wn.add_control("back2", Control._time_control(wn, 5 * 3600, "SIM_TIME", False, ControlAction(wn.get_link("CD"), "status", 1)))
    elif kind == "leaks":
        wn.get_node("C").add_leak(wn, area=0.0004, start_time=3600, end_time=4 * 3600)
        wn.get_node("A").add_leak(wn, area=0.0002, start_time=0)
    elif kind == "negative_demand":
        wn.get_node("D").demand_timeseries_list[0].base_value = -0.003
    elif kind == "parallel_pair_toggle":
        # a second pipe beside BC: both closed at 1 h (C, D cut off), one re-opened at 2 h, the other at 4 h
        wn.add_pipe("BC2", "B", "C", length=180, diameter=0.12, roughness=100)
        for nm, ln, t, st in (("x1", "BC", 1, 0), ("x2", "BC2", 1, 0), ("x3", "BC2", 2, 1), ("x4", "BC", 4, 1)):
            wn.add_control(nm, Control._time_control(wn, t * 3600, "SIM_TIME", False, ControlAction(wn.get_link(ln), "status", st)))
    elif kind == "bridge_drawn_towards_the_source":
        # two dead ends hang on bridges drawn in opposite directions (E -> A: end node on the source side; A -> F), closed from 1 h to 3 h
        wn.add_junction("E", base_demand=0.002, elevation=1.0)
        wn.add_junction("F", base_demand=0.002, elevation=1.0)
        wn.add_pipe("EA", "E", "A", length=100, diameter=0.15, roughness=100)
        wn.add_pipe("AF", "A", "F", length=100, diameter=0.15, roughness=100)
        for nm, ln, t, st in (("y1", "EA", 1, 0), ("y2", "AF", 1, 0), ("y3", "EA", 3, 1), ("y4", "AF", 3, 1)):
            wn.add_control(nm, Control._time_control(wn, t * 3600, "SIM_TIME", False, ControlAction(wn.get_link(ln), "status", st)))
    elif kind == "well_behind_a_pump":
        # a well (inflow junction) on the suction side of a running pump: its only route to a source leads through the pump
        wn.add_junction("W", base_demand=-0.004, elevation=0.0)
        wn.add_curve("pc", "HEAD", [(0.0, 30.0), (0.01, 25.0), (0.02, 5.0)])
        wn.add_pump("PW", "W", "A", pump_type="HEAD", pump_parameter="pc")
    elif kind == "one_reconnected_while_another_is_cut":
        wn.add_junction("E", base_demand=0.002, elevation=1.0)
        wn.add_pipe("AE", "A", "E", length=100, diameter=0.15, roughness=100)
        for nm, ln, t, st in (("z1", "AE", 1, 0), ("z2", "AE", 3, 1), ("z3", "CD", 3, 0), ("z4", "CD", 5, 1)):
            wn.add_control(nm, Control._time_control(wn, t * 3600, "SIM_TIME", False, ControlAction(wn.get_link(ln), "status", st)))
    return wn


def run(tier, seed, shard, nshards):
    import random
    import numpy as np
    import wntr
    warnings.simplefilter("ignore")
    logging.disable(logging.CRITICAL)
    root = os.path.dirname(os.path.dirname(os.path.abspath(wntr.__file__)))
    sys_path_dir = os.path.dirname(os.path.dirname(os.path.abspath(__file__)))
    import sys
    sys.path.insert(0, sys_path_dir)
    from bounded import c05_consistency, c06_tanks_sim
    files = ["examples/networks/Net1.inp", "examples/networks/Net2.inp", "examples/networks/Net3.inp", "wntr/tests/networks_for_testing/leaks.inp",
             "wntr/tests/networks_for_testing/tank_controls_1.inp", "wntr/tests/networks_for_testing/cv_controls.inp", "wntr/tests/networks_for_testing/Anytown.inp"]
    nets = ["file:" + f for f in files] + ["special:" + k for k in ("branch_cut_and_reconnected", "two_stage_reconnection", "leaks", "negative_demand", "parallel_pair_toggle",
                                                                                         "bridge_drawn_towards_the_source", "well_behind_a_pump", "one_reconnected_while_another_is_cut")] + \
           ["gen5:%d" % i for i in range(4 if tier == "quick" else 30)] + ["gen6:%d" % i for i in range(6 if tier == "quick" else 40)]
    evals, distinct, failures, samples = 0, set(), [], []
    TOL = 1e-5
    idx = 0
    for rel in nets:
        for mode in ("DD", "PDD"):
            idx += 1
            if idx % nshards != shard:
                continue
            rng = random.Random(seed * 7919 + idx)
            try:
                if rel.startswith("file:"):
                    wn = wntr.network.WaterNetworkModel(os.path.join(root, rel[5:]))
                    wn.options.time.duration = min(wn.options.time.duration, 12 * 3600)
                elif rel.startswith("special:"):
                    wn = _special(rel[8:])
                elif rel.startswith("gen5:"):
                    wn = c05_consistency._generated(rng)
                else:
                    wn = c06_tanks_sim._generated(rng)
                    wn.options.time.report_timestep = wn.options.time.hydraulic_timestep
                wn.options.hydraulic.demand_model = mode
                if mode == "PDD":
                    wn.options.hydraulic.required_pressure = 25.0
                    wn.options.hydraulic.minimum_pressure = 2.0
                res = wntr.sim.WNTRSimulator(wn).run_sim()
            except NotImplementedError:
                continue            # the model is outside what the simulator declares to support (pump speed settings)
            except Exception as e:
                failures.append(dict(net=rel, mode=mode, raised=repr(e)[:200]))
                continue
            if res.error_code is not None:
                continue
            evals += 1
            distinct.add((rel, mode))
            flow, dem, leak = res.link["flowrate"], res.node["demand"], res.node["leak_demand"]
            net_in = {n: 0.0 for n in wn.node_name_list}
            inflow = {n: np.zeros(len(flow.index)) for n in wn.node_name_list}
            for ln, l in wn.links():
                q = flow[ln].values.astype(float)
                inflow[l.end_node_name] = inflow[l.end_node_name] + q
                inflow[l.start_node_name] = inflow[l.start_node_name] - q
            worst, where = 0.0, None
            for nn, node in wn.nodes():
                d = dem[nn].values.astype(float)
                lk = leak[nn].values.astype(float) if nn in leak.columns else 0.0
                if node.node_type == "Junction":
                    r = np.abs(inflow[nn] - d - lk)
                else:                                   # tanks and reservoirs: reported demand is the net inflow (minus the leak)
                    r = np.abs(d - (inflow[nn] - lk))
                if not np.isfinite(r).all():
                    worst, where = float("inf"), (nn, "non-finite reported values")
                    break
                k = int(np.argmax(r))
                if float(r[k]) > worst:
                    worst, where = float(r[k]), (nn, int(flow.index[k]))
            if worst > TOL:
                failures.append(dict(net=rel, mode=mode, node=where[0], at=where[1], imbalance_m3_per_s=worst, tolerance=TOL))
            # C09's observable on the same runs: a junction joined to a tank or reservoir by links that are not closed is never zeroed (in demand-driven mode it
            # gets its requested demand), one that is cut off from every source reports zero demand and zero flow in its links
            stat = res.link["status"]
            exp = wntr.metrics.expected_demand(wn, 0, wn.options.time.duration, wn.options.time.report_timestep if isinstance(wn.options.time.report_timestep, (int, float)) else wn.options.time.hydraulic_timestep) if mode == "DD" else None
            sources = set(wn.tank_name_list) | set(wn.reservoir_name_list)
            if exp is not None and wn.num_controls == 0 and wn.num_tanks == 0 and not any(p.check_valve for _, p in wn.pipes()) and rel.startswith("special:"):
                # nothing in this network can close a link: every junction gets its requested demand at every step (in particular nothing is zeroed)
                common = [t for t in flow.index if t in exp.index]
                d_ = np.abs(dem.loc[common, wn.junction_name_list].values.astype(float) - exp.loc[common, wn.junction_name_list].values.astype(float))
                if d_.size and float(d_.max()) > 1e-9:
                    k = np.unravel_index(int(np.argmax(d_)), d_.shape)
                    failures.append(dict(net=rel, mode=mode, problem="no link can close in this network, yet junction %s reports demand %.6g instead of the requested %.6g at t=%d" % (
                        wn.junction_name_list[k[1]], float(dem.loc[common[k[0]], wn.junction_name_list[k[1]]]), float(exp.loc[common[k[0]], wn.junction_name_list[k[1]]]), common[k[0]])))
            for t in flow.index:
                adj = {}
                for ln, l in wn.links():
                    if int(stat.loc[t, ln]) != 0:
                        adj.setdefault(l.start_node_name, []).append(l.end_node_name)
                        adj.setdefault(l.end_node_name, []).append(l.start_node_name)
                seen, stack = set(sources), list(sources)
                while stack:
                    x = stack.pop()
                    for y in adj.get(x, ()):
                        if y not in seen:
                            seen.add(y)
                            stack.append(y)
                bad = None
                for jn, j in wn.junctions():
                    if jn in seen:
                        if exp is not None and t in exp.index and abs(float(dem.loc[t, jn]) - float(exp.loc[t, jn])) > 1e-9:
                            bad = "junction %s is connected to a source at t=%d but reports demand %.6g instead of the requested %.6g" % (jn, t, float(dem.loc[t, jn]), float(exp.loc[t, jn]))
                    else:
                        links_q = max([abs(float(flow.loc[t, ln])) for ln in wn.get_links_for_node(jn)] or [0.0])
                        if abs(float(dem.loc[t, jn])) > 1e-12 or links_q > 1e-9:
                            bad = "junction %s is cut off from every source at t=%d but reports demand %.6g and link flow %.6g" % (jn, t, float(dem.loc[t, jn]), links_q)
                    if bad:
                        break
                if bad:
                    failures.append(dict(net=rel, mode=mode, problem=bad))
                    break
            if len(samples) < 3:
                samples.append(dict(net=rel, mode=mode, steps=len(flow.index), worst_imbalance=worst))
    return dict(evaluations=evals, distinct_nontrivial=len(distinct), failures=failures[:10], samples=samples, exhaustive=False,
                scope="shard %d/%d: %d networks x {DD, PDD}: seven repository files, eight special networks (a branch cut off and reconnected in one and in two stages, "
                      "timed leaks, an inflow junction, a parallel pair toggled, bridges drawn in either direction, a well behind a pump, one dead end reconnected while another is cut; one reservoir is the end node of its pipe) and generated networks with tanks at their limits, pumps, check-valve "
                      "pipes and leaking tanks: at every reported step the reported flows, demands and leak demands balance at every node (%.0e m3/s); junctions joined to a source through links that are not closed get their "
                      "requested demand (DD), junctions cut off from every source report zero demand and zero flow" % (shard, nshards, len(nets), TOL))
