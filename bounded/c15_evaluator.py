"""Bounded differential check of the compiled aml evaluator (run with PYTHONPATH = scratch copy with rebuilt extension).
prints one JSON line: {evaluations, distinct_nontrivial, failures, samples}"""
import sys, json, math, random, itertools, warnings
warnings.simplefilter("ignore")
import numpy as np
import wntr
import wntr.sim.aml as aml
from wntr.sim.aml import expr as E

tier, seed, shard, nshards = sys.argv[1], int(sys.argv[2]), int(sys.argv[3]), int(sys.argv[4])
rng = random.Random(seed * 1000 + shard)
UN = [("neg", lambda x: -x), ("exp", aml.exp), ("log", aml.log), ("sin", aml.sin), ("cos", aml.cos), ("tan", aml.tan), ("asin", aml.asin),
      ("acos", aml.acos), ("atan", aml.atan), ("abs", aml.abs), ("sign", aml.sign)]
BIN = [("add", lambda a, b: a + b), ("sub", lambda a, b: a - b), ("mul", lambda a, b: a * b), ("div", lambda a, b: a / b), ("pow", lambda a, b: a ** b)]


def gen(depth, leaves):
    """random expression DAG over the leaves (shared sub-expressions allowed); returns (expr, description)"""
    if depth == 0 or rng.random() < 0.25:
        l = rng.choice(leaves)
        return l[0], l[1]
    if rng.random() < 0.35:
        nm, f = rng.choice(UN)
        if nm in ("abs", "sign"):
            KINK[0] = True
        a, da = gen(depth - 1, leaves)
        if nm in ("log",):
            a, da = a * a + 0.5, "(%s^2+0.5)" % da
        if nm in ("asin", "acos"):
            a, da = aml.sin(a) * 0.9, "0.9sin(%s)" % da
        return f(a), "%s(%s)" % (nm, da)
    r_ = rng.random()
    if r_ < 0.12 and depth >= 2:
        # a shared sub-expression consumed twice, the second time AFTER a consumer that contains it (either operand order): c = (a op x) op2 a
        a, da = gen(depth - 2, leaves)
        if hasattr(a, "is_leaf"):
            x, dx = gen(depth - 2, leaves)
            inner = a + x if rng.random() < 0.5 else a * x
            nm2, f2 = rng.choice(BIN[:3])
            return (f2(inner, a), "((%s . %s) %s %s)" % (da, dx, nm2, da)) if rng.random() < 0.5 else (f2(a, inner), "(%s %s (%s . %s))" % (da, nm2, da, dx))
    if r_ < 0.2 and depth >= 2:
        # the signed square of a shared non-leaf node: e*abs(e) / abs(e)*e (the Darcy-type terms of the hydraulic model)
        a, da = gen(depth - 2, leaves)
        if hasattr(a, "is_leaf"):
            e_ = a - rng.choice(leaves[:1])[0]
            KINK[0] = True
            return (e_ * aml.abs(e_), "signed_square(%s)" % da) if rng.random() < 0.5 else (aml.abs(e_) * e_, "signed_square'(%s)" % da)
    if r_ < 0.3 and depth >= 1:
        # the piecewise operator if_else(condition, a, b) as a SUB-expression: whatever consumes it (a product, a power, exp) sees the selected branch
        vs = [l for l in leaves if hasattr(l[0], "is_variable_type") and l[0].is_variable_type()]
        if vs:
            cv, dcv = rng.choice(vs)
            thr = rng.choice([0.5, 1.0, 1.3])
            a, da = gen(depth - 1, leaves)
            b, db = gen(depth - 1, leaves)
            a = a if hasattr(a, "last_node") else E.Float(a)
            b = b if hasattr(b, "last_node") else E.Float(b)
            KINK[0] = True
            cond = E.inequality(cv, ub=thr) if rng.random() < 0.5 else E.inequality(cv, lb=thr)
            return E.if_else(cond, a, b), "if_else(%s ? %r, %s, %s)" % (dcv, thr, da, db)
    nm, f = rng.choice(BIN)
    a, da = gen(depth - 1, leaves)
    b, db = (a, da) if rng.random() < 0.2 else gen(depth - 1, leaves)
    if nm == "pow" and PEXP and rng.random() < 0.35:
        # an exponent that is a PARAMETER (its value may be exactly 0 or 1 when the expression is built and is changed later)
        a, da = a * a + 0.3, "(%s^2+0.3)" % da
        return a ** PEXP[0], "(%s pow param_exponent)" % da
    if nm == "div":
        b, db = b * b + 0.7, "(%s^2+0.7)" % db
    if nm == "pow":
        a, da = a * a + 0.3, "(%s^2+0.3)" % da
        if rng.random() < 0.5:
            b, db = rng.choice([2, 0.5, 1.852, 3]), "const"
        else:
            b, db = aml.sin(b), "sin(%s)" % db
    return f(a, b), "(%s %s %s)" % (da, nm, db)


KINK = [False]
KINKS = {}
PEXP = []
SIDE = {}
KEEP = []          # every constraint ever built stays alive: KINKS / SIDE are keyed by id()


def check_model(m, cons, vars_, tag, failures):
    m.set_structure()
    r = m.evaluate_residuals()
    import scipy.sparse
    n_vars, n_cons = len(m._var_cvar_map), len(m._con_ccon_map)
    jv, ci, rn = m._evaluator.evaluate_csr_jacobian(m._evaluator.nnz, m._evaluator.nnz, n_cons + 1)   # as Model.evaluate_jacobian, without its square-system check
    J = scipy.sparse.csr_matrix((jv, ci, rn), shape=(n_cons, n_vars)).toarray()
    ok = True
    if len(r) != len(cons):
        failures.append(dict(tag=tag, what="number of residuals %d != number of registered constraints %d" % (len(r), len(cons))))
        return False
    for c in cons:
        ref = c.evaluate()
        got = r[c.index]
        if not (abs(got - ref) <= 1e-9 * max(1, abs(ref)) or (math.isnan(ref) and math.isnan(got))):
            failures.append(dict(tag=tag, what="residual of %s: compiled %r, direct evaluation %r" % (c.name, float(got), float(ref))))
            ok = False
        if id(c) in SIDE:
            want_side = SIDE[id(c)]()
            if not (abs(got - want_side) <= 1e-9 * max(1, abs(want_side))):
                failures.append(dict(tag=tag, what="residual of %s: compiled %r, value from the base and the parameter's current value %r" % (c.name, float(got), float(want_side))))
                ok = False
        ad = c.reverse_ad()
        for v in vars_:
            if v.index is None:
                continue
            w_ = ad[v] if v in ad else 0.0
            want = float(w_.value if hasattr(w_, "value") else w_)
            gotj = J[c.index, v.index]
            if not (abs(gotj - want) <= 1e-7 * max(1, abs(want))):
                failures.append(dict(tag=tag, what="d %s / d %s: compiled %r, reverse-mode AD %r" % (c.name, v.name, float(gotj), want)))
                ok = False
            # finite-difference cross-check of the reference itself (keeps the oracle honest)
            h = 1e-6 * max(1.0, abs(v.value))
            x0 = v.value
            v.value = x0 + h
            fp = c.evaluate()
            v.value = x0 - h
            fm = c.evaluate()
            v.value = x0
            fd = (fp - fm) / (2 * h)
            noise = 2.3e-16 * max(abs(fp), abs(fm)) / h       # rounding of the two evaluations, amplified by 1/(2h)
            if math.isfinite(fd) and abs(fd - want) > 1e-3 * max(1.0, abs(want)) and abs(want) < 1e6 and noise < 1e-4 * max(1.0, abs(want)):
                # the central difference is meaningless across a kink / branch threshold: only smooth constraints
                smooth = not isinstance(c.expr, E.ConditionalExpression) and not KINKS.get(id(c), False)
                if smooth:
                    failures.append(dict(tag=tag, what="reverse-mode AD of %s wrt %s = %r disagrees with central difference %r" % (c.name, v.name, want, fd)))
                    ok = False
    return ok


evals, distinct, failures, samples = 0, set(), [], []
N = 60 if tier == "quick" else 600
for it in range(N):
    m = aml.Model()
    nv = rng.randint(1, 3)
    vars_ = []
    for i in range(nv):
        v = aml.Var(rng.uniform(0.2, 2.0))
        setattr(m, "x%d" % i, v)
        vars_.append(v)
    p = aml.Param(rng.uniform(0.5, 3.0))
    m.p = p
    pe = aml.Param(rng.choice([1.0, 0.0, 2.0, 1.852]))
    m.pe = pe
    PEXP[:] = [pe]
    shared = E.Float(rng.choice([2.5, 0.75]))
    leaves = [(v, v.name) for v in vars_] + [(p, "p"), (shared, "shared"), (rng.uniform(0.1, 3), "num")]
    cons = []
    history = []
    nsteps = rng.randint(2, 5)
    k = 0
    for step in range(nsteps):
        action = rng.choice(["add", "add", "add_cond", "remove", "set_value", "load_and_restore", "add_dict", "del_dict", "add_prefix", "remove_last_cond", "add_param_pow"])
        try:
            if action == "add" or not cons:
                KINK[0] = False
                e, d = gen(rng.randint(1, 3), leaves)
                if not hasattr(e, "is_leaf"):
                    e, d = vars_[0] * e, "x0*const"
                c = aml.Constraint(e + shared * vars_[0])
                KINKS[id(c)] = KINK[0]
                setattr(m, "c%d" % k, c)
                cons.append(c)
                history.append("add c%d: %s" % (k, d))
                k += 1
            elif action == "add_param_pow":
                # base ** (a parameter): the reference value is computed from the base and the parameter's CURRENT value, independently of how the
                # power node was built (an exponent that is exactly 0 or 1 at build time must not be folded away: it is changed later)
                KINK[0] = False
                e, d = gen(2, leaves)
                base = e * e + 0.3
                c = aml.Constraint(base ** pe + shared * vars_[0])
                KINKS[id(c)] = KINK[0]
                setattr(m, "c%d" % k, c)
                cons.append(c)
                SIDE[id(c)] = (lambda base=base: (base.evaluate() if hasattr(base, "evaluate") else float(base)) ** pe.value + shared.value * vars_[0].value)
                history.append("add c%d: (%s^2+0.3) pow param_exponent(=%r)" % (k, d, pe.value))
                k += 1
            elif action == "add_prefix":
                # a constraint on an expression object that has afterwards been extended into a larger one (the two share their operator
                # list); the extension brings in a variable the prefix does not contain
                others = [(l, n) for (l, n) in leaves if l is not vars_[-1]] if len(vars_) > 1 else leaves[1:]
                KINK[0] = False
                e, d = gen(2, others)
                if not hasattr(e, "is_leaf") or e.is_leaf():
                    e, d = vars_[0] * p, "x0*p"
                bigger = e * vars_[-1] + vars_[-1] ** 2
                kink = KINK[0]
                if rng.random() < 0.5:
                    c = aml.Constraint(e)
                    history.append("add c%d on a prefix of a longer expression: %s" % (k, d))
                else:
                    ce = aml.ConditionalExpression()
                    ce.add_condition(aml.inequality(vars_[0], ub=rng.choice([0.5, 1.0])), e)
                    ce.add_final_expr(vars_[0] * 2.0 - p)
                    c = aml.Constraint(ce)
                    history.append("add conditional c%d with a prefix of a longer expression as a branch: %s" % (k, d))
                KINKS[id(c)] = kink
                setattr(m, "c%d" % k, c)
                cons.append(c)
                k += 1
                if rng.random() < 0.5:
                    c = aml.Constraint(bigger)
                    KINKS[id(c)] = kink
                    setattr(m, "c%d" % k, c)
                    cons.append(c)
                    k += 1
            elif action == "remove_last_cond":
                # the structure is set, then a conditional constraint is the only thing removed before the next evaluation
                cc = [c for c in cons if isinstance(c.expr, E.ConditionalExpression) and c.name and "[" not in c.name]
                if cc and len(cons) > 1:
                    m.set_structure()
                    c = rng.choice(cc)
                    delattr(m, c.name)
                    cons.remove(c)
                    history.append("set_structure, then remove conditional %s" % c.name)
            elif action == "add_cond":
                ce = aml.ConditionalExpression()
                thr = rng.choice([0.5, 1.0, vars_[0].value])           # sometimes exactly at the branch threshold
                e1, d1 = gen(2, leaves)
                e2, d2 = gen(2, leaves)
                if len(vars_) > 1 and rng.random() < 0.4:
                    # the condition tests a variable that occurs in no branch expression
                    cv = vars_[-1]
                    wo = [(l, n) for (l, n) in leaves if l is not cv]
                    e1, d1 = gen(2, wo)
                    e2, d2 = gen(2, wo)
                    thr = rng.choice([0.5, 1.0, cv.value])
                    ce.add_condition(aml.inequality(cv, ub=thr), e1 + vars_[0])
                    ce.add_final_expr(e2 + vars_[0] * 2)
                    history.append("add conditional c%d (%s <= %r, not in the branches): %s | %s" % (k, cv.name, thr, d1, d2))
                else:
                    ce.add_condition(aml.inequality(vars_[0], ub=thr), e1 + vars_[0])
                    ce.add_final_expr(e2 + vars_[0] * 2)
                    history.append("add conditional c%d (x0 <= %r): %s | %s" % (k, thr, d1, d2))
                c = aml.Constraint(ce)
                setattr(m, "c%d" % k, c)
                cons.append(c)
                k += 1
            elif action == "remove":
                c = rng.choice(cons)
                if c.name and "[" not in c.name:
                    delattr(m, c.name)
                    cons.remove(c)
                    history.append("remove")
            elif action == "set_value":
                v = rng.choice(vars_)
                v.value = rng.uniform(0.2, 2.0)
                p.value = rng.uniform(0.5, 3.0)
                pe.value = rng.choice([1.852, 0.5, 1.0, 0.0, 2.0])
                history.append("set values")
            elif action == "load_and_restore" and cons:
                # the solver loads another point into the compiled side; assigning the old values again must take effect
                m.set_structure()
                x0 = [v.value for v in vars_]
                m.load_var_values_from_x(np.array([rng.uniform(0.2, 2.0) for _ in range(len(m.get_x()))]))
                for v, old in zip(vars_, x0):
                    v.value = old
                    if v.value != old:
                        failures.append(dict(tag="model %d" % it, what="assigning %r to %s after load_var_values_from_x was ignored: it reads %r" % (old, v.name, v.value)))
                history.append("load another point, assign the old values again")
            elif action == "add_dict" and not hasattr(m, "cd"):
                m.cd = aml.ConstraintDict()
                for key in ("a", "b"):
                    KINK[0] = False
                    e, d = gen(2, leaves)
                    c = aml.Constraint(e + vars_[-1])
                    KINKS[id(c)] = KINK[0]
                    m.cd[key] = c
                    cons.append(c)
                history.append("add ConstraintDict")
            elif action == "del_dict" and hasattr(m, "cd"):
                for key in list(m.cd.keys()):
                    cons.remove(m.cd[key])
                del m.cd
                history.append("del ConstraintDict")
        except Exception as ex:
            failures.append(dict(tag="model %d" % it, what="building raised %r after %s" % (ex, history[-3:])))
            break
        KEEP.extend(c_ for c_ in cons if not any(c_ is k_ for k_ in KEEP[-40:]))
        if not cons:
            continue
        evals += 1
        distinct.add((it, step))
        try:
            check_model(m, cons, vars_, "model %d after %s" % (it, "; ".join(history[-3:])), failures)
        except Exception as ex:
            # evaluating a model built from valid expressions must not raise
            failures.append(dict(tag="model %d after %s" % (it, "; ".join(history[-3:])), what="evaluating the model raised %r" % (ex,)))
            break
        if len(failures) > 20:
            break
    if len(samples) < 2:
        samples.append(dict(history=history[:4], constraints=len(cons)))
    if len(failures) > 20:
        break
print(json.dumps(dict(evaluations=evals, distinct_nontrivial=len(distinct), failures=failures[:10], samples=samples)))
