"""C07 / C08 bounded stand-ins on the real simulator.

C07: in pressure-dependent mode the delivered demand of every junction at every reported step is the requested demand times the documented fraction
of its pressure: 0 at or below Pmin, 1 at or above Preq, ((p - Pmin) / (Preq - Pmin)) ** e in between (compared outside the two smoothing bands of 0.05 m,
inside them only bounded by the neighbouring values); per-junction Pmin / Preq / exponent override the global ones.
C08: the reported leak demand of a junction or tank is Cd * A * sqrt(2 g p) with p its pressure (head above the junction / the tank's level) while the
leak is active (between start and end time) and p is above the smoothing band (1e-4 m), zero outside the window; it leaves the node's balance."""
import math
import warnings
import logging


def _net(rng):
    import wntr
    wn = wntr.network.WaterNetworkModel()
    wn.add_pattern("dp", [1.0, 0.6, 1.5, 0.9])
    wn.add_pattern("hp", [1.0, 0.8, 0.6, 0.9])
    wn.add_reservoir("R", base_head=rng.choice([18.0, 28.0]), head_pattern="hp")
    elevs = [0.0, 4.0, 9.0, 14.0, 2.0]
    for i, e in enumerate(elevs):
        wn.add_junction("J%d" % i, base_demand=rng.choice([0.003, 0.006]), elevation=e, demand_pattern=rng.choice([None, "dp"]))
    wn.get_node("J4").demand_timeseries_list[0].base_value = rng.choice([0.004, -0.002])        # sometimes an inflow
    wn.add_pipe("P0", "R", "J0", length=150, diameter=0.25, roughness=110)
    for i in range(4):
        wn.add_pipe("P%d" % (i + 1), "J%d" % i, "J%d" % (i + 1), length=200, diameter=rng.choice([0.12, 0.2]), roughness=100)
    wn.add_pipe("P5", "J0", "J4", length=400, diameter=0.15, roughness=100)
    h = wn.options.hydraulic
    h.demand_model = "PDD"
    h.minimum_pressure = rng.choice([0.0, 3.0])
    h.required_pressure = h.minimum_pressure + rng.choice([10.0, 20.0])
    h.pressure_exponent = rng.choice([0.5, 0.5, 1.0, 0.7])
    if rng.random() < 0.6:
        j = wn.get_node("J2")
        j.minimum_pressure, j.required_pressure = rng.choice([0.0, 1.0, 5.0]), rng.choice([12.0, 25.0])
    if rng.random() < 0.4:
        wn.get_node("J3").pressure_exponent = rng.choice([0.3, 1.0])
    wn.options.time.duration = 4 * 3600
    wn.options.time.pattern_timestep = 3600
    return wn


def _leak_net(rng):
    import wntr
    wn = wntr.network.WaterNetworkModel()
    wn.add_pattern("dp", [1.0, 0.5, 1.4, 0.8])
    wn.add_reservoir("R", base_head=rng.choice([30.0, 45.0]))
    wn.add_junction("A", base_demand=0.004, elevation=0.0, demand_pattern="dp")
    wn.add_junction("B", base_demand=0.003, elevation=rng.choice([5.0, 12.0]))
    wn.add_tank("T", elevation=20.0, init_level=rng.uniform(1.0, 3.0), min_level=0.0, max_level=6.0, diameter=rng.choice([5.0, 8.0]))
    wn.add_pipe("RA", "R", "A", length=200, diameter=0.25, roughness=110)
    wn.add_pipe("AB", "A", "B", length=300, diameter=0.2, roughness=100)
    wn.add_pipe("BT", "B", "T", length=200, diameter=0.2, roughness=100)
    leaks = {}
    for nn in rng.sample(["A", "B", "T"], rng.choice([1, 2, 3])):
        area, cd = rng.choice([0.0002, 0.001]), rng.choice([0.75, 0.6])
        st = rng.choice([0, 1800, 3600])
        en = rng.choice([None, st + 3600, st + 5400])
        wn.get_node(nn).add_leak(wn, area=area, discharge_coeff=cd, start_time=st, end_time=en)
        leaks[nn] = (area, cd, st, en)
    wn.options.hydraulic.demand_model = rng.choice(["DD", "PDD"])
    wn.options.time.duration = 4 * 3600
    wn.options.time.hydraulic_timestep = rng.choice([900, 1800, 3600])
    wn.options.time.pattern_timestep = 3600
    wn.options.time.report_timestep = "ALL"
    return wn, leaks


def run_c07(tier, seed, shard, nshards):
    import random
    import wntr
    warnings.simplefilter("ignore")
    logging.disable(logging.CRITICAL)
    N = 12 if tier == "quick" else 120
    evals, distinct, failures, samples = 0, set(), [], []
    for it in range(N):
        if it % nshards != shard:
            continue
        rng = random.Random(seed * 7919 + it)
        wn = _net(rng)
        try:
            res = wntr.sim.WNTRSimulator(wn).run_sim()
        except Exception as e:
            failures.append(dict(network=it, raised=repr(e)[:200]))
            continue
        if res.error_code is not None:
            continue
        h = wn.options.hydraulic
        req = wntr.metrics.expected_demand(wn, 0, wn.options.time.duration, wn.options.time.report_timestep)
        dem, prs = res.node["demand"], res.node["pressure"]
        regions = set()
        for jn, j in wn.junctions():
            p0 = j.minimum_pressure if j.minimum_pressure is not None else h.minimum_pressure
            pf = j.required_pressure if j.required_pressure is not None else h.required_pressure
            e = j.pressure_exponent if j.pressure_exponent is not None else h.pressure_exponent
            for t in dem.index:
                D, d, p = float(req.loc[t, jn]), float(dem.loc[t, jn]), float(prs.loc[t, jn])
                evals += 1
                if p <= p0:
                    want, band = 0.0, "below_pmin"
                elif p >= pf:
                    want, band = D, "above_preq"
                elif p0 + 0.05 <= p <= pf - 0.05:
                    want, band = D * ((p - p0) / (pf - p0)) ** e, "power_law"
                else:
                    band = "smoothing"
                    lo, hi = sorted((0.0 if p < p0 + 0.05 else D * ((pf - 0.05 - p0) / (pf - p0)) ** e, D * (0.05 / (pf - p0)) ** e if p < p0 + 0.05 else D))
                    if not (lo - 1e-7 - 1e-6 * abs(D) <= d <= hi + 1e-7 + 1e-6 * abs(D)):
                        failures.append(dict(network=it, junction=jn, t=int(t), pressure=p, pmin=p0, preq=pf, delivered=d, requested=D, problem="inside a smoothing band the delivered demand leaves the values at the band's ends"))
                    regions.add(band)
                    continue
                regions.add(band)
                if not (abs(d - want) <= 1e-6 + 1e-5 * abs(D)):
                    failures.append(dict(network=it, junction=jn, t=int(t), pressure=p, pmin=p0, preq=pf, exponent=e, delivered=d, requested=D, documented=want, region=band))
            if len(failures) > 10:
                break
        distinct.add((it, tuple(sorted(regions))))
        if len(samples) < 3:
            samples.append(dict(network=it, regions=sorted(regions), exponent=h.pressure_exponent, pmin=h.minimum_pressure, preq=h.required_pressure))
    return dict(evaluations=evals, distinct_nontrivial=len(distinct), failures=failures[:10], samples=samples, exhaustive=False,
                scope="shard %d/%d: %d generated low-head networks (a reservoir on a head pattern, junctions at rising elevations, global and per-junction minimum / required "
                      "pressures and exponents, sometimes an inflow junction) in PDD mode: at every reported step delivered = requested x documented fraction of the reported "
                      "pressure (1e-6 + 1e-5 of the request outside the 0.05 m smoothing bands; between the band's end values inside)" % (shard, nshards, N))


def run_c08(tier, seed, shard, nshards):
    import random
    import wntr
    warnings.simplefilter("ignore")
    logging.disable(logging.CRITICAL)
    N = 12 if tier == "quick" else 120
    evals, distinct, failures, samples = 0, set(), [], []
    for it in range(N):
        if it % nshards != shard:
            continue
        rng = random.Random(seed * 104729 + it)
        wn, leaks = _leak_net(rng)
        try:
            res = wntr.sim.WNTRSimulator(wn).run_sim()
        except Exception as e:
            failures.append(dict(network=it, leaks=leaks, raised=repr(e)[:200]))
            continue
        if res.error_code is not None:
            continue
        ld, head = res.node["leak_demand"], res.node["head"]
        for nn, (area, cd, st, en) in leaks.items():
            node = wn.get_node(nn)
            for t in ld.index:
                p = float(head.loc[t, nn]) - node.elevation
                got = float(ld.loc[t, nn])
                active = t >= st and (en is None or t < en)
                evals += 1
                distinct.add((it, nn, active))
                if not active:
                    ok, want = abs(got) <= 1e-12, 0.0
                elif p > 1e-4:
                    want = cd * area * math.sqrt(2 * 9.81 * p)
                    ok = abs(got - want) <= 1e-6 + 1e-6 * want
                else:
                    want, ok = 0.0, abs(got) <= cd * area * math.sqrt(2 * 9.81 * 1e-4) + 1e-9
                if not ok:
                    failures.append(dict(network=it, node=nn, t=int(t), window=[st, en], pressure=p, leak_demand=got, documented=want, area=area, discharge_coeff=cd))
                    break
        # the start and the end of each window are solved steps (timed leaks act at their instants)
        for nn, (area, cd, st, en) in leaks.items():
            for inst in (st, en):
                if inst is not None and 0 < inst <= wn.options.time.duration and inst not in list(ld.index):
                    failures.append(dict(network=it, node=nn, problem="no solved step at the instant %d at which the leak starts / ends" % inst))
        if len(samples) < 3:
            samples.append(dict(network=it, leaks={k: list(v) for k, v in leaks.items()}, steps=len(ld.index)))
    return dict(evaluations=evals, distinct_nontrivial=len(distinct), failures=failures[:10], samples=samples, exhaustive=False,
                scope="shard %d/%d: %d generated networks with one to three timed leaks on junctions and a tank (areas, discharge coefficients, windows), DD and PDD, report step "
                      "ALL: leak demand = Cd A sqrt(2 g p) inside the window (1e-6), zero outside it, the window's ends are solved steps" % (shard, nshards, N))
