"""Bounded end-to-end check of isolation handling (run with PYTHONPATH = scratch copy with the rebuilt C++ extensions).
prints one JSON line."""
import sys, json, itertools, warnings, logging
warnings.simplefilter("ignore")
logging.disable(logging.CRITICAL)
import wntr
from wntr.network import LinkStatus

tier, seed, shard, nshards = sys.argv[1], int(sys.argv[2]), int(sys.argv[3]), int(sys.argv[4])

def _reference_isolated(wn_nodes, sources, links_open):
    seen = set(sources)
    frontier = list(sources)
    while frontier:
        u = frontier.pop()
        for (a, b) in links_open:
            for x, y in ((a, b), (b, a)):
                if x == u and y not in seen:
                    seen.add(y)
                    frontier.append(y)
    return [n for n in wn_nodes if n not in seen]


def run(tier, seed):
    if True:
        evals = 0
        distinct = set()
        failures = []
        samples = []
        juncs = ["J1", "J2", "J3"]
        pairs = [("R", "J1"), ("J1", "J2"), ("J2", "J3"), ("J1", "J3"), ("J1", "J2"), ("R", "J3")]   # incl. a parallel pair J1-J2
        maxl = 4 if tier == "quick" else 5
        idx = 0
        for k in range(1, maxl + 1):
            for combo in itertools.combinations(range(len(pairs)), k):
                for closed in itertools.product((0, 1), repeat=k):
                    for sched in ((), (0,), (k - 1,)):       # which link toggles at t = 3600 (reconnect / disconnect)
                        idx += 1
                        if idx % nshards != shard:
                            continue
                        wn = wntr.network.WaterNetworkModel()
                        wn.add_reservoir("R", base_head=50.0)
                        for j in juncs:
                            wn.add_junction(j, base_demand=0.001, elevation=0.0)
                        names = []
                        for n, (ci, cl) in enumerate(zip(combo, closed)):
                            a, b = pairs[ci]
                            nm = "L%d" % n
                            wn.add_pipe(nm, a, b, length=100, diameter=0.3, roughness=100,
                                        initial_status="CLOSED" if cl else "OPEN")
                            names.append((nm, a, b))
                        for t in sched:
                            l = wn.get_link(names[t][0])
                            newst = LinkStatus.Open if closed[t] else LinkStatus.Closed
                            act = wntr.network.controls.ControlAction(l, "status", newst)
                            wn.add_control("c%d" % t, wntr.network.controls.Control._time_control(wn, 3600, "SIM_TIME", False, act))
                        wn.options.time.duration = 7200
                        wn.options.time.hydraulic_timestep = 3600
                        wn.options.time.report_timestep = 3600
                        try:
                            res = wntr.sim.WNTRSimulator(wn).run_sim()
                        except Exception as e:
                            failures.append(dict(case=(combo, closed, sched), raised=repr(e)[:200]))
                            continue
                        evals += 1
                        key = (combo, closed, sched)
                        distinct.add(key)
                        for t in res.node["demand"].index:
                            st = res.link["status"].loc[t]
                            open_links = [(a, b) for (nm, a, b) in names if st[nm] != 0]
                            iso = set(_reference_isolated(juncs, ["R"], open_links))
                            for j in juncs:
                                d, p = res.node["demand"].loc[t, j], res.node["pressure"].loc[t, j]
                                fl = [res.link["flowrate"].loc[t, nm] for (nm, a, b) in names if j in (a, b)]
                                if j in iso:
                                    ok = d == 0 and p == 0 and all(f == 0 for f in fl)
                                else:
                                    ok = abs(d - 0.001) < 1e-9
                                if not ok:
                                    failures.append(dict(case=key, time=int(t), junction=j, isolated_by_reference=(j in iso),
                                                         demand=float(d), pressure=float(p), flows=[float(f) for f in fl]))
                        if len(samples) < 3:
                            samples.append(dict(links=[(a, b, "closed" if c else "open") for (nm, a, b), c in zip(names, closed)], toggled_at_3600=list(sched)))
        return dict(evaluations=evals, distinct_nontrivial=len(distinct), failures=failures[:10], samples=samples, exhaustive=True,
                    scope="shard %d/%d of: 1 reservoir + 3 junctions, every subset of <= %d links out of 6 candidate pairs (one parallel pair), "
                          "every open/closed labelling, one link toggled at t=3600 (none / first / last); 3 reported steps each; "
                          "reference = BFS over links reported not closed" % (shard, nshards, maxl))



import wntr.sim.network_isolation._network_isolation as _ni
out = run(tier, seed)
out["extension"] = _ni.__file__
print(json.dumps(out))
