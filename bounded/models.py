"""Enumerated feature models for the bounded round-trip stand-ins (C12, C13, C11, C03)."""
import itertools
import os
import warnings

import wntr
from wntr.network import LinkStatus
from wntr.network.controls import (Control, Rule, ControlAction, ValueCondition, SimTimeCondition, TimeOfDayCondition, AndCondition, OrCondition,
                                   RelativeCondition, Comparison)


def repo_root():
    return os.path.dirname(os.path.dirname(os.path.abspath(wntr.__file__)))


def base_model(variant=0):
    """every node/link kind, every valve type, curves, patterns, multi-demand junction, vertices, tags, sources."""
    wn = wntr.network.WaterNetworkModel()
    wn.name = "feature model %d" % variant
    wn.add_pattern("pat1", [1.0, 1.2, 0.8, 1.1])
    wn.add_pattern("pat2", [0.5, 1.5])
    wn.add_curve("pc1", "HEAD", [(0.05, 30.0)])
    wn.add_curve("pc3", "HEAD", [(0.0, 40.0), (0.05, 30.0), (0.1, 10.0)])
    wn.add_curve("vc", "VOLUME", [(0.0, 0.0), (2.0, 60.0), (6.0, 300.0)])
    wn.add_curve("hl", "HEADLOSS", [(0.0, 0.0), (0.05, 2.0), (0.1, 9.0)])
    wn.add_curve("spare_unsorted", None, [(3.0, 1.0), (1.0, 2.0), (2.0, 0.5)])      # curves keep the order of their points
    wn.add_reservoir("R1", base_head=50.0, head_pattern="pat2", coordinates=(0.0, 0.0))
    wn.add_tank("T1", elevation=30.0, init_level=3.0, min_level=1.0, max_level=6.0, diameter=12.0, coordinates=(50.0, 40.0))
    wn.add_tank("T2", elevation=28.0, init_level=2.0, min_level=0.5, max_level=5.5, diameter=10.0, vol_curve="vc", coordinates=(60.0, 45.0))
    for i in range(1, 9):
        wn.add_junction("J%d" % i, base_demand=0.001 * i, demand_pattern="pat1" if i % 2 else None, elevation=5.0 * i, coordinates=(10.0 * i, 5.0 * (i % 3)),
                        demand_category=("dom" if i == 3 else None))
    wn.get_node("J2").add_demand(0.0005, "pat2", "ind")
    wn.get_node("J2").add_demand(0.0002, None, "com")
    wn.get_node("J3").add_demand(0.0003, None, None)          # a later demand without a category after a first one with a category
    wn.get_node("J4").tag = "zoneA"
    wn.get_node("J5").emitter_coefficient = 0.002
    wn.get_node("J6").initial_quality = 0.4
    wn.add_pipe("P1", "R1", "J1", length=100.0, diameter=0.4, roughness=120.0, minor_loss=0.0)
    wn.add_pipe("P2", "J1", "J2", length=200.0, diameter=0.3, roughness=110.0, minor_loss=0.5, initial_status="OPEN")
    wn.add_pipe("P3", "J2", "J3", length=150.0, diameter=0.25, roughness=100.0, check_valve=True)
    wn.add_pipe("P4", "J3", "T1", length=80.0, diameter=0.3, roughness=100.0, initial_status="CLOSED")
    wn.add_pipe("P5", "J2", "J4", length=120.0, diameter=0.2, roughness=90.0)
    wn.add_pipe("P6", "J8", "T2", length=60.0, diameter=0.3, roughness=100.0)
    wn.get_link("P2").vertices = [(12.0, 7.0), (17.0, 9.0)]
    wn.get_link("P5").tag = "main"
    wn.get_link("P5").bulk_coeff = -0.5 / 86400.0
    wn.get_link("P5").wall_coeff = -0.1 / 86400.0
    wn.add_pump("PU1", "J4", "J5", pump_type="HEAD", pump_parameter="pc1", speed=1.0)
    wn.add_pump("PU2", "J4", "J6", pump_type="POWER", pump_parameter=5000.0, pattern="pat2")
    wn.add_pump("PU3", "J1", "J7", pump_type="HEAD", pump_parameter="pc3", initial_status="CLOSED")
    wn.get_link("PU1").vertices = [(42.0, 3.0)]
    wn.get_link("PU2").energy_price = 0.12
    wn.add_valve("V1", "J5", "J6", diameter=0.3, valve_type="PRV", minor_loss=0.1, initial_setting=20.0)
    wn.add_valve("V2", "J6", "J7", diameter=0.3, valve_type="PSV", initial_setting=15.0, initial_status="OPEN")
    wn.add_valve("V3", "J7", "J8", diameter=0.25, valve_type="FCV", initial_setting=0.01)
    wn.add_valve("V4", "J5", "J8", diameter=0.25, valve_type="TCV", initial_setting=3.0, initial_status="CLOSED")
    wn.add_valve("V5", "J3", "J7", diameter=0.25, valve_type="PBV", initial_setting=4.0)
    wn.add_valve("V6", "J3", "J8", diameter=0.25, valve_type="GPV", initial_setting="hl")
    wn.get_link("V1").vertices = [(55.0, 2.0)]
    wn.get_link("V2").tag = "ctrl-valve"
    # overflow flags in every combination with a volume curve over the variants: (plain, curve) = (no, no), (yes, yes), (no, yes)
    wn.get_node("T1").overflow = variant == 1
    # every tank mixing model over the variants (with a mixing fraction, once exactly 0.0)
    wn.get_node("T1").mixing_model = ("MIXED", "2COMP", "FIFO")[variant % 3]
    wn.get_node("T2").mixing_model = ("2COMP", "LIFO", "MIXED")[variant % 3]
    # (the INP format carries a mixing fraction for the two-compartment model only)
    wn.get_node("T1").mixing_fraction = (None, 0.0, None)[variant % 3]
    wn.get_node("T2").mixing_fraction = (0.25, None, None)[variant % 3]
    wn.get_node("T2").overflow = variant in (1, 2)
    if variant in (0, 1):
        wn.get_node("J7").add_leak(wn, area=0.001, discharge_coeff=0.7)
        wn.get_node("T1").add_leak(wn, area=0.002, discharge_coeff=0.6)
    if variant == 2:      # leaks with start / end times (these add leak_status controls on nodes)
        wn.get_node("J7").add_leak(wn, area=0.001, discharge_coeff=0.7, start_time=3600, end_time=4 * 3600)
        wn.get_node("T1").add_leak(wn, area=0.002, discharge_coeff=0.6, start_time=2 * 3600, end_time=None)
    wn.add_source("S1", "J1", "CONCEN", 1.2, "pat1")
    wn.add_source("S2", "R1", "MASS", 0.5, None)
    wn.options.time.duration = 6 * 3600
    wn.options.time.hydraulic_timestep = 1800
    wn.options.time.pattern_timestep = 3600
    wn.options.time.report_timestep = 3600
    wn.options.time.start_clocktime = 2 * 3600
    wn.options.hydraulic.demand_multiplier = 1.1
    wn.options.hydraulic.headloss = "H-W"
    wn.options.quality.parameter = "CHEMICAL"
    wn.options.quality.chemical_name = "Cl"
    wn.options.reaction.bulk_coeff = -0.3 / 86400.0
    wn.options.energy.global_price = 0.1
    wn.options.energy.global_efficiency = 70.0
    if variant == 1:
        wn.options.hydraulic.demand_model = "PDA"
        wn.options.hydraulic.required_pressure = 20.0
        wn.options.hydraulic.minimum_pressure = 2.0
        wn.options.hydraulic.pressure_exponent = 0.6
        wn.options.time.rule_timestep = 600
    return wn


def add_controls(wn, which="all"):
    """simple controls of every form and rules with AND / OR / ELSE / priority"""
    p2, p5, pu1, v1 = wn.get_link("P2"), wn.get_link("P5"), wn.get_link("PU1"), wn.get_link("V1")
    t1, j3 = wn.get_node("T1"), wn.get_node("J3")
    n = 0

    def add(c, name=None):
        nonlocal n
        n += 1
        wn.add_control(name or ("ctl%d" % n), c)
    if which in ("all", "simple"):
        add(Control(ValueCondition(t1, "level", "<", 2.0), ControlAction(p2, "status", LinkStatus.Open)))
        add(Control(ValueCondition(t1, "level", ">", 5.0), ControlAction(p2, "status", LinkStatus.Closed)))
        add(Control(ValueCondition(j3, "pressure", "<", 10.0), ControlAction(pu1, "status", LinkStatus.Open)))
        add(Control._time_control(wn, 3 * 3600 + 600, "SIM_TIME", False, ControlAction(p5, "status", LinkStatus.Closed)))
        add(Control._time_control(wn, 5 * 3600, "CLOCK_TIME", True, ControlAction(p5, "status", LinkStatus.Open)))
        # instants that are not whole minutes, also beyond 100 h (decimal hours with six digits cannot carry them)
        add(Control._time_control(wn, 11401, "SIM_TIME", False, ControlAction(p2, "status", LinkStatus.Closed)))
        add(Control._time_control(wn, 360001, "SIM_TIME", False, ControlAction(p2, "status", LinkStatus.Open)))
        add(Control._time_control(wn, 13 * 3600 + 59, "CLOCK_TIME", True, ControlAction(pu1, "status", LinkStatus.Open)))
        add(Control(ValueCondition(t1, "level", ">", 4.0), ControlAction(v1, "setting", 25.0)))
        add(Control(ValueCondition(t1, "level", "<", 1.5), ControlAction(pu1, "base_speed", 0.8)))
    if which in ("all", "rules"):
        a = ValueCondition(t1, "level", ">=", 4.5)
        b = ValueCondition(j3, "pressure", "<=", 30.0)
        c = SimTimeCondition(wn, ">=", 2 * 3600)
        d = ValueCondition(p2, "status", "=", LinkStatus.Open)
        add(Rule(a, [ControlAction(p5, "status", LinkStatus.Closed)], name="r_simple", priority=3), "r_simple")
        add(Rule(AndCondition(a, b), [ControlAction(p5, "status", LinkStatus.Closed)], [ControlAction(p5, "status", LinkStatus.Open)], name="r_and_else", priority=5), "r_and_else")
        add(Rule(OrCondition(a, c), [ControlAction(p2, "status", LinkStatus.Open), ControlAction(v1, "setting", 18.0)], name="r_or", priority=1), "r_or")
        add(Rule(AndCondition(d, c), [ControlAction(pu1, "status", LinkStatus.Closed)], name="r_status_time"), "r_status_time")
    return wn


def add_rule_units(wn):
    """rules whose conditions and THEN / ELSE actions carry a value of every convertible kind: settings of every valve type, demand,
    head, level, pressure, flow; clock times in the twelve o'clock hours and at midnight; sim times with seconds"""
    t1, j3, p2, p5 = wn.get_node("T1"), wn.get_node("J3"), wn.get_link("P2"), wn.get_link("P5")
    valves = [wn.get_link(v) for v in ("V1", "V2", "V3", "V4", "V5")]      # PRV PSV FCV TCV PBV
    vals = {"PRV": (21.0, 23.5), "PSV": (14.0, 16.5), "FCV": (0.012, 0.017), "TCV": (2.5, 4.5), "PBV": (18.0, 5.5)}
    for v in valves:
        a, b = vals[v.valve_type]
        wn.add_control("r_set_%s" % v.valve_type, Rule(ValueCondition(t1, "level", ">", 4.0 + 0.1 * len(v.name)),
                                                       [ControlAction(v, "setting", a)], [ControlAction(v, "setting", b)], name="r_set_%s" % v.valve_type, priority=2))
        wn.add_control("r_if_%s" % v.valve_type, Rule(ValueCondition(v, "setting", "<", a), [ControlAction(p5, "status", LinkStatus.Closed)], name="r_if_%s" % v.valve_type))
    conds = [ValueCondition(j3, "demand", ">", 0.004), ValueCondition(j3, "head", "<", 41.5), ValueCondition(t1, "level", ">=", 3.25),
             ValueCondition(j3, "pressure", "<=", 26.5), ValueCondition(p2, "flow", ">", 0.0123),
             TimeOfDayCondition(wn, "=", 1800), TimeOfDayCondition(wn, ">=", 12 * 3600 + 900), TimeOfDayCondition(wn, "<", 0),
             TimeOfDayCondition(wn, ">", 13 * 3600 + 30), SimTimeCondition(wn, ">=", 5 * 3600 + 30 * 60 + 15), SimTimeCondition(wn, "=", 45)]
    for i, c in enumerate(conds):
        wn.add_control("r_cond_%d" % i, Rule(c, [ControlAction(p2, "status", LinkStatus.Open)], [ControlAction(p2, "status", LinkStatus.Closed)], name="r_cond_%d" % i))
    return wn


def reactions_model():
    """reaction orders other than one with per-pipe and per-tank coefficients (their conversion depends on the order)"""
    wn = base_model(0)
    wn.options.reaction.bulk_order = 2.0
    wn.options.reaction.wall_order = 0.0
    wn.options.reaction.tank_order = 2.0
    wn.options.reaction.bulk_coeff = -0.25
    wn.options.reaction.wall_coeff = -3e-6
    wn.get_link("P5").bulk_coeff = -0.3
    wn.get_link("P5").wall_coeff = -2e-6
    wn.get_link("P2").wall_coeff = -1e-6
    wn.get_node("T1").bulk_coeff = -0.2
    return wn


def options_model():
    """every option field carries a value different from its default and from every other field's"""
    wn = base_model(0)
    t, h, q, r, e = wn.options.time, wn.options.hydraulic, wn.options.quality, wn.options.reaction, wn.options.energy
    t.duration, t.hydraulic_timestep, t.quality_timestep, t.rule_timestep = 7 * 3600, 1800, 300, 450
    t.pattern_timestep, t.pattern_start, t.report_timestep, t.report_start, t.start_clocktime, t.statistic = 7200, 3600, 900, 2700, 12 * 3600 + 1800, "AVERAGED"
    h.viscosity, h.specific_gravity, h.demand_multiplier = 1.1, 0.98, 1.3
    h.demand_model, h.minimum_pressure, h.required_pressure, h.pressure_exponent, h.emitter_exponent = "PDA", 3.0, 21.0, 0.6, 0.45
    h.trials, h.accuracy, h.unbalanced, h.unbalanced_value, h.checkfreq, h.maxcheck, h.damplimit, h.headerror, h.flowchange = 150, 0.002, "CONTINUE", 7, 3, 11, 0.01, 0.0004, 0.0005
    q.parameter, q.chemical_name, q.diffusivity, q.tolerance = "CHEMICAL", "Cl2", 1.2, 0.02
    r.bulk_coeff, r.wall_coeff, r.limiting_potential, r.roughness_correl = -0.4 / 86400.0, -0.2 / 86400.0, 1.5, 0.25
    e.global_price, e.global_pattern, e.global_efficiency, e.demand_charge = 0.11 / 3600000.0, "pat2", 68.0, 2.5
    return wn


def add_multi_action_rule(wn):
    """a rule with several THEN and several ELSE actions"""
    t1, p2, p5, pu1, v1 = wn.get_node("T1"), wn.get_link("P2"), wn.get_link("P5"), wn.get_link("PU1"), wn.get_link("V1")
    wn.add_control("r_multi", Rule(ValueCondition(t1, "level", ">", 4.25),
                                   [ControlAction(p2, "status", LinkStatus.Closed), ControlAction(v1, "setting", 22.0)],
                                   [ControlAction(p2, "status", LinkStatus.Open), ControlAction(p5, "status", LinkStatus.Open), ControlAction(pu1, "status", LinkStatus.Closed)],
                                   name="r_multi", priority=4))
    return wn


def dict_only_models():
    """states a dictionary can carry but an INP file cannot (C13 only)"""
    wn = base_model(0)
    wn.add_pipe("P7", "J6", "J8", length=90.0, diameter=0.2, roughness=95.0, check_valve=True)
    wn.get_link("P7").initial_status = LinkStatus.Closed          # a check-valve pipe that starts closed (set on the element, not through add_pipe)
    out = [("feature:dict_only", wn)]
    # options in states the setters allow in one order only, and entries that are None
    w2 = base_model(1)
    w2.options.time.quality_timestep = 300
    w2.options.time.rule_timestep = 300
    w2.options.time.hydraulic_timestep = 60          # lowered afterwards: quality and rule steps are now longer than the hydraulic step
    w2.options.time.report_timestep = 30
    w2.options.time.pattern_timestep = 45
    w2.options.hydraulic.pattern = None                # no default demand pattern
    w2.options.hydraulic.unbalanced_value = None
    w2.options.quality.parameter = "NONE"
    out.append(("feature:options_set_in_another_order_and_none_entries", w2))
    # a model that has been simulated and not reset (it carries results: heads, demands, leak demands, statuses, the clock)
    import wntr
    import os
    w3 = wntr.network.WaterNetworkModel(os.path.join(repo_root(), "examples/networks/Net1.inp"))
    w3.options.time.duration = 3 * 3600
    w3.get_node("22").add_leak(w3, area=0.0005, start_time=0, end_time=7200)
    wntr.sim.WNTRSimulator(w3).run_sim()
    out.append(("feature:simulated_and_not_reset", w3))
    return out


def rule_tree_models():
    """condition trees over AND / OR up to depth 2 on three atoms (pre-survey finding 21)"""
    out = []
    shapes = ["a", "and(a,b)", "or(a,b)", "or(and(a,b),c)", "and(a,or(b,c))", "and(and(a,b),c)", "or(or(a,b),c)", "and(or(a,b),c)", "or(a,and(b,c))"]
    for shape in shapes:
        wn = base_model()
        t1, j3, p2 = wn.get_node("T1"), wn.get_node("J3"), wn.get_link("P2")
        atoms = dict(a=ValueCondition(t1, "level", ">=", 4.5), b=ValueCondition(j3, "pressure", "<=", 30.0), c=ValueCondition(t1, "level", "<=", 2.5))

        def build(s):
            s = s.strip()
            if s in atoms:
                return atoms[s]
            op, rest = s.split("(", 1)
            rest = rest[:-1]
            depth, cut = 0, None
            for i, ch in enumerate(rest):
                depth += ch == "("
                depth -= ch == ")"
                if ch == "," and depth == 0:
                    cut = i
                    break
            l, r = build(rest[:cut]), build(rest[cut + 1:])
            return AndCondition(l, r) if op == "and" else OrCondition(l, r)
        wn.add_control("r_tree", Rule(build(shape), [ControlAction(p2, "status", LinkStatus.Closed)], name="r_tree"))
        out.append((shape, wn))
    return out


def example_networks(tier):
    root = repo_root()
    rel = ["examples/networks/Net1.inp", "examples/networks/Net2.inp", "examples/networks/Net3.inp",
           "wntr/tests/networks_for_testing/io.inp", "wntr/tests/networks_for_testing/Anytown.inp"]
    if tier == "thorough":
        rel += ["examples/networks/Net6.inp", "wntr/tests/networks_for_testing/conditional_controls_1.inp",
                "wntr/tests/networks_for_testing/time_controls.inp", "wntr/tests/networks_for_testing/cv_controls.inp"]
    return [(r, os.path.join(root, r)) for r in rel]


def all_models(tier):
    out = [("feature:plain", base_model(0)), ("feature:pda", base_model(1)), ("feature:timed_leaks", base_model(2)), ("feature:simple_controls", add_controls(base_model(0), "simple")),
           ("feature:rules", add_controls(base_model(0), "rules")), ("feature:all_controls", add_controls(base_model(1), "all")),
           ("feature:rule_units", add_multi_action_rule(add_rule_units(base_model(0)))), ("feature:reactions", reactions_model()), ("feature:options", options_model())]
    for rel, path in example_networks(tier):
        with warnings.catch_warnings():
            warnings.simplefilter("ignore")
            out.append((rel, wntr.network.WaterNetworkModel(path)))
    return out


def normalize_json(x):
    """JSON normalisation allowed by the property: tuples -> lists; an empty pattern name is no pattern"""
    if isinstance(x, dict):
        return {k: (None if (v == "" and isinstance(k, str) and k.endswith("pattern")) or (v == "" and k == "pattern_name") else normalize_json(v)) for k, v in x.items()}
    if isinstance(x, (list, tuple)):
        return [normalize_json(v) for v in x]
    try:
        import numpy as np
        if isinstance(x, np.generic):
            return x.item()
    except Exception:
        pass
    return x


def diff(a, b, path="", tol=0.0, out=None, limit=12):
    """list of (path, a, b) where the two nested structures differ"""
    out = [] if out is None else out
    if len(out) >= limit:
        return out
    if isinstance(a, dict) and isinstance(b, dict):
        for k in sorted(set(a) | set(b), key=str):
            if k not in a or k not in b:
                out.append((path + "/" + str(k), a.get(k, "<missing>"), b.get(k, "<missing>")))
            else:
                diff(a[k], b[k], path + "/" + str(k), tol, out, limit)
    elif isinstance(a, (list, tuple)) and isinstance(b, (list, tuple)):
        if len(a) != len(b):
            out.append((path + "#len", len(a), len(b)))
        else:
            for i, (x, y) in enumerate(zip(a, b)):
                diff(x, y, path + "[%d]" % i, tol, out, limit)
    elif isinstance(a, (int, float)) and isinstance(b, (int, float)) and not isinstance(a, bool) and not isinstance(b, bool):
        both_nan = (a != a) and (b != b)
        if not both_nan and not (abs(a - b) <= tol * max(1.0, abs(a), abs(b))):      # a NaN on one side only is a difference
            out.append((path, a, b))
    elif a != b:
        out.append((path, a, b))
    return out


# ---------------------------------------------------------------------------- semantic view for the INP round trip (C12)

WNTR_ONLY_NODE_KEYS = {"leak", "leak_area", "leak_discharge_coeff", "minimum_pressure", "required_pressure", "pressure_exponent"}


def inp_view(wn):
    """what an INP file can carry (statement of C12): elements by name, attributes, patterns, curves that are referred to,
    demand categories, sources without names, options, controls and rules. WNTR-only settings are left out."""
    d = normalize_json(wntr.network.to_dict(wn))
    existing = {p["name"] for p in d["patterns"] if len(p["multipliers"]) > 0}

    def pat(x):      # a pattern name that refers to no (non-empty) pattern means "no pattern"
        return x if x in existing else None
    nodes = {}
    for n in d["nodes"]:
        n = dict(n)
        for k in WNTR_ONLY_NODE_KEYS:
            n.pop(k, None)
        for dem in n.get("demand_timeseries_list", []) or []:
            dem["pattern_name"] = pat(dem.get("pattern_name"))
        for k in ("demand_pattern", "pattern_name", "head_pattern_name"):
            if k in n:
                n[k] = pat(n[k])
        if "coordinates" in n and n["coordinates"] is not None:
            n["coordinates"] = [float(x) for x in n["coordinates"]]
        nodes[n["name"]] = n
    links = {}
    for l in d["links"]:
        l = dict(l)
        l["vertices"] = [[float(x) for x in v] for v in l.get("vertices", [])]
        links[l["name"]] = l
    used_curves = set()
    for l in links.values():
        for k in ("pump_curve_name", "headloss_curve_name"):
            if l.get(k):
                used_curves.add(l[k])
        if l.get("efficiency") and isinstance(l["efficiency"], dict):
            used_curves.add(l["efficiency"].get("name"))
    for n in nodes.values():
        if n.get("vol_curve_name"):
            used_curves.add(n["vol_curve_name"])
    curves = {c["name"]: c for c in d["curves"] if c["name"] in used_curves}
    patterns = {p["name"]: p for p in d["patterns"] if len(p["multipliers"]) > 0}
    sources = sorted((s["node_name"], s["source_type"], round(float(s["strength"]), 9), s["pattern"] or None) for s in d["sources"])
    controls = sorted(json_key(c) for c in (strip_control(c) for c in d["controls"]))
    opts = copy_opts(d["options"])
    if "hydraulic" in opts:
        opts["hydraulic"]["pattern"] = pat(opts["hydraulic"].get("pattern"))
    return dict(nodes=nodes, links=links, curves=curves, patterns=patterns, sources=sources, controls=controls, options=opts)


def strip_control(c):
    c = dict(c)
    if c.get("type") == "simple":
        c.pop("name", None)      # simple controls have no names in an INP file
    return c


def json_key(c):
    import json
    return json.dumps(c, sort_keys=True, default=str)


def copy_opts(o):
    import copy
    o = copy.deepcopy(o)
    o.get("time", {}).pop("pattern_interpolation", None)              # WNTR-only
    o.get("hydraulic", {}).pop("inpfile_units", None)                 # the unit system the file is written in (an argument of write_inpfile)
    o.get("hydraulic", {}).pop("inpfile_pressure_units", None)
    o.pop("graphics", None)
    o.pop("user", None)
    o.get("report", {})
    return o


def simulable(wn):
    """the same model without the valve types WNTRSimulator does not support (PBV, GPV)"""
    for v in ("V5", "V6"):
        if v in wn.valve_name_list:
            wn.remove_link(v, with_control=True)
    return wn


def simulable_models(tier):
    out = []
    for name, wn in all_models(tier):
        if name.startswith("feature:"):
            wn = simulable(wn)
        elif any(v.valve_type in ("PBV", "GPV") for _, v in wn.valves()):
            continue
        out.append((name, wn))
    return out


def simulation_networks(tier):
    """hydraulically meaningful networks for the simulation-based stand-ins (C11, C03)"""
    root = repo_root()
    rel = ["examples/networks/Net1.inp", "examples/networks/Net3.inp", "wntr/tests/networks_for_testing/Anytown.inp",
           "wntr/tests/networks_for_testing/conditional_controls_1.inp", "wntr/tests/networks_for_testing/time_controls.inp",
           "wntr/tests/networks_for_testing/tank_controls_1.inp", "wntr/tests/networks_for_testing/cv_controls.inp",
           "wntr/tests/networks_for_testing/control_comb.inp", "wntr/tests/networks_for_testing/leaks.inp"]
    if tier == "thorough":
        rel += ["examples/networks/Net2.inp", "examples/networks/Net6.inp", "wntr/tests/networks_for_testing/tank_controls_2.inp",
                "wntr/tests/networks_for_testing/conditional_controls_2.inp"]
    out = []
    for r in rel:
        with warnings.catch_warnings():
            warnings.simplefilter("ignore")
            out.append((r, wntr.network.WaterNetworkModel(os.path.join(root, r))))
    return out
