"""C05 bounded stand-in: reported states of the real WNTRSimulator against every simple conditional control of the model.

At every reported step, for every simple control (ValueCondition / TankLevelCondition on a tank level, tank head or junction pressure, one link action)
whose condition holds on the REPORTED state (beyond a small margin), the target link has the commanded status / setting - with the exceptions the property
names: commanded open may be overridden by the link's own check valve, a pump's shut-off rule or an adjacent tank at a level limit (such targets are only
checked for commanded *closed*), and a conflicting triggered control of equal or higher priority.  Not exhaustive: listed networks + random thresholds."""
import os
import warnings
import logging


def repo_root():
    import wntr
    return os.path.dirname(os.path.dirname(os.path.abspath(wntr.__file__)))


def _generated(rng):
    """reservoir - pump - junction - tank with a second branch; random hysteresis pair on the tank level and a pressure control on a side pipe"""
    import wntr
    from wntr.network.controls import Control, ControlAction, ValueCondition, ControlPriority
    wn = wntr.network.WaterNetworkModel()
    wn.add_pattern("dp", [rng.choice([0.4, 1.0, 1.8]) for _ in range(6)])
    wn.add_reservoir("R", base_head=10.0)
    wn.add_junction("A", base_demand=0.0, elevation=0.0)
    wn.add_junction("B", base_demand=rng.choice([0.01, 0.02]), elevation=5.0, demand_pattern="dp")
    wn.add_junction("C", base_demand=0.004, elevation=8.0)
    wn.add_tank("T", elevation=35.0, init_level=rng.uniform(2.0, 4.0), min_level=0.5, max_level=6.0, diameter=rng.choice([6.0, 9.0]))
    wn.add_curve("pc", "HEAD", [(0.0, 60.0), (0.03, 45.0), (0.06, 10.0)])
    wn.add_pump("P", "R", "A", pump_type="HEAD", pump_parameter="pc")
    wn.add_pipe("AB", "A", "B", length=400, diameter=0.25, roughness=110)
    wn.add_pipe("BT", "B", "T", length=300, diameter=0.25, roughness=110)
    wn.add_pipe("BC", "B", "C", length=200, diameter=0.15, roughness=100)
    wn.add_pipe("AC", "A", "C", length=500, diameter=0.15, roughness=100)
    lo, hi = rng.uniform(1.0, 2.8), rng.uniform(3.2, 5.5)
    attr = rng.choice(["level", "head", "pressure"])
    off = 35.0 if attr == "head" else 0.0
    prios = rng.sample(list(ControlPriority), 2)
    wn.add_control("pump_on", Control(ValueCondition(wn.get_node("T"), attr, "<", lo + off), ControlAction(wn.get_link("P"), "status", 1), priority=prios[0]))
    wn.add_control("pump_off", Control(ValueCondition(wn.get_node("T"), attr, ">", hi + off), ControlAction(wn.get_link("P"), "status", 0), priority=prios[1]))
    thr = rng.uniform(20.0, 45.0)
    wn.add_control("side_closed", Control(ValueCondition(wn.get_node("C"), "pressure", rng.choice(["<", "<="]), thr), ControlAction(wn.get_link("AC"), "status", 0)))
    wn.add_control("side_open", Control(ValueCondition(wn.get_node("C"), "pressure", rng.choice([">", ">="]), thr + rng.uniform(2.0, 8.0)), ControlAction(wn.get_link("AC"), "status", 1)))
    wn.options.time.duration = 12 * 3600
    wn.options.time.hydraulic_timestep = rng.choice([900, 1800, 3600])
    wn.options.time.pattern_timestep = 7200
    return wn


def run(tier, seed, shard, nshards):
    import random
    import operator
    import numpy as np
    import wntr
    from wntr.network.controls import Control, Rule, ValueCondition, TankLevelCondition, ControlAction, Comparison
    from wntr.network.elements import Tank, Junction, Pump, Pipe, Valve
    warnings.simplefilter("ignore")
    logging.disable(logging.CRITICAL)
    root = repo_root()
    rng = random.Random(seed * 811 + 3)
    files = ["examples/networks/Net1.inp", "examples/networks/Net3.inp", "wntr/tests/networks_for_testing/tank_controls_1.inp",
             "wntr/tests/networks_for_testing/conditional_controls_1.inp", "wntr/tests/networks_for_testing/conditional_controls_2.inp",
             "wntr/tests/networks_for_testing/control_comb.inp"]
    nets = [("file:" + f) for f in files] + ["generated:%d" % i for i in range(24 if tier == "quick" else 160)]
    OPS = {Comparison.gt: operator.gt, Comparison.ge: operator.ge, Comparison.lt: operator.lt, Comparison.le: operator.le, Comparison.eq: operator.eq, Comparison.ne: operator.ne}
    evals, distinct, failures, samples = 0, set(), [], []
    for i, rel in enumerate(nets):
        gen_rng = random.Random(seed * 977 + i)
        if i % nshards != shard:
            continue
        try:
            if rel.startswith("file:"):
                wn = wntr.network.WaterNetworkModel(os.path.join(root, rel[5:]))
                wn.options.time.duration = min(wn.options.time.duration, 24 * 3600)
            else:
                wn = _generated(gen_rng)
            wn.options.time.report_timestep = "ALL" if rel.startswith("generated:") else wn.options.time.hydraulic_timestep
            res = wntr.sim.WNTRSimulator(wn).run_sim()
        except Exception as e:
            failures.append(dict(net=rel, raised=repr(e)[:200]))
            continue
        if res.error_code is not None:
            continue            # the property speaks of runs that converge
        simple = []
        for cn, c in wn.controls():
            if type(c) is not Control:
                continue
            cond = c.condition
            if not isinstance(cond, ValueCondition):
                continue
            src, attr = cond._source_obj, cond._source_attr
            if not ((isinstance(src, Tank) and attr in ("level", "head", "pressure")) or (isinstance(src, Junction) and attr in ("pressure", "head"))):
                continue
            acts = list(c.actions())
            if len(acts) != 1 or not isinstance(acts[0], ControlAction):
                continue
            tgt, a_attr = acts[0].target()
            if a_attr not in ("status", "setting"):
                continue
            simple.append((cn, c, src, attr, cond._relation, float(cond._threshold), tgt, a_attr, acts[0]._value, c.priority))
        if not simple:
            continue
        head, pres, stat = res.node["head"], res.node["pressure"], res.link["status"]
        sett = res.link["setting"] if "setting" in res.link else None

        def value(src, attr, t):
            if attr == "head":
                return float(head.loc[t, src.name])
            if isinstance(src, Tank):     # level and "pressure" of a tank: head above the tank's elevation
                return float(head.loc[t, src.name]) - src.elevation
            return float(pres.loc[t, src.name])

        def holds(relation, v, thr):
            margin = 1e-6 * max(1.0, abs(thr))
            if relation in (Comparison.gt, Comparison.ge):
                return v > thr + margin
            if relation in (Comparison.lt, Comparison.le):
                return v < thr - margin
            return False
        tank_names = set(wn.tank_name_list)
        # partial steps (every solved step is reported for the generated networks): a cylindrical tank's level / head / pressure threshold is first met
        # within the level change of about two seconds of the tank's flow, not overshot by a hydraulic step
        if rel.startswith("generated:"):
            import math
            tdem = res.node["demand"]
            times = list(stat.index)
            for (cn, c, src, attr, r_, thr, tgt, a_attr, val, pr) in simple:
                if not isinstance(src, Tank) or src.vol_curve is not None:
                    continue
                area = math.pi * src.diameter ** 2 / 4.0
                for a, b in zip(times, times[1:]):
                    if not holds(r_, value(src, attr, a), thr) and value(src, attr, a) != thr and holds(r_, value(src, attr, b), thr):
                        qmax = max(abs(float(tdem.loc[a, src.name])), abs(float(tdem.loc[b, src.name])))
                        excess = abs(value(src, attr, b) - thr)
                        evals += 1
                        distinct.add((rel, cn, "partial_step"))
                        if not (excess <= 2.0 * qmax / area + 1e-6):
                            failures.append(dict(net=rel, control=cn, threshold=thr, first_holds_at=int(b), value=value(src, attr, b), overshoot=excess,
                                                 two_seconds_of_flow=2.0 * qmax / area, previous_step=int(a)))
        for t in stat.index:
            triggered = [(cn, tgt, a_attr, val, pr) for (cn, c, src, attr, r_, thr, tgt, a_attr, val, pr) in simple if holds(r_, value(src, attr, t), thr)]
            for (cn, tgt, a_attr, val, pr) in triggered:
                conflict = any(t2 is tgt and a2 == a_attr and v2 != val and p2 >= pr for (c2, t2, a2, v2, p2) in triggered if c2 != cn)
                if conflict:
                    continue
                evals += 1
                distinct.add((rel, cn))
                if a_attr == "status":
                    want = int(val)
                    got = int(stat.loc[t, tgt.name])
                    if want == 0:
                        ok = got == 0
                    else:
                        excepted = isinstance(tgt, Pump) or (isinstance(tgt, Pipe) and (tgt.check_valve or tgt.cv)) if hasattr(tgt, "cv") else (isinstance(tgt, Pump) or (isinstance(tgt, Pipe) and tgt.check_valve))
                        excepted = excepted or tgt.start_node_name in tank_names or tgt.end_node_name in tank_names
                        ok = True if excepted else got != 0
                    if not ok:
                        failures.append(dict(net=rel, time=int(t), control=cn, target=tgt.name, commanded_status=want, reported_status=got))
                elif sett is not None and tgt.name in sett.columns:
                    got = float(sett.loc[t, tgt.name])
                    if not (abs(got - float(val)) <= 1e-9 * max(1.0, abs(float(val)))):
                        failures.append(dict(net=rel, time=int(t), control=cn, target=tgt.name, commanded_setting=float(val), reported_setting=got))
            if len(failures) > 20:
                break
        if len(samples) < 3:
            samples.append(dict(net=rel, simple_controls=len(simple), reported_steps=len(stat.index)))
    return dict(evaluations=evals, distinct_nontrivial=len(distinct), failures=failures[:10], samples=samples, exhaustive=False,
                scope="shard %d/%d: %d networks (six files with simple conditional controls + generated ones with a hysteresis pair on a tank level / head under random "
                      "priorities and a junction-pressure pair): at every reported step every simple control whose condition holds on the reported state finds its target "
                      "in the commanded status / setting (commanded open only checked where neither check valve, pump shut-off nor an adjacent tank can override it; "
                      "conflicting triggered controls of equal or higher priority excepted); generated networks with report step ALL: a tank threshold is first met within two "
                      "seconds of the tank's flow (partial step)" % (shard, nshards, len(nets)))
