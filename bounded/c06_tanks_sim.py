"""C06 bounded stand-in for cylindrical tanks on the real simulator (report step ALL: every solved step is visible).

Between consecutive solved steps the stored volume of every tank changes by its reported net inflow x elapsed time; levels stay within [min, max] up to
the level change of two seconds of the tank's flow; a tank at its minimum level does not discharge, one at its maximum does not fill (beyond the flow
tolerance).  Networks: repository files with tanks and generated ones whose demand drives the tank to either limit through pipes, a pump and a check valve."""
import os
import math
import warnings
import logging


def _generated(rng):
    import wntr
    wn = wntr.network.WaterNetworkModel()
    mode = rng.choice(["fills", "drains", "swings"])
    mult = {"fills": [0.1, 0.2, 0.1], "drains": [2.5, 3.0, 2.8], "swings": [0.1, 3.0, 0.2, 2.8]}[mode]
    wn.add_pattern("dp", mult)
    wn.add_reservoir("R", base_head=12.0)
    wn.add_junction("A", base_demand=0.0, elevation=0.0)
    wn.add_junction("B", base_demand=rng.choice([0.012, 0.02]), elevation=4.0, demand_pattern="dp")
    wn.add_tank("T", elevation=rng.choice([30.0, 33.0]), init_level=rng.uniform(1.5, 3.5), min_level=rng.choice([0.0, 0.8]), max_level=rng.choice([4.0, 5.0]), diameter=rng.choice([4.0, 6.0]))
    wn.add_curve("pc", "HEAD", [(0.0, 55.0), (0.03, 42.0), (0.06, 8.0)])
    wn.add_pump("P", "R", "A", pump_type="HEAD", pump_parameter="pc")
    wn.add_pipe("AB", "A", "B", length=300, diameter=0.25, roughness=110)
    wn.add_pipe("BT", "B", "T", length=200, diameter=0.25, roughness=110)
    if rng.random() < 0.6:      # a second connection of the tank: a check-valve pipe that can only fill it, or only drain it
        if rng.random() < 0.5:
            wn.add_pipe("AT", "A", "T", length=400, diameter=0.15, roughness=100, check_valve=True)
        else:
            wn.add_pipe("TB2", "T", "B", length=400, diameter=0.15, roughness=100, check_valve=True)
    if rng.random() < 0.35:      # a leak on the tank for part of the run (its reported demand is net of the leak)
        wn.get_node("T").add_leak(wn, area=rng.choice([0.0003, 0.001]), start_time=rng.choice([0, 3600, 5400]), end_time=rng.choice([None, 4 * 3600]))
    wn.options.time.duration = rng.choice([8, 12]) * 3600
    wn.options.time.hydraulic_timestep = rng.choice([900, 1800, 3600])
    wn.options.time.pattern_timestep = rng.choice([3600, 7200])
    wn.options.time.report_timestep = "ALL"
    return wn


def run(tier, seed, shard, nshards):
    import random
    import numpy as np
    import wntr
    warnings.simplefilter("ignore")
    logging.disable(logging.CRITICAL)
    root = os.path.dirname(os.path.dirname(os.path.abspath(wntr.__file__)))
    files = ["examples/networks/Net1.inp", "examples/networks/Net3.inp", "wntr/tests/networks_for_testing/tank_controls_1.inp", "wntr/tests/networks_for_testing/Anytown.inp"]
    nets = ["file:" + f for f in files] + ["generated:%d" % i for i in range(16 if tier == "quick" else 120)]
    QTOL = 2.83168e-6
    evals, distinct, failures, samples = 0, set(), [], []
    for i, rel in enumerate(nets):
        if i % nshards != shard:
            continue
        rng = random.Random(seed * 7919 + i)
        try:
            if rel.startswith("file:"):
                wn = wntr.network.WaterNetworkModel(os.path.join(root, rel[5:]))
                wn.options.time.duration = min(wn.options.time.duration, 24 * 3600)
                wn.options.time.report_timestep = "ALL"
            else:
                wn = _generated(rng)
            res = wntr.sim.WNTRSimulator(wn).run_sim()
        except Exception as e:
            failures.append(dict(net=rel, raised=repr(e)[:200]))
            continue
        if res.error_code is not None:
            continue
        head, dem = res.node["head"], res.node["demand"]
        leak = res.node["leak_demand"]
        ts = list(head.index)
        for tn, tank in wn.tanks():
            if tank.vol_curve is not None:
                continue
            area = math.pi * tank.diameter ** 2 / 4.0
            lvl = head[tn] - tank.elevation
            q = dem[tn]
            evals += 1
            distinct.add((rel, tn))
            prob = None
            if abs(float(lvl[ts[0]]) - tank.init_level) > 1e-9:
                prob = "the first reported level %.6f is not init_level %.6f" % (float(lvl[ts[0]]), tank.init_level)
            qmax = float(q.abs().max())
            for a, b in zip(ts, ts[1:]):
                dv = area * (float(lvl[b]) - float(lvl[a]))
                if not (abs(dv - float(q[a]) * (b - a)) <= 1e-6 * max(1.0, abs(float(q[a])) * (b - a))):
                    prob = "from t=%d to t=%d the volume changed by %.6g m3, net inflow x time is %.6g m3" % (a, b, dv, float(q[a]) * (b - a))
                    break
                two_s = 2.0 * qmax / area + 1e-6
                # a leak is not a link the level controls can close: a leaking tank may sink below its minimum level (stated exception of this stand-in)
                leaked = tn in leak.columns and bool((leak[tn].loc[:b] > 0).any())
                if float(lvl[b]) > tank.max_level + two_s or (float(lvl[b]) < tank.min_level - two_s and not leaked):
                    prob = "level %.5f at t=%d outside [%.3f, %.3f] by more than two seconds of flow (%.5f)" % (float(lvl[b]), b, tank.min_level, tank.max_level, two_s)
                    break
            if prob is None:
                for t in ts:
                    # at (or beyond) a limit the tank neither goes on draining nor filling
                    leaking = float(leak.loc[t, tn]) > 0 if tn in leak.columns else False      # a leak is not a link: it keeps draining a tank at its minimum level
                    if float(lvl[t]) <= tank.min_level + 1e-9 and float(q[t]) < -QTOL * 10 and not leaking:
                        prob = "tank at its minimum level (%.5f) discharges %.6g at t=%d" % (float(lvl[t]), float(q[t]), t)
                        break
                    if float(lvl[t]) >= tank.max_level - 1e-9 and float(q[t]) > QTOL * 10:
                        prob = "tank at its maximum level (%.5f) fills with %.6g at t=%d" % (float(lvl[t]), float(q[t]), t)
                        break
            if prob:
                failures.append(dict(net=rel, tank=tn, problem=prob, min_level=tank.min_level, max_level=tank.max_level))
            if len(samples) < 3:
                samples.append(dict(net=rel, tank=tn, solved_steps=len(ts), lowest=float(lvl.min()), highest=float(lvl.max()), limits=[tank.min_level, tank.max_level]))
    return dict(evaluations=evals, distinct_nontrivial=len(distinct), failures=failures[:10], samples=samples, exhaustive=False,
                scope="shard %d/%d: %d networks (four files with tanks + generated ones whose demand fills, drains or swings the tank; pump, pipes and a check-valve "
                      "pipe at the tank), report step ALL: per pair of consecutive solved steps volume change = reported net inflow x elapsed time, levels within the limits "
                      "to two seconds of flow, no discharge at the minimum level (unless through a leak) / no filling at the maximum level, first level = init_level; a third of the generated tanks leak for part of the run" % (shard, nshards, len(nets)))
