"""Bounded differential stand-ins for C03 (never counted as proved).  Everything here runs the real WNTR code and the
EPANET 2.2 shared library shipped in the repository (prebuilt binary: external, trusted) on a listed set of networks.

  binfile_vs_toolkit : EPANET stepped through its toolkit API (ENrunH / ENnextH, values read with ENgetnodevalue /
                       ENgetlinkvalue in the units of the file) vs. the results WNTR reads from EPANET's binary output
                       (BinFile.read), converted with factors written from the property text (not from wntr.epanet.util):
                       decides the binary layout parsing and the conversion table for each of the ten flow units.
  unit_independence  : EpanetSimulator results of the same model written in each of the ten flow units agree.
  reader_validation  : EPANET run directly on the original INP text vs. EpanetSimulator on the model WNTR read from it.
  wntr_vs_epanet     : WNTRSimulator vs. EpanetSimulator on networks of the common feature set (demand-driven and
                       pressure-dependent), heads / pressures / demands / flows / statuses at every report step.
Tolerances are relative to the largest magnitude of the quantity in the run (full scale); they are stated per check.
"""
import glob
import logging
import os
import shutil
import tempfile
import warnings

import numpy as np

UNITS = ["CFS", "GPM", "MGD", "IMGD", "AFD", "LPS", "LPM", "MLD", "CMH", "CMD"]
FT = 0.3048
GAL = 3.785411784e-3
FLOW = {"CFS": FT ** 3, "GPM": GAL / 60, "MGD": 1e6 * GAL / 86400, "IMGD": 1e6 * 4.54609e-3 / 86400, "AFD": 43560 * FT ** 3 / 86400,
        "LPS": 1e-3, "LPM": 1e-3 / 60, "MLD": 1e3 / 86400, "CMH": 1 / 3600.0, "CMD": 1 / 86400.0}
PSI = FT / 0.4333
TRAD = {"CFS", "GPM", "MGD", "IMGD", "AFD"}

# networks whose features both engines support and whose hydraulics are well conditioned (no disconnected demand, no
# threshold ties): the agreement checks are restricted to them; the reader validation uses every INP file EPANET accepts
COMMON = ["builtin:net1_noon_rule", "builtin:net1_pressure_control", "builtin:head_pattern_with_pattern_start", "builtin:tcv_setting_control", "builtin:open_valves_FCV",
          "builtin:open_valves_PRV", "builtin:open_valves_TCV", "builtin:rule_two_else_actions", "builtin:low_head_tcv", "builtin:pump_against_a_higher_zone", "builtin:two_point_pump_curve", "builtin:pump_draws_from_a_tank", "builtin:rules_mixing_and_or_text", "examples/networks/Net1.inp", "examples/networks/Net2.inp", "examples/networks/Net3.inp",
          "wntr/tests/networks_for_testing/Todini_Fig2_optCost_CMH.inp", "wntr/tests/networks_for_testing/Todini_Fig2_optCost_GPM.inp",
          "wntr/tests/networks_for_testing/Todini_Fig2_solA_CMH.inp", "wntr/tests/networks_for_testing/Todini_Fig2_solA_GPM.inp",
          "wntr/tests/networks_for_testing/conditional_controls_1.inp", "wntr/tests/networks_for_testing/leaks.inp",
          "wntr/tests/networks_for_testing/simulator.inp", "wntr/tests/networks_for_testing/skeletonize.inp",
          "wntr/tests/networks_for_testing/msx_example.inp", "wntr/tests/networks_for_testing/prv_open_no_upstream_sources.inp",
          "wntr/tests/networks_for_testing/psv_open_no_downstream_sources.inp", "wntr/tests/networks_for_testing/times.inp",
          "wntr/tests/networks_for_testing/Awumah_layout1.inp", "wntr/tests/networks_for_testing/Awumah_layout8.inp"]
UNIT_NETS = ["builtin:gpv", "builtin:pbv"] + COMMON + ["wntr/tests/networks_for_testing/Anytown.inp", "wntr/tests/networks_for_testing/Anytown_multipointcurves.inp",
                      "wntr/tests/networks_for_testing/conditional_controls_2.inp", "wntr/tests/networks_for_testing/control_comb.inp",
                      "wntr/tests/networks_for_testing/io.inp", "wntr/tests/networks_for_testing/time_controls.inp",
                      "wntr/tests/networks_for_testing/tank_controls_1.inp"]
# EPANET 2.2 itself does not satisfy its pressure-demand relation here: behind a strongly throttled TCV (setting 800) it reports the FULL demand at
# 5-15 m of pressure with a required pressure of 20 m (demand deficit 0 in its own statistics) - its flow-change convergence test stops before the
# demand has adapted; WNTR's result satisfies d = D*sqrt(p/Preq) (C07, proved). Compared under DD only.
PDD_SKIP = {"builtin:tcv_setting_control"}
KEYS = (("node", "head"), ("node", "pressure"), ("node", "demand"), ("link", "flowrate"), ("link", "status"))


_RULES_TEXT = """[TITLE]
rules that mix AND and OR

[JUNCTIONS]
 J1   20    0
 J2   15    8       D
 J3   12    6       D
 J4   10    5       D

[RESERVOIRS]
 R1   70

[TANKS]
 T1   50    3     0.5  8    12    0

[PIPES]
 P1  R1  J1  800   300   110    0      Open
 P2  J1  J2  600   250   110    0      Open
 P3  J2  J3  500   200   110    0      Open
 P4  J3  T1  400   200   110    0      Open
 P5  J2  J4  700   150   100    0      Open
 P6  J4  J3  700   150   100    0      Open

[PATTERNS]
 D   1.0 1.2 0.9 1.4 0.8 1.1

[RULES]
RULE 1
IF SYSTEM TIME >= 6:00
AND JUNCTION J4 PRESSURE < 1
OR TANK T1 LEVEL > 1
THEN PIPE P5 STATUS IS CLOSED
PRIORITY 1

RULE 2
IF TANK T1 LEVEL > 100
OR SYSTEM TIME >= 3:00
AND SYSTEM TIME < 9:00
THEN PIPE P1 STATUS IS CLOSED
ELSE PIPE P1 STATUS IS OPEN
PRIORITY 2

[TIMES]
 Duration            12:00
 Hydraulic Timestep  1:00
 Pattern Timestep    2:00
 Report Timestep     1:00
 Rule Timestep       1:00

[OPTIONS]
 Units     LPS
 Headloss  H-W

[END]
"""


def repo_root():
    import wntr
    return os.path.dirname(os.path.dirname(os.path.abspath(wntr.__file__)))


def _quiet():
    warnings.simplefilter("ignore")
    logging.disable(logging.CRITICAL)


def _builtin(name):
    """models built through the API in SI units (no INP file to start from), and Net1 with a control / rule added through the API"""
    import wntr
    if name.startswith("net1_"):
        from wntr.network.controls import Rule, Control, ControlAction, TimeOfDayCondition, ValueCondition
        wn = wntr.network.WaterNetworkModel(os.path.join(repo_root(), "examples/networks/Net1.inp"))
        wn.options.time.duration = 24 * 3600
        p = wn.get_link("122")
        if name == "net1_noon_rule":          # a clock time in the noon hour, written to [RULES]
            wn.add_control("r_noon", Rule(TimeOfDayCondition(wn, ">=", 12 * 3600 + 1800), [ControlAction(p, "status", 0)], [ControlAction(p, "status", 1)], name="r_noon"))
        else:                                # a junction-pressure condition, written to [CONTROLS] in psi or m
            j = wn.get_node("22")
            wn.add_control("c_low", Control(ValueCondition(j, "pressure", "<", 82.0), ControlAction(p, "status", 0)))
            wn.add_control("c_high", Control(ValueCondition(j, "pressure", ">", 86.0), ControlAction(p, "status", 1)))
        return wn
    if name == "head_pattern_with_pattern_start":
        wn = wntr.network.WaterNetworkModel()
        wn.add_pattern("hp", [1.0, 1.2, 0.8, 1.1, 0.9, 1.3])
        wn.add_pattern("dp", [1.0, 0.5, 1.5, 0.75])
        wn.add_reservoir("R", base_head=50, head_pattern="hp")
        wn.add_junction("A", base_demand=0.01, elevation=0, demand_pattern="dp")
        wn.add_junction("B", base_demand=0.02, elevation=0)
        wn.add_pipe("RA", "R", "A", length=100, diameter=0.3, roughness=100)
        wn.add_pipe("AB", "A", "B", length=100, diameter=0.3, roughness=100)
        wn.options.time.duration = 8 * 3600
        wn.options.time.pattern_timestep = 3600
        wn.options.time.pattern_start = 7200
        return wn
    if name == "pump_draws_from_a_tank":         # the suction tank of a pump runs down to its minimum level: the pump is shut and the level held there
        wn = wntr.network.WaterNetworkModel()
        wn.options.time.duration = 10 * 3600
        wn.options.time.pattern_timestep = 3600
        wn.add_reservoir("r", base_head=60.0)
        wn.add_tank("t", elevation=20.0, init_level=2.0, min_level=1.0, max_level=6.0, diameter=6.0)
        wn.add_junction("j0", base_demand=0.0, elevation=20.0)
        wn.add_junction("j1", base_demand=0.02, elevation=10.0)
        wn.add_junction("j2", base_demand=0.01, elevation=12.0)
        wn.add_pipe("pr", "r", "j1", length=1500, diameter=0.25, roughness=100)
        wn.add_pipe("p1", "j1", "j2", length=600, diameter=0.25, roughness=110)
        wn.add_pipe("p0", "j0", "j2", length=300, diameter=0.25, roughness=110)
        wn.add_curve("pc", "HEAD", [(0.01, 30.0)])
        wn.add_pump("out", "t", "j0", "HEAD", "pc")
        return wn
    if name == "rules_mixing_and_or_text":       # read from INP text: EPANET evaluates premises left to right, IF A AND B OR C = A and (B or C)
        with Scratch() as d:
            path = os.path.join(d, "rules.inp")
            with open(path, "w") as f:
                f.write(_RULES_TEXT)
            return wntr.network.WaterNetworkModel(path)
    if name == "two_point_pump_curve":           # a head pump whose curve is a straight line through two points, the first not at zero flow
        wn = wntr.network.WaterNetworkModel()
        wn.add_pattern("dp", [1.0, 0.5, 1.6, 0.8])
        wn.add_reservoir("R", base_head=10.0)
        wn.add_junction("A", base_demand=0.0, elevation=0.0)
        wn.add_junction("B", base_demand=0.02, elevation=20.0, demand_pattern="dp")
        wn.add_curve("pc", "HEAD", [(0.01, 45.0), (0.06, 20.0)])
        wn.add_pump("P", "R", "A", pump_type="HEAD", pump_parameter="pc")
        wn.add_pipe("AB", "A", "B", length=300, diameter=0.25, roughness=110)
        wn.options.time.duration = 4 * 3600
        wn.options.time.pattern_timestep = 3600
        return wn
    if name == "pump_against_a_higher_zone":       # a head pump (shutoff head 50 m) between a low source and a zone held at 100 m: it must shut, not run backwards
        wn = wntr.network.WaterNetworkModel()
        wn.add_reservoir("R0", base_head=0.0)
        wn.add_reservoir("R1", base_head=100.0)
        wn.add_junction("J", base_demand=0.01, elevation=0.0)
        wn.add_curve("pc", "HEAD", [(0.0, 50.0), (0.05, 40.0), (0.1, 0.0)])
        wn.add_pump("P", "R0", "J", pump_type="HEAD", pump_parameter="pc")
        wn.add_pipe("p1", "R1", "J", length=100, diameter=0.3, roughness=100)
        wn.options.time.duration = 2 * 3600
        return wn
    if name in ("tcv_setting_control", "rule_two_else_actions", "low_head_tcv") or name.startswith("open_valves_"):
        from wntr.network.controls import Rule, Control, ControlAction, SimTimeCondition
        wn = wntr.network.WaterNetworkModel()
        wn.add_pattern("dp", [1.0, 0.6, 1.4, 0.8])
        wn.add_reservoir("R", base_head=60)
        wn.add_junction("A", base_demand=0.005, elevation=0, demand_pattern="dp")
        wn.add_junction("B", base_demand=0.015, elevation=5, demand_pattern="dp")
        wn.add_junction("C", base_demand=0.01, elevation=2)
        wn.add_pipe("RA", "R", "A", length=200, diameter=0.3, roughness=100)
        wn.add_pipe("BC", "B", "C", length=150, diameter=0.25, roughness=110)
        wn.options.time.duration = 6 * 3600
        wn.options.time.pattern_timestep = 3600
        if name == "low_head_tcv":             # pressures between 0 and the required 20 m: the pressure-demand relation is active at every junction
            wn.get_node("R").base_head = 22.0
            wn.add_valve("V", "A", "B", diameter=0.2, valve_type="TCV", initial_setting=20.0)
        elif name == "tcv_setting_control":      # a throttle valve whose loss coefficient is changed by a control in mid-run
            wn.add_valve("V", "A", "B", diameter=0.2, valve_type="TCV", initial_setting=20.0)
            wn.add_control("throttle", Control._time_control(wn, 2 * 3600, "SIM_TIME", False, ControlAction(wn.get_link("V"), "setting", 800.0)))
            wn.add_control("release", Control._time_control(wn, 4 * 3600, "SIM_TIME", False, ControlAction(wn.get_link("V"), "setting", 3.0)))
        elif name.startswith("open_valves_"):  # a valve whose initial status is Open (fully open, its setting ignored) beside a pipe
            vt = name[-3:]
            wn.add_pipe("AB", "A", "B", length=400, diameter=0.15, roughness=100)
            wn.add_valve("V", "A", "B", diameter=0.2, valve_type=vt, initial_setting={"FCV": 0.004, "PRV": 20.0, "TCV": 500.0}[vt], initial_status="OPEN")
        else:                                  # a rule with two THEN and two ELSE actions on a parallel pair
            wn.add_pipe("P1", "A", "B", length=300, diameter=0.2, roughness=100)
            wn.add_pipe("P2", "A", "B", length=300, diameter=0.12, roughness=100)
            p1, p2 = wn.get_link("P1"), wn.get_link("P2")
            wn.add_control("swap", Rule(SimTimeCondition(wn, ">=", 3 * 3600), [ControlAction(p1, "status", 0), ControlAction(p2, "status", 1)],
                                        [ControlAction(p1, "status", 1), ControlAction(p2, "status", 0)], name="swap"))
        return wn
    wn = wntr.network.WaterNetworkModel()
    wn.add_reservoir("R", base_head=50)
    wn.add_junction("A", base_demand=0.0, elevation=0)
    wn.add_junction("B", base_demand=0.02, elevation=0)
    wn.add_pipe("RA", "R", "A", length=100, diameter=0.3, roughness=100)
    if name == "gpv":
        wn.add_curve("hl", "HEADLOSS", [(0.0, 0.0), (0.01, 2.0), (0.02, 5.0), (0.04, 12.0)])      # m3/s, m of head loss
        wn.add_valve("V", "A", "B", diameter=0.3, valve_type="GPV", initial_setting="hl")
    elif name == "pbv":
        wn.add_valve("V", "A", "B", diameter=0.3, valve_type="PBV", initial_setting=7.5)
    wn.options.time.duration = 2 * 3600
    return wn


def _load(rel, max_hours=24):
    import wntr
    if rel.startswith("builtin:"):
        return _builtin(rel[8:])
    wn = wntr.network.WaterNetworkModel(os.path.join(repo_root(), rel))
    if wn.options.time.duration > max_hours * 3600:
        wn.options.time.duration = max_hours * 3600
    return wn



def _absdiff_max(a, b):
    """largest |a - b|; NaN on both sides is agreement, NaN on one side only is an infinite difference (np.nanmax alone would hide it)"""
    import numpy as _np
    a, b = _np.asarray(a, dtype=float), _np.asarray(b, dtype=float)
    if a.size == 0:
        return 0.0
    if (_np.isnan(a) != _np.isnan(b)).any():
        return float("inf")
    d = _np.abs(a - b)
    return 0.0 if _np.isnan(d).all() else float(_np.nanmax(d))


def _worst(a, b, skip_pressure_of=()):
    """largest |a - b| relative to the full scale of a, per quantity; 'shape' if the tables are not comparable.
    skip_pressure_of: nodes whose pressure is compared separately (reservoirs, see wntr_vs_epanet)"""
    out = {}
    for grp, key in KEYS:
        x, y = getattr(a, grp)[key], getattr(b, grp)[key]
        if x.shape != y.shape or list(x.index) != list(y.index) or set(x.columns) != set(y.columns):
            out[key] = "shape %s vs %s" % (x.shape, y.shape)
            continue
        y = y[x.columns]
        if key == "pressure" and skip_pressure_of:
            keep = [c for c in x.columns if c not in skip_pressure_of]
            x, y = x[keep], y[keep]
        sc = max(1e-9, float(np.nanmax(np.abs(x.values.astype(float)))))
        out[key] = _absdiff_max(x.values, y.values) / sc
    return out


def _bad(worst, tol, exact=("status",)):
    return {k: v for k, v in worst.items() if isinstance(v, str) or v > (0.0 if k in exact else tol)}


class Scratch:
    def __enter__(self):
        base = os.path.join(os.path.dirname(os.path.dirname(os.path.abspath(__file__))), ".scratch")
        os.makedirs(base, exist_ok=True)
        self.d = tempfile.mkdtemp(prefix="c03_", dir=base)
        return self.d

    def __exit__(self, *a):
        shutil.rmtree(self.d, ignore_errors=True)


def _result(evals, distinct, failures, samples, scope):
    return dict(evaluations=evals, distinct_nontrivial=len(distinct), failures=failures[:10], samples=samples[:3], exhaustive=False, scope=scope)


# ---------------------------------------------------------------------------------------------------------------------

def binfile_vs_toolkit(tier, seed, shard, nshards):
    import wntr
    import wntr.epanet.toolkit as tk
    from wntr.epanet.util import EN
    _quiet()
    nets = COMMON[:9] if tier == "quick" else COMMON
    evals, distinct, failures, samples = 0, set(), [], []
    TOL = 2e-5        # float32 output file vs float32 toolkit values
    with Scratch() as d:
        idx = 0
        for rel in nets:
            for u in UNITS:
                idx += 1
                if idx % nshards != shard:
                    continue
                wn = _load(rel, 12)
                wn.options.hydraulic.inpfile_units = u
                wn.options.quality.parameter = "NONE"
                pre = os.path.join(d, "t%d" % idx)
                res = wntr.sim.EpanetSimulator(wn).run_sim(file_prefix=pre)
                # the same INP stepped through the API
                en = tk.ENepanet(version=2.2)
                en.ENopen(pre + ".inp", pre + "_api.rpt", pre + "_api.bin")
                rstep = en.ENgettimeparam(EN.REPORTSTEP)
                rstart = en.ENgettimeparam(EN.REPORTSTART)
                nodes, links = wn.node_name_list, wn.link_name_list
                nidx = {n: en.ENgetnodeindex(n) for n in nodes}
                lidx = {l: en.ENgetlinkindex(l) for l in links}
                api = {}
                en.ENopenH()
                en.ENinitH(0)
                while True:
                    t = en.ENrunH()
                    if t >= rstart and (t - rstart) % rstep == 0 and t not in api:
                        api[t] = dict(head=[en.ENgetnodevalue(nidx[n], EN.HEAD) for n in nodes],
                                      pressure=[en.ENgetnodevalue(nidx[n], EN.PRESSURE) for n in nodes],
                                      demand=[en.ENgetnodevalue(nidx[n], EN.DEMAND) for n in nodes],
                                      flowrate=[en.ENgetlinkvalue(lidx[l], EN.FLOW) for l in links],
                                      status=[en.ENgetlinkvalue(lidx[l], EN.STATUS) for l in links])
                    if en.ENnextH() <= 0:
                        break
                en.ENcloseH()
                en.ENclose()
                evals += 1
                distinct.add((rel, u))
                trad = u in TRAD
                fac = dict(head=FT if trad else 1.0, pressure=PSI if trad else 1.0, demand=FLOW[u], flowrate=FLOW[u])
                times = [t for t in res.node["head"].index if t in api]
                if len(times) < max(1, len(res.node["head"].index) - 1):
                    failures.append(dict(net=rel, units=u, problem="report times of the binary file not met by the stepped run",
                                         file_times=list(res.node["head"].index)[:5], api_times=sorted(api)[:5]))
                    continue
                worst = {}
                for key, grp, names in (("head", "node", nodes), ("pressure", "node", nodes), ("demand", "node", nodes), ("flowrate", "link", links)):
                    tab = getattr(res, grp)[key]
                    ref = np.array([api[t][key] for t in times], dtype=float) * fac[key]
                    got = tab.loc[times, names].values.astype(float)
                    sc = max(1e-9, float(np.nanmax(np.abs(ref))))
                    worst[key] = _absdiff_max(ref, got) / sc
                # link status: the API reports 0 closed / 1 open; WNTR reports Closed 0 / Open 1 / Active 2 (active valves are open)
                st_ref = np.array([api[t]["status"] for t in times], dtype=float)
                st_got = res.link["status"].loc[times, links].values.astype(float)
                worst["status"] = float(np.max(np.abs((st_ref > 0).astype(int) - (st_got > 0).astype(int))))
                bad = {k: v for k, v in worst.items() if v > (0 if k == "status" else TOL)}
                if bad:
                    failures.append(dict(net=rel, units=u, relative_difference_full_scale=bad, tolerance=TOL))
                if len(samples) < 3:
                    samples.append(dict(net=rel, units=u, report_steps=len(times), worst=worst))
    return _result(evals, distinct, failures, samples,
                   "shard %d/%d: %d networks x 10 flow units; EPANET stepped through the toolkit API vs BinFile.read; head, pressure, demand, "
                   "flow (rel. %.0e of full scale), open/closed status (exact); every report step of <= 12 h" % (shard, nshards, len(nets), TOL))


def unit_independence(tier, seed, shard, nshards):
    import wntr
    _quiet()
    nets = UNIT_NETS[:13] if tier == "quick" else UNIT_NETS
    TOL = 3e-3
    evals, distinct, failures, samples = 0, set(), [], []
    with Scratch() as d:
        for i, rel in enumerate(nets):
            if i % nshards != shard:
                continue
            for dm in ("DD", "PDD"):
                if dm == "PDD" and (rel not in COMMON or (tier == "quick" and i % 2)):
                    continue        # pressure-dependent runs only on the well-conditioned common set (Anytown under PDD is not: EPANET's own
                                    # solutions differ between unit systems by O(1) in the flows)
                base = None
                for u in UNITS:
                    wn = _load(rel)
                    wn.options.hydraulic.demand_model = dm
                    wn.options.hydraulic.inpfile_units = u
                    try:
                        r = wntr.sim.EpanetSimulator(wn).run_sim(file_prefix=os.path.join(d, "u%d" % i))
                    except Exception as e:
                        failures.append(dict(net=rel, units=u, demand_model=dm, raised=repr(e)[:200]))
                        continue
                    evals += 1
                    distinct.add((rel, dm, u))
                    if base is None:
                        base = r
                        continue
                    w = _worst(base, r)
                    bad = _bad(w, TOL)
                    if bad:
                        failures.append(dict(net=rel, demand_model=dm, units=u, reference_units=UNITS[0], relative_difference_full_scale=bad, tolerance=TOL))
                    if len(samples) < 3 and u == "LPS":
                        samples.append(dict(net=rel, demand_model=dm, units=u, worst=w))
    return _result(evals, distinct, failures, samples,
                   "shard %d/%d: %d networks x {DD, PDD} x 10 flow units, EpanetSimulator in each unit system vs. CFS; heads, pressures, demands, "
                   "flows (rel. %.0e of full scale; INP text precision), statuses exact" % (shard, nshards, len(nets), TOL))


def reader_validation(tier, seed, shard, nshards):
    import wntr
    import wntr.epanet.toolkit as tk
    import wntr.epanet.io
    _quiet()
    root = repo_root()
    files = sorted(glob.glob(root + "/examples/networks/*.inp") + glob.glob(root + "/wntr/tests/networks_for_testing/*.inp"))
    files = [f for f in files if os.path.getsize(f) < (400000 if tier == "quick" else 5000000) and not os.path.basename(f).startswith("bad_")]
    TOL = 3e-4        # text precision of the INP file WNTR writes (Net6: 1e-4)
    evals, distinct, failures, samples, skipped = 0, set(), [], [], []
    # INP texts for features no file of the repository carries (written by WNTR from API-built models; the text is then the original)
    texts = ["builtin:rule_two_else_actions", "builtin:tcv_setting_control", "builtin:open_valves_FCV", "builtin:open_valves_PRV", "builtin:open_valves_TCV"]
    with Scratch() as d:
        for j, b in enumerate(texts):
            path = os.path.join(d, "text_%s.inp" % b[8:])
            if (len(files) + j) % nshards == shard:
                wntr.network.io.write_inpfile(_builtin(b[8:]), path, units="LPS" if j % 2 else "GPM")
            files.append(path)
        for i, f in enumerate(files):
            if i % nshards != shard:
                continue
            rel = os.path.relpath(f, root) if f.startswith(root) else "written from " + os.path.basename(f)[5:-4]
            pre = os.path.join(d, "r%d" % i)
            try:
                en = tk.ENepanet(version=2.2)
                en.ENopen(f, pre + ".rpt", pre + ".bin")
                en.ENsolveH()
                en.ENsolveQ()
                en.ENreport()
                en.ENclose()
                direct = wntr.epanet.io.BinFile().read(pre + ".bin")
            except Exception as e:
                skipped.append((rel, repr(e)[:80]))       # EPANET itself rejects the file: nothing to compare
                continue
            try:
                wn = wntr.network.WaterNetworkModel(f)
                r = wntr.sim.EpanetSimulator(wn).run_sim(file_prefix=pre + "_w")
            except Exception as e:
                failures.append(dict(file=rel, problem="EPANET runs the file, WNTR's reader / writer / simulator wrapper does not", raised=repr(e)[:200]))
                continue
            evals += 1
            distinct.add(rel)
            w = _worst(direct, r)
            bad = _bad(w, TOL)
            if bad:
                failures.append(dict(file=rel, relative_difference_full_scale=bad, tolerance=TOL))
            if len(samples) < 3:
                samples.append(dict(file=rel, worst=w))
    out = _result(evals, distinct, failures, samples,
                  "shard %d/%d: every INP file of examples/networks and wntr/tests/networks_for_testing that EPANET 2.2 accepts (%d files listed, "
                  "quick: < 400 kB): EPANET on the original text vs EpanetSimulator on the model read from it; rel. %.0e of full scale, statuses exact"
                  % (shard, nshards, len(files), TOL))
    out["skipped_rejected_by_epanet"] = skipped[:10]
    return out


def wntr_vs_epanet(tier, seed, shard, nshards):
    import wntr
    _quiet()
    TOL = {"DD": 3e-3, "PDD": 3e-3}       # observed on the pinned tree: <= 5.1e-4
    nets = COMMON
    evals, distinct, failures, samples, known = 0, set(), [], [], []
    with Scratch() as d:
        for i, rel in enumerate(nets):
            if i % nshards != shard:
                continue
            for dm in ("DD", "PDD"):
                if dm == "PDD" and rel in PDD_SKIP:
                    continue
                wn = _load(rel)
                wn.options.hydraulic.demand_model = dm
                if dm == "PDD":
                    wn.options.hydraulic.required_pressure = 20.0
                    wn.options.hydraulic.minimum_pressure = 0.0
                try:
                    e = wntr.sim.EpanetSimulator(wn).run_sim(file_prefix=os.path.join(d, "w%d" % i))
                    w = wntr.sim.WNTRSimulator(wn).run_sim()
                except Exception as ex:
                    failures.append(dict(net=rel, demand_model=dm, raised=repr(ex)[:200]))
                    continue
                evals += 1
                distinct.add((rel, dm))
                res_names = list(wn.reservoir_name_list)
                ws = _worst(e, w, skip_pressure_of=res_names)
                bad = _bad(ws, TOL[dm])
                if bad:
                    failures.append(dict(net=rel, demand_model=dm, relative_difference_full_scale=bad, tolerance=TOL[dm]))
                # the "pressure" reported at reservoirs, compared on its own
                if res_names:
                    pe, pw = e.node["pressure"][res_names].values.astype(float), w.node["pressure"][res_names].values.astype(float)
                    if _absdiff_max(pe, pw) > 1e-3:
                        from pyvc.runner import known_bounded
                        kf = known_bounded("C03", "C03.wntr_vs_epanet:reservoir_pressure_under_a_head_pattern")
                        moved = any(wn.get_node(r).head_pattern_name for r in res_names)
                        if kf is not None and moved:
                            known.append("%s [%s %s]" % (kf["what_fails"][:160], rel, dm))
                        else:
                            failures.append(dict(net=rel, demand_model=dm, reservoir_pressure_epanet=pe[:3].tolist(), reservoir_pressure_wntr=pw[:3].tolist()))
                if len(samples) < 3:
                    samples.append(dict(net=rel, demand_model=dm, worst=ws))
    out = _result(evals, distinct, failures, samples,
                   "shard %d/%d: %d networks of the common feature set x {DD, PDD (required pressure 20 m)}: WNTRSimulator vs EpanetSimulator at every "
                   "report step; heads, pressures, demands, flows rel. DD %.0e / PDD %.0e of full scale, link statuses exact; DD only for %s (EPANET's own PDA result "
                   "violates its pressure-demand relation there)" % (shard, nshards, len(nets), TOL["DD"], TOL["PDD"], ", ".join(sorted(PDD_SKIP))))
    out["known"] = sorted(set(known))
    return out
