"""C16 bounded stand-in: the real WNTRSimulator.run_sim with solver failures injected at chosen solves.

The injection wraps wntr.sim.core._solver_helper from the harness (nothing in /repo is edited): the k-th call (counting the calls of the primary
solver; the backup solver, when given, is made to fail at the same step) reports SolverStatus.error instead of solving.  Observables are exactly the
property's: the shape of the tables, error_code, the warning, the exception, and the reported steps before the failure compared with a run that
does not fail.  Not exhaustive: listed networks x options x failure points."""
import os
import warnings
import logging


def repo_root():
    import wntr
    return os.path.dirname(os.path.dirname(os.path.abspath(wntr.__file__)))


def _builtin():
    """a small network with a tank, a pump, a timed control and a rule (events off the hydraulic grid)"""
    import wntr
    from wntr.network.controls import Control, Rule, ControlAction, SimTimeCondition
    wn = wntr.network.WaterNetworkModel()
    wn.add_pattern("dp", [1.0, 1.4, 0.6, 1.1])
    wn.add_reservoir("R", base_head=20.0)
    wn.add_junction("A", base_demand=0.004, elevation=5.0, demand_pattern="dp")
    wn.add_junction("B", base_demand=0.006, elevation=8.0)
    wn.add_tank("T", elevation=30.0, init_level=3.0, min_level=1.0, max_level=6.0, diameter=8.0)
    wn.add_curve("pc", "HEAD", [(0.0, 40.0), (0.02, 30.0), (0.04, 5.0)])
    wn.add_pump("P", "R", "A", pump_type="HEAD", pump_parameter="pc")
    wn.add_pipe("AB", "A", "B", length=300, diameter=0.2, roughness=110)
    wn.add_pipe("BT", "B", "T", length=200, diameter=0.2, roughness=110)
    wn.add_control("c_close", Control._time_control(wn, 2 * 3600 + 900, "SIM_TIME", False, ControlAction(wn.get_link("AB"), "status", 0)))
    wn.add_control("c_open", Control._time_control(wn, 3 * 3600, "SIM_TIME", False, ControlAction(wn.get_link("AB"), "status", 1)))
    wn.options.time.pattern_timestep = 3600
    return wn



def _absdiff_max(a, b):
    """largest |a - b|; NaN on both sides is agreement, NaN on one side only is an infinite difference (np.nanmax alone would hide it)"""
    import numpy as _np
    a, b = _np.asarray(a, dtype=float), _np.asarray(b, dtype=float)
    if a.size == 0:
        return 0.0
    if (_np.isnan(a) != _np.isnan(b)).any():
        return float("inf")
    d = _np.abs(a - b)
    return 0.0 if _np.isnan(d).all() else float(_np.nanmax(d))


def run(tier, seed, shard, nshards):
    import numpy as np
    import wntr
    import wntr.sim.core as core
    from wntr.sim.solvers import NewtonSolver, SolverStatus
    warnings.simplefilter("ignore")
    logging.disable(logging.CRITICAL)
    root = repo_root()
    nets = [("builtin", 6), ("examples/networks/Net1.inp", 6), ("wntr/tests/networks_for_testing/tank_controls_1.inp", 5)]
    if tier == "thorough":
        nets += [("examples/networks/Net3.inp", 4), ("wntr/tests/networks_for_testing/conditional_controls_1.inp", 6)]
    configs = [(3600, 3600), (1800, 3600), (1800, 5400), (3600, "ALL"), (900, 1800), (3600, 1800), (3600, 2700)] if tier == "thorough" else [(3600, 3600), (1800, 3600), (1800, "ALL"), (3600, 1800)]
    evals, distinct, failures, samples = 0, set(), [], []
    real_helper = core._solver_helper
    idx = 0

    def mk(rel, hours, hyd, rep):
        wn = _builtin() if rel == "builtin" else wntr.network.WaterNetworkModel(os.path.join(root, rel))
        wn.options.time.duration = hours * 3600
        wn.options.time.hydraulic_timestep = hyd
        wn.options.time.report_timestep = rep
        wn.options.time.rule_timestep = min(360, hyd)
        return wn

    def well_formed(res, wn, rep, hyd):
        tabs = [res.node[k] for k in ("head", "demand", "pressure")] + [res.link[k] for k in ("flowrate", "status")]
        idxs = [list(t.index) for t in tabs]
        ok = all(i == idxs[0] for i in idxs)
        times = idxs[0]
        ok = ok and all(b > a for a, b in zip(times, times[1:]))
        if rep != "ALL":
            step = rep if (rep < hyd or rep % hyd == 0) else rep - rep % hyd      # _setup_sim_options: a report step below the hydraulic step shortens the hydraulic step
            ok = ok and all(t % step == 0 for t in times)
        ok = ok and set(res.node["head"].columns) == set(wn.node_name_list) and len(res.node["head"].columns) == wn.num_nodes
        ok = ok and set(res.link["flowrate"].columns) == set(wn.link_name_list) and len(res.link["flowrate"].columns) == wn.num_links
        ok = ok and all(bool(np.isfinite(t.values.astype(float)).all()) for t in tabs)
        return ok, times

    try:
        for rel, hours in nets:
            for hyd, rep in configs:
                # reference: the run that does not fail, and the number of solves it needs
                calls = [0]

                def counting(model, solver, opts):
                    calls[0] += 1
                    return real_helper(model, solver, opts)
                core._solver_helper = counting
                try:
                    ref = wntr.sim.WNTRSimulator(mk(rel, hours, hyd, rep)).run_sim()
                finally:
                    core._solver_helper = real_helper
                n_solves = calls[0]
                okr, ref_times = well_formed(ref, mk(rel, hours, hyd, rep), rep, hyd)
                if okr and rep != "ALL":
                    # the fault-free run reports every point of the report grid up to the duration
                    step = rep if (rep < hyd or rep % hyd == 0) else rep - rep % hyd
                    okr = ref_times == list(range(0, hours * 3600 + 1, step))
                if not okr or ref.error_code is not None:
                    failures.append(dict(net=rel, hyd=hyd, report=rep, problem="the run without faults is not well formed (one increasing index = the whole report grid, one column per element, finite) or reports an error", times=ref_times[:6], error_code=str(ref.error_code)))
                    continue
                points = sorted(set([1, 2, n_solves // 2, n_solves] if tier == "quick" else [1, 2, 3, n_solves // 3, n_solves // 2, n_solves - 1, n_solves]))
                for fail_at in points:
                    for conv_err in (False, True):
                        for backup in (None, NewtonSolver):
                            idx += 1
                            if idx % nshards != shard or fail_at < 1:
                                continue
                            state = dict(primary=0, failing=False)

                            def faulty(model, solver, opts, state=state, fail_at=fail_at):
                                if opts is not None and opts.get("_verif_backup"):
                                    return (SolverStatus.error, "injected failure (backup)", 0) if state["failing"] else real_helper(model, solver, {k: v for k, v in opts.items() if k != "_verif_backup"})
                                state["primary"] += 1
                                state["failing"] = state["primary"] == fail_at
                                if state["failing"]:
                                    return SolverStatus.error, "injected failure", 0
                                return real_helper(model, solver, opts)
                            core._solver_helper = faulty
                            wn = mk(rel, hours, hyd, rep)
                            raised, res, warned = None, None, False
                            try:
                                with warnings.catch_warnings(record=True) as wlist:
                                    warnings.simplefilter("always")
                                    try:
                                        res = wntr.sim.WNTRSimulator(wn).run_sim(backup_solver=backup, backup_solver_options=({"_verif_backup": True} if backup else None),
                                                                                 convergence_error=conv_err)
                                    except RuntimeError as e:
                                        raised = e
                                    warned = any("converge" in str(w.message).lower() for w in wlist)
                            except Exception as e:
                                failures.append(dict(net=rel, hyd=hyd, report=rep, fail_at_solve=fail_at, convergence_error=conv_err, backup=bool(backup), raised=repr(e)[:200]))
                                continue
                            finally:
                                core._solver_helper = real_helper
                            evals += 1
                            distinct.add((rel, hyd, rep, fail_at, conv_err, bool(backup)))
                            problem = None
                            if conv_err:
                                if raised is None:
                                    problem = "convergence_error=True but the failed step raised nothing"
                            else:
                                if raised is not None:
                                    problem = "convergence_error=False but the run raised %r" % (raised,)
                                elif res.error_code is None or not warned:
                                    problem = "the failed step is hidden: error_code=%r, warning issued=%s" % (res.error_code, warned)
                                else:
                                    okf, times = well_formed(res, wn, rep, hyd)
                                    if not okf:
                                        problem = "tables of the failed run are not well formed"
                                    elif times != ref_times[:len(times)]:
                                        problem = "reported times before the failure %s are not a prefix of the fault-free run's %s" % (times[-3:], ref_times[:len(times)][-3:])
                                    else:
                                        worst = 0.0
                                        for grp, key in (("node", "head"), ("node", "demand"), ("link", "flowrate"), ("link", "status")):
                                            a = getattr(res, grp)[key].values.astype(float)
                                            b = getattr(ref, grp)[key].loc[times].values.astype(float) if len(times) else a
                                            if a.size:
                                                worst = max(worst, _absdiff_max(a, b))
                                        if worst > 1e-6:
                                            problem = "steps reported before the failure differ from the fault-free run by %g" % worst
                            if problem:
                                failures.append(dict(net=rel, hyd=hyd, report=rep, fail_at_solve=fail_at, of_solves=n_solves, convergence_error=conv_err, backup=bool(backup), problem=problem))
                            if len(samples) < 3:
                                samples.append(dict(net=rel, hyd=hyd, report=rep, fail_at_solve=fail_at, of_solves=n_solves, convergence_error=conv_err, backup=bool(backup),
                                                    rows=(0 if res is None else len(res.node["head"])), raised=(None if raised is None else str(raised)[:60])))
    finally:
        core._solver_helper = real_helper
    return dict(evaluations=evals, distinct_nontrivial=len(distinct), failures=failures[:10], samples=samples, exhaustive=False,
                scope="shard %d/%d: %d networks x %d (hydraulic step, report step) pairs x failure injected at chosen solves (first, second, middle, last ...) x "
                      "convergence_error x {no backup solver, backup solver failing too}: RuntimeError iff convergence_error, otherwise warning + error_code; "
                      "tables share one strictly increasing index on the report grid, one column per element, finite; rows before the failure equal the fault-free run (1e-6)"
                      % (shard, nshards, len(nets), len(configs)))
