"""C04 bounded stand-in: the real WNTRSimulator with time controls and rules at random instants (report step ALL, so that every solved step is visible).

For a link switched by time-based controls / rules the reported status must be, at every reported time t, the status the schedule prescribes at t:
a simple control acts at its instant (which becomes a solved step), a rule at the first rule-grid instant at or after its threshold; at equal instants
the higher priority wins. Not exhaustive: random schedules on a small network."""
import warnings
import logging


def _net(hyd, rule_step, start_clock):
    import wntr
    wn = wntr.network.WaterNetworkModel()
    wn.add_reservoir("R", base_head=40.0)
    wn.add_junction("A", base_demand=0.004, elevation=0.0)
    wn.add_junction("B", base_demand=0.003, elevation=2.0)
    wn.add_junction("C", base_demand=0.002, elevation=1.0)
    wn.add_pipe("RA", "R", "A", length=100, diameter=0.3, roughness=100)
    wn.add_pipe("AB", "A", "B", length=100, diameter=0.2, roughness=100)
    wn.add_pipe("AC", "A", "C", length=100, diameter=0.2, roughness=100)
    wn.add_pipe("BC", "B", "C", length=150, diameter=0.2, roughness=100)
    t = wn.options.time
    t.hydraulic_timestep, t.rule_timestep, t.start_clocktime = hyd, rule_step, start_clock
    t.report_timestep = "ALL"
    t.pattern_timestep = 3600
    return wn


def run(tier, seed, shard, nshards):
    import random
    import wntr
    from wntr.network.controls import Control, Rule, ControlAction, SimTimeCondition, TimeOfDayCondition, ControlPriority
    warnings.simplefilter("ignore")
    logging.disable(logging.CRITICAL)
    rng = random.Random(seed * 1009 + shard)
    N = (80 if tier == "quick" else 800)
    evals, distinct, failures, samples = 0, set(), [], []
    for it in range(N):
        hyd = rng.choice([900, 1800, 3600])
        rule_step = rng.choice([60, 360, hyd])
        start_clock = rng.choice([0, 0, 7 * 3600, 22 * 3600 + 1800])
        dur = rng.choice([4, 6, 26]) * 3600 if it % 5 == 0 else rng.choice([4, 6]) * 3600
        wn = _net(hyd, rule_step, start_clock)
        wn.options.time.duration = dur
        ab, ac = wn.get_link("AB"), wn.get_link("AC")
        events_ab = []        # (instant, priority, status) prescribed for AB
        kind = rng.choice(["simple", "simple_pair", "rule", "rule_else", "clock", "clock", "same_instant", "control_priorities", "control_priorities", "control_and_rule",
                           "clock_rule", "clock_rule"])
        if kind in ("clock", "clock_rule") and it % 2:
            dur = rng.choice([30, 50]) * 3600
            wn.options.time.duration = dur
        if kind in ("simple", "simple_pair"):
            t1 = rng.randrange(1, dur)
            wn.add_control("c1", Control._time_control(wn, t1, "SIM_TIME", False, ControlAction(ab, "status", 0)))
            events_ab.append((t1, 3, 0))
            if kind == "simple_pair":
                t2 = rng.randrange(1, dur)
                if t2 != t1:
                    wn.add_control("c2", Control._time_control(wn, t2, "SIM_TIME", False, ControlAction(ab, "status", 1)))
                    events_ab.append((t2, 3, 1))
        elif kind in ("rule", "rule_else"):
            thr = rng.randrange(1, dur)
            first = -(-thr // rule_step) * rule_step
            if kind == "rule":
                wn.add_control("r1", Rule(SimTimeCondition(wn, ">=", thr), [ControlAction(ab, "status", 0)], name="r1"))
                events_ab.append((first, 3, 0))
            else:
                wn.add_control("r1", Rule(SimTimeCondition(wn, ">=", thr), [ControlAction(ab, "status", 0)], [ControlAction(ab, "status", 1)], name="r1"))
                events_ab.append((first, 3, 0))
        elif kind == "clock":
            clock = rng.randrange(0, 86400)
            wn.add_control("c1", Control._time_control(wn, clock, "CLOCK_TIME", True, ControlAction(ab, "status", 0)))
            # daily at that clock time: simulation instants clock - start_clock (mod a day)
            t = (clock - start_clock) % 86400
            while t <= dur:
                events_ab.append((t, 3, 0))
                t += 86400
            tb = rng.randrange(1, dur)
            wn.add_control("c2", Control._time_control(wn, tb, "SIM_TIME", False, ControlAction(ab, "status", 1)))
            events_ab.append((tb, 3, 1))
        elif kind == "clock_rule":
            # a daily rule on the clock: IF CLOCKTIME >= c THEN closed ELSE open; evaluated at the rule instants, holds on the start day too
            clock = rng.randrange(1, 86400)
            rel = rng.choice([">=", "<"])
            wn.add_control("r1", Rule(TimeOfDayCondition(wn, rel, clock), [ControlAction(ab, "status", 0)], [ControlAction(ab, "status", 1)], name="r1"))
            cur, k = 1, 1
            while k * rule_step <= dur:
                tod = (k * rule_step + start_clock) % 86400
                holds = (tod >= clock) if rel == ">=" else (tod < clock)
                want = 0 if holds else 1
                if want != cur:
                    events_ab.append((k * rule_step, 3, want))
                    cur = want
                k += 1
        elif kind == "control_priorities":
            # two or three presolve controls of different priorities in ONE hydraulic step, at the same or at different instants
            base = rng.randrange(0, dur // hyd) * hyd
            n_c = rng.choice([2, 3])
            prios = rng.sample([ControlPriority.very_low, ControlPriority.low, ControlPriority.medium, ControlPriority.high, ControlPriority.very_high], n_c)
            t0 = base + rng.randrange(1, hyd)
            for i in range(n_c):
                ti = t0 if rng.random() < 0.5 else base + rng.randrange(1, hyd)
                st = (i + 1) % 2
                wn.add_control("c%d" % i, Control(SimTimeCondition(wn, "==", ti), ControlAction(ab, "status", st), priority=prios[i], name="c%d" % i))
                events_ab.append((ti, prios[i].value, st))
        elif kind == "control_and_rule":
            # a simple control pending later in a hydraulic step in which a rule instant comes first
            base = rng.randrange(0, dur // hyd) * hyd
            thr = base + rng.randrange(1, hyd)
            first = -(-thr // rule_step) * rule_step
            wn.add_control("r1", Rule(SimTimeCondition(wn, ">=", thr), [ControlAction(ab, "status", 0)], name="r1"))
            events_ab.append((first, 3, 0))
            tc = base + rng.randrange(1, hyd)
            if tc != first:
                wn.add_control("c1", Control._time_control(wn, tc, "SIM_TIME", False, ControlAction(ab, "status", 1)))
                # the rule keeps holding after its threshold: at every later rule instant it closes the pipe again
                events_ab.append((tc, 3, 1))
                if tc > first:
                    events_ab.append((-(-(tc + 1) // rule_step) * rule_step, 3, 0))
        else:
            t1 = rng.randrange(1, dur // rule_step + 1) * rule_step      # on the rule grid, so that two rules meet at one instant
            p_low, p_high = rng.sample([ControlPriority.very_low, ControlPriority.low, ControlPriority.medium, ControlPriority.high, ControlPriority.very_high], 2)
            if p_low.value > p_high.value:
                p_low, p_high = p_high, p_low
            order = rng.random() < 0.5
            rules = [("r_hi", p_high, 0), ("r_lo", p_low, 1)]
            for nm, pr, st in (rules if order else rules[::-1]):
                wn.add_control(nm, Rule(SimTimeCondition(wn, "==", t1), [ControlAction(ab, "status", st)], priority=pr, name=nm))
            events_ab.append((t1, p_low.value, 1))
            events_ab.append((t1, p_high.value, 0))
        if it % nshards != shard:
            continue
        try:
            res = wntr.sim.WNTRSimulator(wn).run_sim()
        except Exception as e:
            failures.append(dict(kind=kind, hyd=hyd, rule_step=rule_step, start_clock=start_clock, events=events_ab, raised=repr(e)[:200]))
            continue
        evals += 1
        distinct.add((kind, hyd, rule_step, tuple(events_ab)))
        times = list(res.link["status"].index)
        stat = res.link["status"]["AB"]
        problems = []
        if res.error_code is not None:
            problems.append("run reports an error")
        # every instant within the duration at which the prescribed status CHANGES is a solved step (an action that changes nothing needs no step)
        def prescribed(t):
            upto = [(et, p, s) for (et, p, s) in events_ab if et <= t and (et > 0 or kind == "clock")]
            if not upto or (kind == "rule_else" and t < events_ab[0][0]):   # (before its threshold a rule with ELSE keeps the pipe open)
                return 1
            last = max(et for et, p, s in upto)
            return max((p, s) for et, p, s in upto if et == last)[1]
        for t in sorted(set(et for et, p, s in events_ab)):
            if 0 < t <= dur and prescribed(t) != prescribed(t - 1) and t not in times:
                problems.append("no solved step at the instant %d at which the status changes" % t)
        # status at each reported time: the last prescribed event at or before t (ties: highest priority), initial Open
        for t in times:
            want = prescribed(t)
            if int(stat[t]) != want:
                problems.append("status of AB at t=%d is %d, the schedule prescribes %d" % (t, int(stat[t]), want))
                break
        if any(b <= a for a, b in zip(times, times[1:])):
            problems.append("time index not strictly increasing")
        if problems:
            failures.append(dict(kind=kind, hyd=hyd, rule_step=rule_step, start_clock=start_clock, duration=dur, events=sorted(events_ab)[:6], problems=problems[:3], times=times[:12]))
        if len(samples) < 3:
            samples.append(dict(kind=kind, hyd=hyd, rule_step=rule_step, start_clock=start_clock, events=sorted(events_ab)[:4], solved_steps=len(times)))
    return dict(evaluations=evals, distinct_nontrivial=len(distinct), failures=failures[:10], samples=samples, exhaustive=False,
                scope="shard %d/%d: %d random schedules (simple time controls, a pair of them, a time rule with and without ELSE, a daily clock-time control with a "
                      "start clock time, two rules of different priority at one instant) x hydraulic step x rule step on a four-pipe network, report step ALL: every "
                      "prescribed instant is a solved step and the reported status is the prescribed one at every reported time" % (shard, nshards, N))


def control_line_times(tier, seed):
    """the instants written in [CONTROLS] lines, in every notation the EPANET manual allows (decimal hours, h:mm, h:mm:ss, AM / PM), as the reader
    (_read_control_line) turns them into seconds: enumerated over a grid of texts, against a specification written from the manual"""
    import wntr
    from wntr.epanet.io import _read_control_line
    from wntr.epanet.util import FlowUnits
    from wntr.network.controls import SimTimeCondition, TimeOfDayCondition
    warnings.simplefilter("ignore")
    wn = _net(3600, 360, 0)
    evals, distinct, failures, samples = 0, set(), [], []
    texts = []
    for h in (0, 1, 2, 3, 7, 11, 12, 13, 23, 26, 49):
        for frac, sec in ((".0", 0), (".25", 900), (".5", 1800), (".75", 2700), (".125", 450), ("", 0)):
            texts.append(("%d%s" % (h, frac), None, h * 3600 + sec))
        for mm, ss in ((0, None), (30, None), (15, 20), (59, 59), (5, 0)):
            texts.append(("%d:%02d" % (h, mm) + ("" if ss is None else ":%02d" % ss), None, h * 3600 + mm * 60 + (ss or 0)))
    for h in (1, 3, 11, 12):
        for mm, ss in ((0, None), (30, None), (15, 20), (59, 59)):
            for ampm in ("AM", "PM", "am", "pm"):
                base = (h % 12) * 3600 + mm * 60 + (ss or 0)
                texts.append(("%d:%02d" % (h, mm) + ("" if ss is None else ":%02d" % ss), ampm, base + (12 * 3600 if ampm.upper() == "PM" else 0)))
    for kw in ("TIME", "CLOCKTIME"):
        for i, (txt, ampm, want) in enumerate(texts):
            if kw == "TIME" and ampm is not None:
                continue
            if kw == "CLOCKTIME" and want >= 86400:
                continue
            line = "LINK AB CLOSED AT %s %s%s" % (kw, txt, "" if ampm is None else " " + ampm)
            try:
                c = _read_control_line(line, wn, FlowUnits.LPS, "c%d" % i)
                cond = c._condition
                got = int(cond._threshold)
                kind_ok = isinstance(cond, SimTimeCondition if kw == "TIME" else TimeOfDayCondition)
            except Exception as e:
                failures.append(dict(line=line, raised=repr(e)[:160]))
                continue
            evals += 1
            distinct.add((kw, txt, ampm))
            if got != want or not kind_ok:
                failures.append(dict(line=line, read_as_seconds=got, manual_says=want, condition=type(cond).__name__))
            if len(samples) < 3:
                samples.append(dict(line=line, seconds=got))
    return dict(evaluations=evals, distinct_nontrivial=len(distinct), failures=failures[:10], samples=samples, exhaustive=False,
                scope="%d [CONTROLS] lines 'LINK .. AT TIME / CLOCKTIME t' with t as decimal hours (binary-exact fractions), h:mm, h:mm:ss and h:mm[:ss] AM / PM: "
                      "the instant read equals the instant written (EPANET manual), a TIME line gives a simulation-time condition, a CLOCKTIME line a daily clock-time condition" % evals)


def times_section_notations(tier, seed):
    """the [TIMES] section in the notations the EPANET manual allows (decimal hours, h:mm, h:mm:ss; START CLOCKTIME with AM / PM), as the reader
    turns them into seconds: every key x every notation, against the instants written"""
    import os
    import tempfile
    import wntr
    warnings.simplefilter("ignore")
    evals, distinct, failures, samples = 0, set(), [], []
    base = os.path.join(os.path.dirname(os.path.dirname(os.path.abspath(__file__))), ".scratch")
    os.makedirs(base, exist_ok=True)
    keys = [("DURATION", "duration", 1), ("HYDRAULIC TIMESTEP", "hydraulic_timestep", 2), ("QUALITY TIMESTEP", "quality_timestep", 2), ("RULE TIMESTEP", "rule_timestep", 2),
            ("PATTERN TIMESTEP", "pattern_timestep", 2), ("PATTERN START", "pattern_start", 2), ("REPORT TIMESTEP", "report_timestep", 2), ("REPORT START", "report_start", 2)]
    notations = [("1.5", 5400), ("0.25", 900), ("2", 7200), ("2.0", 7200), ("1:30", 5400), ("0:15", 900), ("1:30:30", 5430), ("00:05:00", 300), ("12.75", 45900), ("26:00", 93600)]
    clock = [("3:30 AM", 12600), ("3:30 PM", 55800), ("12:00 AM", 0), ("12:15 PM", 44100), ("11:59:59 PM", 86399), ("6 AM", 21600)]
    head = "[JUNCTIONS]\n J1 0 1\n[RESERVOIRS]\n R1 10\n[PIPES]\n P1 R1 J1 100 300 100 0 Open\n[OPTIONS]\n Units LPS\n Headloss H-W\n"
    cases = [(k, attr, txt, want) for (k, attr, _n) in keys for (txt, want) in notations] + [("START CLOCKTIME", "start_clocktime", txt, want) for (txt, want) in clock]
    for i, (k, attr, txt, want) in enumerate(cases):
        fd, fn = tempfile.mkstemp(suffix=".inp", dir=base)
        os.close(fd)
        try:
            with open(fn, "w") as f:
                f.write(head + "[TIMES]\n Duration 48:00\n Hydraulic Timestep 1:00\n %s %s\n[END]\n" % (k.title(), txt))
            try:
                wn = wntr.network.WaterNetworkModel(fn)
                got = int(getattr(wn.options.time, attr))
            except Exception as e:
                failures.append(dict(line="%s %s" % (k, txt), raised=repr(e)[:160]))
                continue
        finally:
            os.unlink(fn)
        evals += 1
        distinct.add((k, txt))
        if got != want:
            failures.append(dict(line="%s %s" % (k, txt), read_as_seconds=got, manual_says=want))
        if len(samples) < 3:
            samples.append(dict(line="%s %s" % (k, txt), seconds=got))
    return dict(evaluations=evals, distinct_nontrivial=len(distinct), failures=failures[:10], samples=samples, exhaustive=False,
                scope="%d INP files whose [TIMES] section gives one key in one notation (8 keys x 10 notations: decimal hours with binary-exact fractions, h:mm, h:mm:ss; "
                      "START CLOCKTIME x 6 AM / PM forms): the option read equals the instant written" % evals)
