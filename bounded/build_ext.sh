#!/bin/bash
# Rebuilds the two C++ extensions from /repo's CURRENT sources into a scratch copy and prints its path.
# usage: build_ext.sh [asan]    -> prints the scratch directory (caller removes it)
set -e
R=${PYVC_REPO_SRC:-/repo}   # development only: another tree (seed checks on a scratch copy); the registered commands never set it
S=$(mktemp -d /verif/.scratch/ext_XXXXXX)
rsync -a --exclude 'tests' --exclude '*.so' --exclude '__pycache__' --exclude 'library/networks' $R/wntr $S/ 
cp $R/setup.py $R/README.md $S/ 2>/dev/null || true
cp -r $R/wntr/epanet/libepanet $S/wntr/epanet/ 2>/dev/null || true
for f in $R/wntr/epanet/libepanet/linux-x64/*.so; do mkdir -p $S/wntr/epanet/libepanet/linux-x64; cp $f $S/wntr/epanet/libepanet/linux-x64/; done
cd $S
export BUILD_WNTR_EXTENSIONS=true
if [ "$1" = "asan" ]; then export CFLAGS="-fsanitize=address,undefined -fno-omit-frame-pointer -O1"; export LDFLAGS="-fsanitize=address,undefined"; fi
/venv/bin/python setup.py build_ext --inplace > $S/build.log 2>&1 || { echo "BUILD FAILED" >&2; tail -20 $S/build.log >&2; exit 3; }
ls $S/wntr/sim/aml/_evaluator*.so $S/wntr/sim/network_isolation/_network_isolation*.so > /dev/null
echo $S
