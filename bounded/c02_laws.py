"""C02 bounded stand-in: the documented head-flow law of every link at every reported step of real WNTRSimulator runs.

closed link: zero flow; open pipe: h_start - h_end = sign(q) (k |q|^1.852 + m q^2) with k = 10.667 L / (C^1.852 D^4.871), m = 8 K / (g pi^2 D^4);
open head pump: gain = A - B q^C on its curve; power pump: gain * q * rho g = P; active PRV: downstream head = setting + elevation; active PSV: upstream head
= setting + elevation; active FCV: q = setting; active TCV: loss = 8 setting / (g pi^2 D^4) q|q|; open valve: minor loss only; pumps and check-valve
pipes: no reverse flow beyond the flow tolerance.  Tolerances are stated in the scope text (the default Hazen-Williams form is smoothed below 0.4 L/s)."""
import os
import math
import warnings
import logging


def _valves(kind, rng):
    import wntr
    wn = wntr.network.WaterNetworkModel()
    wn.add_pattern("dp", [1.0, 0.5, 1.5, 0.8])
    rh = rng.choice([60.0, 80.0])
    ea = rng.choice([0.0, 3.0])
    wn.add_reservoir("R", base_head=rh)
    wn.add_junction("A", base_demand=0.002, elevation=ea)
    wn.add_junction("B", base_demand=rng.choice([0.006, 0.012]), elevation=rng.choice([0.0, 5.0]), demand_pattern="dp")
    wn.add_junction("C", base_demand=0.004, elevation=2.0, demand_pattern="dp")
    wn.add_pipe("RA", "R", "A", length=200, diameter=0.3, roughness=110, minor_loss=rng.choice([0.0, 2.5]))
    if rng.random() < 0.5:       # the same pipe drawn against the flow: negative flow through a pipe with a minor loss
        wn.add_pipe("BC", "C", "B", length=300, diameter=0.2, roughness=90, minor_loss=rng.choice([0.5, 6.0]))
    else:
        wn.add_pipe("BC", "B", "C", length=300, diameter=0.2, roughness=90, minor_loss=rng.choice([0.0, 1.2]))
    setting = {"PRV": rng.choice([20.0, 35.0]), "PSV": rh - ea - rng.choice([0.4, 0.8]), "FCV": rng.choice([0.004, 0.03]), "TCV": rng.choice([15.0, 400.0])}[kind]
    wn.add_valve("V", "A", "B", diameter=0.2, valve_type=kind, minor_loss=rng.choice([0.0, 0.8]), initial_setting=setting)
    wn.add_pipe("AB2", "A", "B", length=800, diameter=(0.15 if kind in ("FCV", "TCV") else 0.06), roughness=100)   # a by-pass, so that a flow control valve has something to control
    if kind == "PSV":
        wn.add_tank("T", elevation=20.0, init_level=3.0, min_level=0.0, max_level=8.0, diameter=10.0)
        wn.add_pipe("CT", "C", "T", length=100, diameter=0.2, roughness=100)
    elif rng.random() < 0.6:
        # a control changes the setting of the (already active) valve in mid-run
        from wntr.network.controls import Control, ControlAction
        new = {"PRV": setting - 8.0, "FCV": setting * 0.5, "TCV": setting * 4.0}[kind]
        wn.add_control("new_setting", Control._time_control(wn, 2 * 3600, "SIM_TIME", False, ControlAction(wn.get_link("V"), "setting", new)))
    wn.options.time.duration = 4 * 3600
    wn.options.time.pattern_timestep = 3600
    return wn


def _two_point_pump(rng):
    import wntr
    wn = wntr.network.WaterNetworkModel()
    wn.add_pattern("dp", [1.0, 0.5, 1.6, 0.8])
    wn.add_reservoir("R", base_head=10.0)
    wn.add_junction("A", base_demand=0.0, elevation=0.0)
    wn.add_junction("B", base_demand=rng.choice([0.015, 0.03]), elevation=20.0, demand_pattern="dp")
    q0 = rng.choice([0.0, 0.01])
    pts = [(q0, 45.0), (q0 + 0.05, 20.0)]
    wn.add_curve("pc", "HEAD", pts if rng.random() < 0.5 else pts[::-1])
    wn.add_pump("P", "R", "A", pump_type="HEAD", pump_parameter="pc")
    wn.add_pipe("AB", "A", "B", length=300, diameter=0.25, roughness=110)
    wn.options.time.duration = 4 * 3600
    wn.options.time.pattern_timestep = 3600
    return wn


def run(tier, seed, shard, nshards):
    import random
    import numpy as np
    import wntr
    from wntr.network import LinkStatus
    warnings.simplefilter("ignore")
    logging.disable(logging.CRITICAL)
    root = os.path.dirname(os.path.dirname(os.path.abspath(wntr.__file__)))
    import sys
    sys.path.insert(0, os.path.dirname(os.path.dirname(os.path.abspath(__file__))))
    from bounded import c05_consistency, c06_tanks_sim, c01_balance
    files = ["examples/networks/Net1.inp", "examples/networks/Net3.inp", "wntr/tests/networks_for_testing/cv_controls.inp", "wntr/tests/networks_for_testing/tank_controls_1.inp"]
    nets = ["file:" + f for f in files] + ["valve:%s:%d" % (k, i) for k in ("PRV", "PSV", "FCV", "TCV") for i in range(3 if tier == "quick" else 12)] + \
           ["special:" + k for k in ("branch_cut_and_reconnected", "negative_demand", "well_behind_a_pump")] + ["pump2:%d" % i for i in range(2 if tier == "quick" else 8)] + ["gen5:%d" % i for i in range(3 if tier == "quick" else 20)] + \
           ["gen6:%d" % i for i in range(4 if tier == "quick" else 30)]
    G, RHO_G, QTOL = 9.81, 9.81 * 1000.0, 2.83168e-6
    evals, distinct, failures, samples = 0, set(), [], []
    idx = 0
    for rel in nets:
        for approx in ("default", "piecewise"):
            idx += 1
            if idx % nshards != shard:
                continue
            rng = random.Random(seed * 7919 + idx)
            try:
                if rel.startswith("file:"):
                    wn = wntr.network.WaterNetworkModel(os.path.join(root, rel[5:]))
                    wn.options.time.duration = min(wn.options.time.duration, 8 * 3600)
                elif rel.startswith("valve:"):
                    wn = _valves(rel.split(":")[1], rng)
                elif rel.startswith("special:"):
                    wn = c01_balance._special(rel[8:])
                elif rel.startswith("pump2:"):
                    wn = _two_point_pump(rng)
                elif rel.startswith("gen5:"):
                    wn = c05_consistency._generated(rng)
                else:
                    wn = c06_tanks_sim._generated(rng)
                    wn.options.time.report_timestep = wn.options.time.hydraulic_timestep
                # SuperLU prints "dgstrf info" lines straight to file descriptor 1 when a trial matrix is singular: keep them out of the check's output
                sys.stdout.flush()
                saved = os.dup(1)
                devnull = os.open(os.devnull, os.O_WRONLY)
                os.dup2(devnull, 1)
                try:
                    res = wntr.sim.WNTRSimulator(wn).run_sim(HW_approx=approx)
                finally:
                    os.dup2(saved, 1)
                    os.close(saved)
                    os.close(devnull)
            except NotImplementedError:
                continue
            except Exception as e:
                failures.append(dict(net=rel, HW_approx=approx, raised=repr(e)[:200]))
                continue
            if res.error_code is not None:
                continue
            head, flow, stat = res.node["head"], res.link["flowrate"], res.link["status"]
            sett = res.link["setting"] if "setting" in res.link else None
            prob = None
            for ln, l in wn.links():
                hs, he = head[l.start_node_name].values.astype(float), head[l.end_node_name].values.astype(float)
                q, st = flow[ln].values.astype(float), stat[ln].values.astype(int)
                evals += 1
                distinct.add((rel, approx, l.link_type))
                for k in range(len(q)):
                    t = int(flow.index[k])
                    dh = hs[k] - he[k]
                    if st[k] == 0:
                        if abs(q[k]) > 1e-7:
                            prob = "closed link carries %.3g" % q[k]
                    elif l.link_type == "Pipe":
                        kk = 10.666829500036352 * l.length / (l.roughness ** 1.852 * l.diameter ** 4.871)
                        mm = 8.0 * l.minor_loss / (G * math.pi ** 2 * l.diameter ** 4)
                        law = math.copysign(kk * abs(q[k]) ** 1.852 + mm * q[k] ** 2, q[k])
                        if not (abs(dh - law) <= 2e-3 + 2e-3 * abs(law)):
                            prob = "open pipe: h_start - h_end = %.6g, Hazen-Williams + minor loss at q = %.6g gives %.6g" % (dh, q[k], law)
                        if l.check_valve and q[k] < -QTOL * 10:
                            prob = "check-valve pipe reports reverse flow %.3g" % q[k]
                    elif l.link_type == "Pump":
                        if q[k] < -QTOL * 10:
                            prob = "pump reports reverse flow %.3g" % q[k]
                        elif l.pump_type == "HEAD":
                            pts_ = sorted(l.get_pump_curve().points)
                            if len(pts_) == 2:        # the documented curve, computed here: the straight line through the two points
                                B = -(pts_[1][1] - pts_[0][1]) / (pts_[1][0] - pts_[0][0])
                                A, C = pts_[0][1] + B * pts_[0][0], 1.0
                            elif len(pts_) == 1:      # EPANET's one-point curve: shutoff head 4/3 H, zero head at 2 Q
                                A, B, C = 4.0 / 3.0 * pts_[0][1], pts_[0][1] / (3.0 * pts_[0][0] ** 2), 2.0
                            else:
                                A, B, C = l.get_head_curve_coefficients()
                            if q[k] > 1e-4 and not (abs(-dh - (A - B * q[k] ** C)) <= 1e-3 + 1e-3 * abs(dh)):
                                prob = "open head pump: gain %.6g, its curve at q = %.6g gives %.6g" % (-dh, q[k], A - B * q[k] ** C)
                        elif q[k] > 1e-6 and not (abs(-dh * q[k] * RHO_G - l.power) <= 1e-3 * l.power + 1e-2):
                            prob = "power pump: gain x q x rho g = %.6g, power %.6g" % (-dh * q[k] * RHO_G, l.power)
                    elif l.link_type == "Valve":
                        s_ = float(sett.loc[flow.index[k], ln]) if sett is not None and ln in sett.columns else l.setting
                        mm = 8.0 * l.minor_loss / (G * math.pi ** 2 * l.diameter ** 4)
                        if st[k] == int(LinkStatus.Active):
                            vt = l.valve_type
                            if vt == "PRV" and not (abs(he[k] - (s_ + l.end_node.elevation)) <= 1e-3):
                                prob = "active PRV: downstream head %.6g, setting + elevation %.6g" % (he[k], s_ + l.end_node.elevation)
                            elif vt == "PSV" and not (abs(hs[k] - (s_ + l.start_node.elevation)) <= 1e-3):
                                prob = "active PSV: upstream head %.6g, setting + elevation %.6g" % (hs[k], s_ + l.start_node.elevation)
                            elif vt == "FCV" and not (abs(q[k] - s_) <= 1e-6 + 1e-6 * abs(s_)):
                                prob = "active FCV: flow %.6g, setting %.6g" % (q[k], s_)
                            elif vt == "TCV":
                                r_ = 8.0 * s_ / (G * math.pi ** 2 * l.diameter ** 4)
                                law = r_ * q[k] * abs(q[k])
                                if not (abs(dh - law) <= 2e-3 + 2e-3 * abs(law)):
                                    prob = "active TCV: loss %.6g, coefficient x q|q| = %.6g" % (dh, law)
                        else:
                            law = mm * q[k] * abs(q[k])
                            if not (abs(dh - law) <= 2e-3 + 2e-3 * abs(law)):
                                prob = "open valve: loss %.6g, minor loss law %.6g" % (dh, law)
                    if prob:
                        failures.append(dict(net=rel, HW_approx=approx, link=ln, type=l.link_type, at=t, problem=prob))
                        break
                if prob:
                    break
            if len(samples) < 3:
                samples.append(dict(net=rel, HW_approx=approx, links=wn.num_links, steps=len(flow.index)))
    return dict(evaluations=evals, distinct_nontrivial=len(distinct), failures=failures[:10], samples=samples, exhaustive=False,
                scope="shard %d/%d: %d networks x {HW_approx default, piecewise}: four files, generated networks with an active PRV / PSV / FCV / TCV (random settings, minor "
                      "losses), special and generated pump / tank / check-valve networks: at every reported step every link obeys the law of its type and reported status "
                      "(pipes and valves: 2e-3 m + 0.2 %% of the loss; pump curves 1e-3 m + 0.1 %%; FCV 1e-6; closed links |q| <= 1e-7; no reverse flow beyond 10 Qtol "
                      "in pumps and check-valve pipes)" % (shard, nshards, len(nets)))
