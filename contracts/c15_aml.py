"""C15 — wntr.sim.aml (Python half under contract; the compiled evaluator is a bounded differential stand-in).

  * diff_down of every operator: the adjoint of each operand grows by (adjoint of the node) x (partial derivative),
    with the partials written from calculus (transcendental functions uninterpreted, the same symbols on both sides);
    aliasing (both operands the same node) is a separate case;
  * operator folding of ExpressionBase / Float with native numbers denotes ordinary arithmetic;
  * Model._increment_* / _decrement_* keep refcount and the python<->C object maps consistent and never raise for a
    leaf that is or is not registered yet; Model.__delattr__ unregisters what __setattr__ registered.
"""
import math
import types

import z3

from pyvc.core import Contract, Case
from pyvc.runner import Bounded
from pyvc.values import SV, SymObj, NativeModel, real_val
from pyvc import library, amlmodel

import wntr.sim.aml.expr as E
import wntr.sim.aml.aml as A
from collections import OrderedDict
from wntr.utils.ordered_set import OrderedSet

P = ["C15"]
Rr = library.as_real


def _leaf(cx, tag, cls=E.Var):
    return cx.obj(cls, _value=cx.real("value_" + tag), _c_obj=None, name=tag)


BIN = {
    E.AddOperator: lambda v1, v2: (z3.RealVal(1), z3.RealVal(1)),
    E.SubtractOperator: lambda v1, v2: (z3.RealVal(1), z3.RealVal(-1)),
    E.MultiplyOperator: lambda v1, v2: (v2, v1),
    E.DivideOperator: lambda v1, v2: (1 / v2, -v1 / (v2 * v2)),
}
UN = {
    E.NegationOperator: lambda v: z3.RealVal(-1),
    E.ExpOperator: lambda v: library.EXP(v),
    E.LogOperator: lambda v: 1 / v,
    E.SinOperator: lambda v: library.COS(v),
    E.CosOperator: lambda v: -library.SIN(v),
    E.TanOperator: lambda v: 1 / (library.COS(v) * library.COS(v)),
    E.AsinOperator: lambda v: 1 / library.SQRT(1 - v * v),
    E.AcosOperator: lambda v: -1 / library.SQRT(1 - v * v),
    E.AtanOperator: lambda v: 1 / (1 + v * v),
    E.AbsOperator: lambda v: z3.If(v >= 0, z3.RealVal(1), z3.RealVal(-1)),
    E.SignOperator: lambda v: z3.RealVal(0),
}


def _bin_case(cls, aliased, second=None):
    """`second`: class of the second operand's leaf (Var by default; Param / Float: what the forward sweep put into val_dict - for the symbolic sweep the leaf itself,
    whose value may change later - is what the adjoint must be built from, not the number the leaf holds when the derivative is taken)"""
    def build(cx):
        o1 = _leaf(cx, "a")
        o2 = o1 if aliased else _leaf(cx, "b", second or E.Var)
        op = cx.obj(cls, _operand1=o1, _operand2=o2)
        v1, v2 = cx.real("v1"), (cx.real("v2") if not aliased else None)
        v2 = v1 if aliased else v2
        der, d1, d2 = cx.real("der"), cx.real("d1"), cx.real("d2")
        val = {o1: v1, o2: v2}
        dd = {op: der, o1: d1}
        if not aliased:
            dd[o2] = d2
        if cls is E.DivideOperator:
            cx.assume(cx.t(v2) != 0)        # a regular point of the operator
        cx.target(cls.diff_down, op, val, dd)

        def post(out):
            if not out.returned:
                return []
            V1, V2, DER = cx.t(v1), cx.t(v2), cx.t(der)
            p1, p2 = BIN[cls](V1, V2)
            if aliased:
                return [("adjoint_grows_by_der_times_sum_of_partials", Rr(dd[o1]) == cx.t(d1) + DER * (p1 + p2))]
            return [("adjoint_of_operand1_grows_by_der_times_partial", Rr(dd[o1]) == cx.t(d1) + DER * p1),
                    ("adjoint_of_operand2_grows_by_der_times_partial", Rr(dd[o2]) == cx.t(d2) + DER * p2),
                    ("node_adjoint_and_values_untouched", z3.And(Rr(dd[op]) == DER, Rr(val[o1]) == V1))]
        cx.ensure(post)
    return Case("%s,aliased=%s%s" % (cls.__name__, aliased, "" if second is None else ",second_operand=%s" % second.__name__), build, crosscheck=False)


def _pow_case(exponent_kind):
    def build(cx):
        o1 = _leaf(cx, "a")
        o2 = _leaf(cx, "b", {"var": E.Var, "param": E.Param, "float": E.Float}[exponent_kind]) if exponent_kind != "expr" else cx.obj(E.AddOperator, _operand1=o1, _operand2=o1)
        op = cx.obj(E.PowerOperator, _operand1=o1, _operand2=o2)
        v1, v2, der, d1, d2 = cx.real("v1"), cx.real("v2"), cx.real("der"), cx.real("d1"), cx.real("d2")
        val, dd = {o1: v1, o2: v2}, {op: der, o1: d1, o2: d2}
        cx.target(E.PowerOperator.diff_down, op, val, dd)

        def post(out):
            if not out.returned:
                return []
            V1, V2, DER = cx.t(v1), cx.t(v2), cx.t(der)
            posts = [("adjoint_of_base_grows_by_der_y_x_pow_y_minus_1", Rr(dd[o1]) == cx.t(d1) + DER * V2 * library.POW(V1, V2 - 1))]
            if exponent_kind in ("var", "expr"):
                posts.append(("adjoint_of_variable_exponent_grows_by_der_x_pow_y_log_x", Rr(dd[o2]) == cx.t(d2) + DER * library.POW(V1, V2) * library.LOG(V1)))
            else:
                posts.append(("constant_exponent_adjoint_untouched", Rr(dd[o2]) == cx.t(d2)))
            return posts
        cx.ensure(post)
    return Case("PowerOperator,exponent=%s" % exponent_kind, build, crosscheck=False)


def _un_case(cls):
    def build(cx):
        o = _leaf(cx, "a")
        op = cx.obj(cls, _operand=o)
        v, der, d = cx.real("v"), cx.real("der"), cx.real("d")
        val, dd = {o: v}, {op: der, o: d}
        V = cx.t(v)
        regular = {E.LogOperator: V != 0, E.TanOperator: library.COS(V) != 0, E.AsinOperator: z3.And(V * V < 1, library.SQRT(1 - V * V) != 0),
                   E.AcosOperator: z3.And(V * V < 1, library.SQRT(1 - V * V) != 0)}.get(cls)
        if regular is not None:
            cx.assume(regular)              # a regular point of the operator
        cx.target(cls.diff_down, op, val, dd)

        def post(out):
            if not out.returned:
                return []
            return [("adjoint_grows_by_der_times_derivative", denote(dd[o]) == cx.t(d) + cx.t(der) * UN[cls](cx.t(v)))]
        cx.ensure(post)
    return Case(cls.__name__, build, crosscheck=False)


def _ifelse_case():
    def build(cx):
        c, t, e = cx.obj(E.AddOperator, _operand1=None, _operand2=None), _leaf(cx, "t"), _leaf(cx, "e")
        op = cx.obj(E.IfElseOperator, _if_arg=c, _then_arg=t, _else_arg=e)
        cond, der, dt, de = cx.bool("cond"), cx.real("der"), cx.real("dt"), cx.real("de")
        val, dd = {c: cond}, {op: der, t: dt, e: de, c: 0}
        cx.target(E.IfElseOperator.diff_down, op, val, dd)

        def post(out):
            if not out.returned:
                return []
            C = cx.t(cond)
            return [("adjoint_flows_to_the_selected_branch_only",
                     z3.And(Rr(dd[t]) == cx.t(dt) + z3.If(C, cx.t(der), 0), Rr(dd[e]) == cx.t(de) + z3.If(C, z3.RealVal(0), cx.t(der))))]
        cx.ensure(post)
    return Case("IfElseOperator", build, crosscheck=False)


# ---------------------------------------------------------------------------- operator folding with native numbers

def denote(x):
    """value denoted by a (symbolic instance of a) wntr.sim.aml expression / leaf / number."""
    if isinstance(x, SV) or isinstance(x, (int, float)):
        return Rr(x)
    if isinstance(x, SymObj):
        if issubclass(x.cls, E.Leaf):
            return Rr(x.fields["_value"])
        if x.cls is E.expression:
            return denote(x.fields["_operators"][-1])
        if issubclass(x.cls, E.BinaryOperator):
            a, b = denote(x.fields["_operand1"]), denote(x.fields["_operand2"])
            return {E.AddOperator: lambda: a + b, E.SubtractOperator: lambda: a - b, E.MultiplyOperator: lambda: a * b,
                    E.DivideOperator: lambda: a / b, E.PowerOperator: lambda: library.POW(a, b)}[x.cls]()
        if x.cls is E.NegationOperator:
            return -denote(x.fields["_operand"])
    if isinstance(x, E.Float):
        return Rr(x.value)
    raise library.Unsupported("denote(%r)" % (x,))


_FOLD = {"add": lambda a, b: a + b, "sub": lambda a, b: a - b, "mul": lambda a, b: a * b, "truediv": lambda a, b: a / b}


def _fold_case(opname, left_kind, right_kind):
    """x (op) y with x, y in {Var, Float, native number}; at least one is an aml object."""
    def build(cx):
        def mk(kind, tag):
            if kind == "native":
                return cx.real("n_" + tag)
            return _leaf(cx, tag, {"var": E.Var, "float": E.Float}[kind])
        x, y = mk(left_kind, "x"), mk(right_kind, "y")
        cx.target(_apply, opname, x, y)
        yv = cx.t(y) if right_kind == "native" else cx.t(y.fields["_value"]) if cx.mode == "symbolic" else None
        if opname == "truediv" and right_kind == "native":
            cx.allow_raise(ValueError, yv == 0)
        if opname == "truediv" and right_kind != "native" and cx.mode == "symbolic":
            cx.assume(cx.t(y.fields["_value"]) != 0)       # a regular point: the value of the denominator is not 0

        def post(out):
            if not out.returned:
                return []
            a = denote(x)
            b = denote(y)
            return [("result_denotes_the_arithmetic_result", denote(out.value) == _FOLD[opname](a, b))]
        cx.ensure(post)
    return Case("%s:%s,%s" % (opname, left_kind, right_kind), build, crosscheck=False)


def _apply(opname, x, y):
    import operator
    return getattr(operator, opname)(x, y)


def _apply_interp(opname, x, y):
    if opname == "add":
        return x + y
    if opname == "sub":
        return x - y
    if opname == "mul":
        return x * y
    return x / y


# ---------------------------------------------------------------------------- refcount bookkeeping

class Ev(NativeModel):
    def __init__(self):
        self.log = []

    def add_var(self, v):
        self.log.append(("add_var", v))
        return types.SimpleNamespace(value=v, kind="cvar")

    def add_param(self, v):
        self.log.append(("add_param", v))
        return types.SimpleNamespace(value=v, kind="cparam")

    def add_float(self, v):
        self.log.append(("add_float", v))
        return types.SimpleNamespace(value=v, kind="cfloat")

    def remove_var(self, c):
        self.log.append(("remove", c))

    remove_param = remove_float = remove_var


KINDS = {"var": (E.Var, "_var_cvar_map", A.Model._increment_var, A.Model._decrement_var, "cvar"),
         "param": (E.Param, "_param_cparam_map", A.Model._increment_param, A.Model._decrement_param, "cparam"),
         "float": (E.Float, "_float_cfloat_map", A.Model._increment_float, A.Model._decrement_float, "cfloat")}


def _refcount_case(kind, present, direction):
    cls, mapname, inc, dec, ckind = KINDS[kind]

    def build(cx):
        leaf = _leaf(cx, "x", cls)
        other = _leaf(cx, "other", cls)
        rc = cx.int("refcount")
        cx.assume(cx.t(rc) >= 1)
        ev = Ev()
        maps = {m: OrderedDict() for m in ("_var_cvar_map", "_param_cparam_map", "_float_cfloat_map")}
        refs = OrderedDict()
        cobj = types.SimpleNamespace(value=cx.real("c_value"), kind=ckind)
        maps[mapname][other] = types.SimpleNamespace(value=0.0, kind=ckind)
        refs[other] = 1
        if present:
            maps[mapname][leaf] = cobj
            refs[leaf] = rc
            leaf.fields["_c_obj"] = cobj
        model = cx.obj(A.Model, _evaluator=ev, _refcounts=refs, **maps)
        cx.target(inc if direction == "inc" else dec, model, leaf)

        def post(out):
            if not out.returned:
                return []
            m = maps[mapname]
            posts = [("other_leaves_untouched", other in m and refs.get(other) == 1 and len([k for k in m if k is not leaf and k is not other]) == 0)]
            if direction == "inc":
                posts.append(("leaf_registered_afterwards", leaf in m and leaf in refs))
                if present:
                    posts += [("refcount_incremented", library.as_int(refs[leaf]) == cx.t(rc) + 1), ("same_c_object_returned", out.value is cobj),
                              ("no_second_c_object_created", ev.log == [])]
                else:
                    posts += [("refcount_starts_at_one", refs.get(leaf) == 1), ("c_object_created_once_and_returned", len(ev.log) == 1 and out.value is m[leaf] and
                                                                                 leaf.fields["_c_obj"] is m[leaf])]
            else:
                gone = leaf not in m and leaf not in refs
                # two paths: refcount was 1 (removed) or larger (kept): decide by what the path did
                if gone:
                    posts += [("removed_only_when_last_reference_dropped", cx.t(rc) == 1), ("c_object_released", ev.log == [("remove", cobj)] and leaf.fields["_c_obj"] is None)]
                else:
                    posts += [("kept_while_still_referenced", z3.And(cx.t(rc) >= 2, library.as_int(refs[leaf]) == cx.t(rc) - 1)), ("c_object_kept", ev.log == [] and leaf.fields["_c_obj"] is cobj)]
            return posts
        cx.ensure(post)
    return Case("%s,%s,present=%s" % (kind, direction, present), build, crosscheck=False)


_ref_cases = [_refcount_case(k, p, "inc") for k in KINDS for p in (False, True)] + [_refcount_case(k, True, "dec") for k in KINDS]

_bin_cases = [_bin_case(c, a) for c in BIN for a in (False, True)] + [_bin_case(c, False, k) for c in BIN for k in (E.Param, E.Float)] + \
             [_pow_case(k) for k in ("float", "param", "var", "expr")]
_un_cases = [_un_case(c) for c in UN] + [_ifelse_case()]
_fold_cases = [_fold_case(o, l, r) for o in _FOLD for (l, r) in (("var", "native"), ("native", "var"), ("float", "native"), ("native", "float"), ("var", "float"), ("float", "var"), ("var", "var"), ("float", "float"))]

CONTRACTS = [
    Contract("wntr.sim.aml.expr:BinaryOperator subclasses.diff_down", P, _bin_cases, pow_fn=amlmodel.aml_pow, total_arith=True,
             trusted=["pow/log uninterpreted (same symbols in code and spec)", "evaluation away from singular points (division total)"]),
    Contract("wntr.sim.aml.expr:UnaryOperator subclasses + IfElseOperator.diff_down", P, _un_cases, pow_fn=amlmodel.aml_pow, total_arith=True,
             trusted=["exp/log/sin/cos/tan/asin/acos/atan uninterpreted (same symbols in code and spec); sqrt_ total"]),
    Contract("wntr.sim.aml.expr:ExpressionBase/Leaf/Float arithmetic with native numbers", P, _fold_cases, pow_fn=amlmodel.aml_pow, total_arith=True,
             interpret_always=(_apply, E.Float, E.expression), models=library.build_models),
    Contract("wntr.sim.aml.aml:Model._increment_*/_decrement_*", P, _ref_cases,
             trusted=["Evaluator.add_var/add_param/add_float/remove_* (C++): create / release one C object (bounded stand-in C15.evaluator)"]),
]


# ---------------------------------------------------------------------------- Model.__setattr__ / __delattr__ registration symmetry

# ---------------------------------------------------------------------------- get_rpn: the program handed to the compiled evaluator

def _rpn_case(kind, shape):
    """operator classes x which operands are leaves: the node's program is its operands' programs in order followed by its opcode; the programs
    stored for the operands (shared sub-expressions are consumed several times) are left as they were"""
    def build(cx):
        la, lb_, lc = cx.int("index_a"), cx.int("index_b"), cx.int("index_c")
        A_, B_, C_ = E.Var(1.0), E.Var(2.0), E.Var(3.0)
        ndx = {A_: la, B_: lb_, C_: lc}
        subs = {}

        def operand(tag, leaf, is_leaf):
            if is_leaf:
                return leaf, [ndx[leaf]]
            node = E.AddOperator(leaf, leaf)            # some non-leaf node with a stored program of symbolic words
            prog = [cx.int("word_%s_%d" % (tag, i)) for i in range(2)]
            subs[node] = (prog, list(prog))
            return node, prog
        if kind == "binary":
            cls = E.MultiplyOperator
            o1, p1 = operand("x", A_, shape[0])
            o2, p2 = (o1, p1) if shape == "shared" else operand("y", B_, shape[1])
            if shape == "shared":
                o1, p1 = operand("x", A_, False)
                o2, p2 = o1, p1
            op = cls(o1, o2)
            want = p1 + p2 + [cls.operation_enum]
        elif kind == "unary":
            cls = E.AbsOperator
            o1, p1 = operand("x", A_, shape[0])
            op = cls(o1)
            want = p1 + [cls.operation_enum]
        elif kind == "inequality":
            o1, p1 = operand("x", A_, shape[0])
            op = E.InequalityOperator(o1, B_, C_)
            want = p1 + [lb_, lc, E.OperationEnum.inequality.value]
        else:
            o1, p1 = operand("i", A_, shape[0])
            o2, p2 = operand("t", B_, shape[1])
            o3, p3 = operand("e", C_, shape[2])
            op = E.IfElseOperator(o1, o2, o3)
            want = p1 + p2 + p3 + [E.OperationEnum.if_else.value]
        rpn_map = {k: v[0] for k, v in subs.items()}
        cx.target(type(op).get_rpn, op, rpn_map, ndx)

        def post(out):
            if not out.returned:
                return []
            got = rpn_map.get(op)
            same = got is not None and len(got) == len(want) and all((library.as_int(g) == library.as_int(w)) if isinstance(g, SV) or isinstance(w, SV) else g == w
                                                                      for g, w in zip(got, want))
            posts = [("program_is_the_operands_programs_in_order_then_the_opcode",
                      z3.And(*[(library.as_int(g) == library.as_int(w)) if isinstance(g, SV) or isinstance(w, SV) else z3.BoolVal(g == w) for g, w in zip(got, want)])
                      if got is not None and len(got) == len(want) else False)]
            untouched = all(len(rpn_map[k]) == len(v[1]) and all(a is b for a, b in zip(rpn_map[k], v[1])) for k, v in subs.items())
            posts.append(("stored_programs_of_the_operands_left_as_they_were", untouched))
            posts.append(("own_program_is_a_fresh_list", all(got is not rpn_map[k] for k in subs)))
            return posts
        cx.ensure(post)
    return Case("%s,%s" % (kind, shape if isinstance(shape, str) else ",".join("leaf" if x else "node" for x in shape)), build, crosscheck=False)


_rpn_cases = [_rpn_case("binary", sh) for sh in ((True, True), (True, False), (False, True), (False, False), "shared")] + \
             [_rpn_case("unary", sh) for sh in ((True,), (False,))] + [_rpn_case("inequality", sh) for sh in ((True,), (False,))] + \
             [_rpn_case("if_else", sh) for sh in ((False, True, True), (False, False, True), (False, True, False), (False, False, False), (True, True, True))]


# ---------------------------------------------------------------------------- Leaf.value: python side and compiled side stay in step

class _CObj(NativeModel):
    def __init__(self, value):
        self.value = value


def _leaf_value_case(cls, registered, same_as_cached):
    def build(cx):
        cached, stale, new = cx.real("python_side_value"), cx.real("compiled_side_value"), cx.real("assigned")
        if same_as_cached:
            cx.assume(cx.t(new) == cx.t(cached), cx.t(stale) != cx.t(cached))   # the compiled side moved on (load_var_values_from_x), then the old value is assigned again
        c = _CObj(stale) if registered else None
        leaf = cx.obj(cls, _value=cached, _c_obj=c, name="x")

        def assign_and_read(lf, v):
            lf.value = v
            return lf.value
        cx.interp.interpret_always = tuple(cx.interp.interpret_always) + (assign_and_read,)
        cx.target(assign_and_read, leaf, new)

        def post(out):
            if not out.returned:
                return []
            posts = [("reading_back_gives_the_assigned_value", Rr(out.value) == cx.t(new)),
                     ("python_side_holds_the_assigned_value", Rr(cx.interp.getattr(leaf, "_value")) == cx.t(new))]
            if registered:
                posts.append(("compiled_side_holds_the_assigned_value", Rr(c.value) == cx.t(new)))
            return posts
        cx.ensure(post)
    return Case("%s,registered=%s,assigning_the_cached_value_again=%s" % (cls.__name__, registered, same_as_cached), build, crosscheck=False)


# ---------------------------------------------------------------------------- the order of the reverse sweep

def _sweep_case(pattern):
    """`pattern` is the forward operator list as indices into distinct operator objects (a shared sub-expression occurs several times); the reverse sweep
    must visit every operator once, and an operator only after every later occurrence of it, i.e. in decreasing order of FIRST occurrence: then
    each operator's adjoint is complete (all its consumers come later in the forward list than its first occurrence) when it is propagated"""
    def build(cx):
        leaf = E.Var(1.0)
        ops = [E.NegationOperator(leaf) for _ in range(max(pattern) + 1)]
        ex = E.expression()
        for i in pattern:
            ex.append_operator(ops[i])
        cx.target(lambda e: list(e._operators_for_reverse_sweep()), ex)

        def post(out):
            if not out.returned:
                return []
            first = {}
            for pos, i in enumerate(pattern):
                first.setdefault(i, pos)
            want = [ops[i] for i in sorted(first, key=lambda i: -first[i])]
            got = out.value
            return [("every_operator_once_in_decreasing_order_of_first_occurrence", len(got) == len(want) and all(a is b for a, b in zip(got, want)))]
        cx.ensure(post)
    return Case("forward order %s" % "".join("abcd"[i] for i in pattern), build, crosscheck=False)


def _patterns(maxlen=5, k=3):
    import itertools
    out = []
    for n in range(1, maxlen + 1):
        for pat in itertools.product(range(k), repeat=n):
            # canonical labelling (first occurrences in order 0,1,2) and every label used up to the maximum
            seen = []
            for i in pat:
                if i not in seen:
                    seen.append(i)
            if seen == list(range(len(seen))):
                out.append(tuple(pat))
    return out


def _leaves_case(kind):
    """get_vars / get_params / get_floats of an expression OBJECT: exactly the leaves of the tree under its own last node, also after the object has been
    extended into a longer expression (the two share one operator list; the longer one brings in leaves of every kind the prefix does not contain)"""
    def build(cx):
        x, y, z = E.Var(1.5), E.Var(-0.7), E.Var(2.0)
        p, q = E.Param(3.0), E.Param(4.0)
        f, g = E.Float(2.5), E.Float(0.5)
        a = x * y
        if kind == "prefix_of_a_longer_expression":
            a = x * y + p * f
            b = (a + z ** 2) * q - g
        elif kind == "prefix_of_a_prefix":
            a0 = x * p
            a = a0 - f
            b = a * z
            c = b + q * y
        elif kind == "the_longest_expression":
            a = (x * y + z ** 2) * q - g
        elif kind == "prefix_then_unary":
            a = x - f
            b = E.exp(a) * y
        a._vars = a._params = a._floats = None
        cx.target(lambda e: (list(e.get_vars()), list(e.get_params()), list(e.get_floats()), list(e.get_leaves())), a)

        def post(out):
            if not out.returned:
                return []
            want = {"v": [], "p": [], "f": []}
            seen = set()

            def walk(n):
                if id(n) in seen:
                    return
                seen.add(id(n))
                if n.is_leaf():
                    want["v" if n.is_variable_type() else "p" if n.is_parameter_type() else "f"].append(n)
                else:
                    for o in n.operands():
                        walk(o)
            walk(a.last_node())
            gv, gp, gf, gl = out.value
            same = lambda got, w: len(got) == len(w) and {id(i) for i in got} == {id(i) for i in w}
            return [("the_variables_are_exactly_those_under_its_own_last_node", same(gv, want["v"])),
                    ("the_parameters_are_exactly_those_under_its_own_last_node", same(gp, want["p"])),
                    ("the_floats_are_exactly_those_under_its_own_last_node", same(gf, want["f"])),
                    ("get_leaves_is_their_union", same(gl, want["v"] + want["p"] + want["f"]))]
        cx.ensure(post)
    return Case(kind, build, crosscheck=False)


CONTRACTS.append(Contract("wntr.sim.aml.expr:expression.get_vars/get_params/get_floats/_collect_leaves", P,
                          [_leaves_case(k) for k in ("plain", "prefix_of_a_longer_expression", "prefix_of_a_prefix", "the_longest_expression", "prefix_then_unary")],
                          interpret_always=(E.expression._collect_leaves, E.expression.get_vars, E.expression.get_params, E.expression.get_floats,
                                            E.expression.get_leaves, E.expression.operators)))


class _Con(NativeModel):
    def __init__(self, tag):
        self.tag, self.name = tag, None
        self.expr = None


def _attr_models():
    m = library.build_models()
    m.register(A.Model._register_constraint, lambda interp, args, kw: args[0].fields["_log"].append(("register", args[1])))
    m.register(A.Model._remove_constraint, lambda interp, args, kw: args[0].fields["_log"].append(("remove", args[1])))
    return m


def _delattr_case(kind):
    def build(cx):
        log = []
        cons = [A.Constraint(E.Float(1.0)), A.Constraint(E.Float(2.0))]
        if kind == "constraint":
            val = cons[0]
        else:
            val = A.ConstraintDict()
            val._data["a"], val._data["b"] = cons
            val._name = "cd"
        model = cx.obj(A.Model, _log=log, thing=val)
        cx.model, cx.val, cx.cons, cx.log = model, val, cons, log
        cx.target(A.Model.__delattr__, model, "thing")

        def post(out):
            if not out.returned:
                return []
            want = [("remove", cons[0])] if kind == "constraint" else [("remove", cons[0]), ("remove", cons[1])]
            return [("every_constraint_registered_through_the_attribute_is_unregistered", log == want)]
        cx.ensure(post)
    return Case("delete:%s" % kind, build, crosscheck=False)


def _setattr_case(kind):
    def build(cx):
        log = []
        cons = [A.Constraint(E.Float(1.0)), A.Constraint(E.Float(2.0))]
        if kind == "constraint":
            val = cons[0]
        else:
            val = A.ConstraintDict()
            val._data["a"], val._data["b"] = cons
        model = cx.obj(A.Model, _log=log)
        cx.target(A.Model.__setattr__, model, "thing", val)

        def post(out):
            if not out.returned:
                return []
            want = [("register", cons[0])] if kind == "constraint" else [("register", cons[0]), ("register", cons[1])]
            return [("every_constraint_is_registered_once", log == want),
                    ("dict_remembers_its_model_for_later_insertions", kind == "constraint" or val._model is model)]
        cx.ensure(post)
    return Case("set:%s" % kind, build, crosscheck=False)


CONTRACTS.append(Contract("wntr.sim.aml.expr:Operator subclasses.get_rpn", P, _rpn_cases,
                          note="program words and leaf indices symbolic; stored programs of non-leaf operands are lists of two symbolic words"))
CONTRACTS.append(Contract("wntr.sim.aml.expr:Leaf.value (setter + getter)", P, [_leaf_value_case(c_, r_, s_) for c_ in (E.Var, E.Param) for r_ in (False, True) for s_ in (False, True)]))
CONTRACTS.append(Contract("wntr.sim.aml.expr:expression._operators_for_reverse_sweep", P, [_sweep_case(p_) for p_ in _patterns()],
                          note="enumerated: every forward operator list of length <= 5 over <= 3 distinct operators (up to renaming) - a case split by the contract, "
                               "complete only up to that length"))
CONTRACTS.append(Contract("wntr.sim.aml.aml:Model.__setattr__/__delattr__", P,
                          [_setattr_case("constraint"), _setattr_case("constraint_dict"), _delattr_case("constraint"), _delattr_case("constraint_dict")],
                          models=_attr_models, interpret_always=(A.Model.__delattr__, A.Model.__setattr__)))


# ---------------------------------------------------------------------------- bounded: the compiled evaluator (rebuilt from /repo's current C++ sources)

def _evaluator(shard, nshards):
    def run(tier, seed):
        import json
        import os
        import shutil
        import subprocess
        root = os.path.dirname(os.path.dirname(os.path.abspath(__file__)))
        scratch = os.environ["PYVC_EXT_DIR"]       # rebuilt once per check run by the runner (bounded/build_ext.sh), removed afterwards
        env = dict(os.environ, PYTHONPATH=scratch, PYTHONWARNINGS="ignore")
        r = subprocess.run(["/venv/bin/python", os.path.join(root, "bounded", "c15_evaluator.py"), tier, str(seed), str(shard), str(nshards)],
                           capture_output=True, text=True, env=env, cwd=scratch)
        if r.returncode != 0:
            raise RuntimeError("evaluator harness crashed: " + r.stderr[-800:])
        out = json.loads(r.stdout.strip().splitlines()[-1])
        out["exhaustive"] = False
        out["scope"] = ("shard %d/%d: random models (1-3 variables, a parameter, a Float shared between constraints), random expression DAGs of depth <= 3 over "
                        "18 operators incl. shared sub-expressions and non-constant exponents, conditional constraints evaluated also exactly at the branch "
                        "threshold, histories of <= 5 add / add-conditional / remove / set-value / add-ConstraintDict / del-ConstraintDict steps; after each step: "
                        "compiled residuals vs Constraint.evaluate(), compiled CSR Jacobian (rows = Constraint.index, columns = Var.index) vs reverse-mode AD, "
                        "AD vs central differences on smooth constraints; extension rebuilt from the current evaluator.cpp" % (shard, nshards))
        return out
    return run


NSH = 4
BOUNDED = [Bounded("C15.evaluator[%d/%d]" % (i, NSH), P, _evaluator(i, NSH), kind="differential: rebuilt C++ evaluator vs Python reference semantics", needs_ext=True) for i in range(NSH)]
