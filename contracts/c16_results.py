"""C16 — shape of the assembled results (hydraulics.get_results).

The real get_results is executed on contract stubs: the per-key result lists collected by save_results (one list per
element, one entry per saved time: contracts/c01_results.py) are symbolic; numpy's array(...).transpose() and
pandas.DataFrame are modelled as "the table whose entry (row i, column j) is lists[j][i]" / "the frame holding that
table with the given index and columns".  Postcondition (from the property text): every node table has one row per
saved time, indexed by exactly the saved times in order, and one column per node - every junction, tank and reservoir
exactly once -; likewise every link table over pipes, head pumps, power pumps and valves; entry (t, element) is the value
saved for that element at that time.  Sizes are fixed per case (2-3 times, 4 nodes, 4 links), names and values symbolic.
"""
import types
from collections import OrderedDict

import numpy as np
import pandas as pd
import z3

from pyvc.core import Contract, Case
from pyvc.values import SV, NativeModel
from pyvc import library

import wntr.sim.hydraulics as hyd

P = ["C16", "C01"]


class Table(NativeModel):
    """np.array(list_of_columns).transpose(): entry [i][j] = columns[j][i]"""

    def __init__(self, cols, transposed=False):
        self.cols, self.transposed = cols, transposed

    def transpose(self):
        return Table(self.cols, not self.transposed)

    def at(self, i, j):
        return self.cols[j][i] if self.transposed else self.cols[i][j]


class Frame(NativeModel):
    def __init__(self, data, index, columns):
        self.data, self.index, self.columns = data, index, columns


class Results(NativeModel):
    def __init__(self, time):
        self.time, self.node, self.link = time, None, None


def _models():
    m = library.build_models()
    m.register(np.array, lambda interp, args, kw: Table([list(c) for c in args[0]]), trusted="np.array(list of equally long lists) is the table of those rows")
    m.register(pd.DataFrame, lambda interp, args, kw: Frame(kw["data"], kw["index"], kw["columns"]),
               trusted="pandas.DataFrame(data, index, columns) holds data[i][j] at (index[i], columns[j])")
    return m


def _case(ntimes):
    def build(cx):
        J, T, R = [cx.name("j1"), cx.name("j2")], [cx.name("t1")], [cx.name("r1")]
        PI, HP, PP, V = [cx.name("p1")], [cx.name("hp1")], [cx.name("pp1")], [cx.name("v1")]
        nodes, links = J + T + R, PI + HP + PP + V
        distinct = [a.t != b.t for i, a in enumerate(nodes) for b in nodes[i + 1:]] + [a.t != b.t for i, a in enumerate(links) for b in links[i + 1:]]
        cx.assume(*distinct)         # RegInv (C14): names are unique and every element is in exactly one typed list
        wn = types.SimpleNamespace(num_nodes=len(nodes), num_links=len(links), junction_name_list=list(J), tank_name_list=list(T), reservoir_name_list=list(R),
                                   pipe_name_list=list(PI), head_pump_name_list=list(HP), power_pump_name_list=list(PP), valve_name_list=list(V))
        times = [cx.int("time%d" % i) for i in range(ntimes)]
        results = Results(list(times))
        import random
        order = random.Random(7)

        def collected(keys, names, tag):
            d = OrderedDict()
            for k in keys:
                shuffled = list(names)
                order.shuffle(shuffled)      # the collection dicts are keyed by name: their insertion order must not matter
                d[k] = {n: [cx.real("%s_%s_%d_%d" % (tag, k, names.index(n), i)) for i in range(ntimes)] for n in shuffled}
            return d
        node_res = collected(["demand", "head", "pressure", "leak_demand"], nodes, "n")
        link_res = collected(["flowrate", "velocity", "status", "setting"], links, "l")
        saved = {k: dict(v) for k, v in list(node_res.items()) + list(link_res.items())}
        cx.target(hyd.get_results, wn, results, node_res, link_res)

        def post(out):
            if not out.returned:
                return []
            posts = []
            for grp, names, keys in (("node", nodes, ["demand", "head", "pressure", "leak_demand"]), ("link", links, ["flowrate", "velocity", "status", "setting"])):
                tabs = getattr(results, grp)
                ok_keys = tabs is not None and list(tabs.keys()) == keys and all(isinstance(tabs[k], Frame) for k in keys)
                posts.append(("%s_results_hold_one_table_per_quantity" % grp, bool(ok_keys)))
                if not ok_keys:
                    continue
                for k in keys:
                    f = tabs[k]
                    posts.append(("%s_%s_rows_are_exactly_the_saved_times_in_order" % (grp, k),
                                  len(f.index) == ntimes and all(a is b for a, b in zip(f.index, times))))
                    cols = list(f.columns)
                    posts.append(("%s_%s_has_one_column_per_element_each_exactly_once" % (grp, k),
                                  len(cols) == len(names) and all(any(c is n for c in cols) for n in names)))
                    if len(cols) == len(names) and len(f.index) == ntimes:
                        goal = z3.And(*[library.as_real(f.data.at(i, j)) == library.as_real(saved[k][next(n for n in names if n is cols[j])][i])
                                        for i in range(ntimes) for j in range(len(cols)) if any(n is cols[j] for n in names)] or [z3.BoolVal(True)])
                        posts.append(("%s_%s_entry_is_the_value_saved_for_that_element_at_that_time" % (grp, k), goal))
            return posts
        cx.ensure(post)
    return Case("times=%d" % ntimes, build, crosscheck=False)


CONTRACTS = [
    Contract("wntr.sim.hydraulics:get_results", P, [_case(2), _case(3), _case(0)], models=_models,
             note="fixed sizes (0, 2, 3 saved times; 2 junctions, 1 tank, 1 reservoir, 1 pipe, 1 head pump, 1 power pump, 1 valve); names, times and values symbolic",
             trusted=["RegInv (C14): the typed name lists partition the nodes / links",
                      "save_results appended one value per element per saved time (contracts/c01_results.py)"]),
]


# ---------------------------------------------------------------------------- _setup_sim_options: effective report / hydraulic steps

from wntr.sim.core import WNTRSimulator
from wntr.sim.solvers import NewtonSolver


def _setup_case(report_kind):
    def build(cx):
        H = cx.int("hydraulic_timestep")
        cx.assume(cx.t(H) >= 1)
        if report_kind == "int":
            Rp = cx.int("report_timestep")
            cx.assume(cx.t(Rp) >= 1)
        else:
            Rp = report_kind
        # the other time options and the model's clock are arbitrary (a fresh model or one paused anywhere): the effective steps depend on neither
        st, pst = cx.int("sim_time"), cx.int("prev_sim_time")
        cx.assume(cx.t(st) >= 0, cx.t(pst) >= -1)
        topt = types.SimpleNamespace(report_timestep=Rp, hydraulic_timestep=H, duration=cx.int("duration"), rule_timestep=cx.int("rule_timestep"),
                                     pattern_timestep=cx.int("pattern_timestep"), start_clocktime=cx.int("start_clocktime"), pattern_start=cx.int("pattern_start"))
        wn = types.SimpleNamespace(options=types.SimpleNamespace(time=topt, hydraulic=types.SimpleNamespace(demand_model="DD")), sim_time=st, _prev_sim_time=pst)
        sim = cx.obj(WNTRSimulator, _wn=wn, _model=None)
        cx.allow_raise(ValueError, isinstance(Rp, str) and Rp.upper() != "ALL")
        cx.target(WNTRSimulator._setup_sim_options, sim, NewtonSolver, None, None, None, False)

        def post(out):
            untouched = topt.report_timestep is Rp and topt.hydraulic_timestep is H
            if out.kind == "raise":
                return [("only_a_report_step_that_is_neither_a_number_nor_ALL_is_refused", isinstance(Rp, str) and Rp.upper() != "ALL"),
                        ("options_untouched", untouched)]
            h2, r2 = sim.fields["_hydraulic_timestep"], sim.fields["_report_timestep"]
            posts = [("options_untouched", untouched),
                     ("solver_settings_taken_over", sim.fields["_solver"] is NewtonSolver and sim.fields["_backup_solver"] is None and
                      sim.fields["_solver_options"] == {} and sim.fields["_backup_solver_options"] == {} and sim.fields["_convergence_error"] is False)]
            if isinstance(Rp, str):
                return posts + [("report_ALL_kept_and_hydraulic_step_as_configured", r2 == Rp and h2 is H)]
            h2t, r2t, Ht, Rt = library.as_int(h2), library.as_int(r2), cx.t(H), cx.t(Rp)
            return posts + [("effective_report_step_is_a_positive_multiple_of_the_effective_hydraulic_step", z3.And(h2t >= 1, r2t >= h2t, r2t % h2t == 0)),
                            ("effective_steps_never_exceed_the_configured_ones", z3.And(h2t <= Ht, r2t <= Rt)),
                            ("steps_are_changed_only_when_needed", z3.Implies(z3.And(Rt >= Ht, Rt % Ht == 0), z3.And(h2t == Ht, r2t == Rt))),
                            ("a_shorter_report_step_shortens_the_hydraulic_step_to_it", z3.Implies(Rt < Ht, z3.And(h2t == Rt, r2t == Rt))),
                            ("otherwise_the_report_step_is_rounded_down_to_a_multiple", z3.Implies(Rt >= Ht, z3.And(h2t == Ht, r2t == Rt - Rt % Ht)))]
        cx.ensure(post)
    return Case("report=%s" % report_kind, build, crosscheck=False)


def _setup_solver_case(primary, backup):
    """which option dictionary gets what: each solver's options are a copy of the caller's; fsolve (as primary or as backup) is asked for its full output in ITS OWN
    options (that is what _solver_helper unpacks), a given fprime is dropped; the caller's dictionaries are not written to"""
    def build(cx):
        import scipy.optimize
        S = {"newton": NewtonSolver, "fsolve": scipy.optimize.fsolve, None: None}
        given_p, given_b = {"maxfev": 50, "fprime": "caller's"}, {"xtol": 1e-9}
        topt = types.SimpleNamespace(report_timestep=3600, hydraulic_timestep=3600)
        wn = types.SimpleNamespace(options=types.SimpleNamespace(time=topt), sim_time=0, _prev_sim_time=None)
        sim = cx.obj(WNTRSimulator, _wn=wn, _model=None)
        cx.target(WNTRSimulator._setup_sim_options, sim, S[primary], S[backup], given_p, given_b, True)

        def post(out):
            if not out.returned:
                return []
            po, bo = sim.fields["_solver_options"], sim.fields["_backup_solver_options"]
            want_p = {"maxfev": 50, "full_output": True} if primary == "fsolve" else {"maxfev": 50, "fprime": "caller's"}
            want_b = {"xtol": 1e-9, "full_output": True} if backup == "fsolve" else {"xtol": 1e-9}
            return [("solvers_taken_over", sim.fields["_solver"] is S[primary] and sim.fields["_backup_solver"] is S[backup] and sim.fields["_convergence_error"] is True),
                    ("primary_options_are_the_caller_s_plus_full_output_for_fsolve", dict(po) == want_p),
                    ("backup_options_are_the_caller_s_plus_full_output_for_fsolve", dict(bo) == want_b),
                    ("the_caller_s_dictionaries_are_not_written_to", given_p == {"maxfev": 50, "fprime": "caller's"} and given_b == {"xtol": 1e-9} and po is not given_p and bo is not given_b)]
        cx.ensure(post)
    return Case("solver=%s,backup=%s" % (primary, backup), build, crosscheck=False)


CONTRACTS.append(Contract("wntr.sim.core:WNTRSimulator._setup_sim_options (solver options)", ["C16"],
                          [_setup_solver_case(p_, b_) for p_ in ("newton", "fsolve") for b_ in (None, "newton", "fsolve")],
                          note="what _solver_helper relies on: fsolve is called with full_output in its own options"))
CONTRACTS.append(Contract("wntr.sim.core:WNTRSimulator._setup_sim_options", ["C16", "C11", "C04", "C10"], [_setup_case(k) for k in ("int", "ALL", "all", "hourly")],
                          note="NewtonSolver without options (the solver-option branches: own contract above)"))


# ---------------------------------------------------------------------------- bounded: failures injected into the real run_sim

from pyvc.runner import Bounded


def _faults(i, n):
    def run(tier, seed):
        import sys, os
        sys.path.insert(0, os.path.dirname(os.path.dirname(os.path.abspath(__file__))))
        from bounded import c16_faults
        return c16_faults.run(tier, seed, i, n)
    return run


_NF = 4
BOUNDED = [Bounded("C16.fault_injection[%d/%d]" % (i, _NF), ["C16"], _faults(i, _NF), kind="fault injection into the real run_sim on listed networks (not exhaustive)") for i in range(_NF)]
