"""C02 — HeadPump.get_head_curve_coefficients (1- and 2-point curves deductively; >=3 points bounded)."""
import z3

from pyvc.core import Contract, Case
from pyvc.runner import Bounded
from pyvc.values import SV, real_val
from wntr.network.elements import HeadPump, Curve

P = ["C02"]


def _coef_case(npts, cached, backwards=False):
    def build(cx):
        pts = []
        for i in range(npts):
            pts.append((cx.real("Q%d" % i), cx.real("H%d" % i)))
        for (q, h) in pts:
            cx.assume(cx.t(q) >= 0, cx.t(h) >= 0)
        if npts == 1:
            cx.assume(cx.t(pts[0][0]) > 0, cx.t(pts[0][1]) > 0)
        else:
            if backwards:    # the same curve entered high-flow point first
                cx.assume(cx.t(pts[0][0]) > cx.t(pts[1][0]), cx.t(pts[0][1]) < cx.t(pts[1][1]))
            else:
                cx.assume(cx.t(pts[0][0]) < cx.t(pts[1][0]), cx.t(pts[0][1]) > cx.t(pts[1][1]))  # decreasing head curve
        curve = cx.obj(Curve, _name="c", _curve_type="HEAD", _points=list(pts))
        pump = cx.obj(HeadPump, _link_name="P1", _pump_curve_name="c", _curve_reg={"c": curve},
                      _curve_coeffs=None, _coeffs_curve_points=None)
        cx.allow_raise(RuntimeError, True)   # refused curves (A<=0 or B<0) are reported, never silently used
        cx.target(HeadPump.get_head_curve_coefficients, pump)

        def post(out):
            if not out.returned:
                return []
            A, B, C = out.value
            A, B = cx.t(A), cx.t(B)
            Q0, H0 = cx.t(pts[0][0]), cx.t(pts[0][1])
            posts = [("coefficients_valid", z3.And(A > 0, B >= 0)) if cx.mode == "symbolic" else ("coefficients_valid", A > 0 and B >= 0)]
            now = curve.fields["_points"] if hasattr(curve, "fields") else curve._points
            posts.append(("curve_definition_untouched_points_in_the_order_entered", len(now) == npts and all(a is b for a, b in zip(now, pts))))
            if npts == 1:
                posts += [("C_is_2", C == 2), ("shutoff_head_is_4/3_design_head", cx.close(A, 4 * H0 / 3, H0)),
                          ("curve_passes_through_design_point", cx.close(A - B * Q0 * Q0, H0, H0)),
                          ("max_flow_is_twice_design_flow", cx.close(A - B * (2 * Q0) * (2 * Q0), 0, H0))]
            else:
                Q1, H1 = cx.t(pts[1][0]), cx.t(pts[1][1])
                posts += [("C_is_1", C == 1), ("curve_passes_through_first_point", cx.eq(A - B * Q0, H0)),
                          ("curve_passes_through_second_point", cx.eq(A - B * Q1, H1))]
            return posts
        cx.ensure(post)

    def sample(rng):
        d = {}
        q, h = rng.uniform(0.001, 0.5), rng.uniform(20, 100)
        if npts == 1:
            return dict(Q0=q, H0=h)
        return dict(Q0=rng.choice([0.0, q]), H0=h, Q1=q + rng.uniform(0.01, 0.5), H1=h * rng.uniform(0.1, 0.9))
    return Case("%d_point_curve%s" % (npts, "_entered_high_flow_first" if backwards else ""), build, sample=None if backwards else sample, crosscheck=not backwards)


def _compute_change_compute(pump, curve, new_points):
    first = pump.get_head_curve_coefficients()
    again = pump.get_head_curve_coefficients()
    curve.points = new_points
    after = pump.get_head_curve_coefficients()
    return first, again, after


def _coef_history_case():
    """the coefficients are cached on the pump: asked again they are the same; after the curve's points were changed (through the Curve.points setter) they are
    those of the new curve"""
    def build(cx):
        pts = [(cx.real("Q%d" % i), cx.real("H%d" % i)) for i in range(2)]
        new = [(cx.real("newQ%d" % i), cx.real("newH%d" % i)) for i in range(2)]
        for P_ in (pts, new):
            for (q, h) in P_:
                cx.assume(cx.t(q) >= 0, cx.t(h) >= 0)
            cx.assume(cx.t(P_[0][0]) < cx.t(P_[1][0]), cx.t(P_[0][1]) > cx.t(P_[1][1]))
        cx.assume(z3.Or(cx.t(pts[0][0]) != cx.t(new[0][0]), cx.t(pts[0][1]) != cx.t(new[0][1])))     # the change changes something
        curve = cx.obj(Curve, _name="c", _curve_type="HEAD", _points=list(pts))
        pump = cx.obj(HeadPump, _link_name="P1", _pump_curve_name="c", _curve_reg={"c": curve}, _curve_coeffs=None, _coeffs_curve_points=None)
        cx.allow_raise(RuntimeError, True)
        cx.target(_compute_change_compute, pump, curve, list(new))

        def post(out):
            if not out.returned:
                return []
            (A1, B1, C1), (A2, B2, C2), (A3, B3, C3) = out.value
            t = cx.t
            return [("asked_again_the_coefficients_are_the_same", z3.And(t(A1) == t(A2), t(B1) == t(B2), z3.BoolVal(C1 == C2))),
                    ("first_answer_fits_the_curve_as_entered", z3.And(t(A1) - t(B1) * t(pts[0][0]) == t(pts[0][1]), t(A1) - t(B1) * t(pts[1][0]) == t(pts[1][1]))),
                    ("after_the_curve_was_changed_the_coefficients_fit_the_new_points", z3.And(t(A3) - t(B3) * t(new[0][0]) == t(new[0][1]), t(A3) - t(B3) * t(new[1][0]) == t(new[1][1])))]
        cx.ensure(post)
    return Case("two_point_curve,computed,asked_again,points_changed,computed", build, crosscheck=False)


CONTRACTS = [Contract("wntr.network.elements:HeadPump.get_head_curve_coefficients over a change of the curve", P + ["C11", "C10"], [_coef_history_case()],
                      interpret_always=(HeadPump.get_head_curve_coefficients, _compute_change_compute),
                      trusted=["CurveRegistry.__getitem__ returns the registered curve"]),
             Contract("wntr.network.elements:HeadPump.get_head_curve_coefficients", P + ["C11", "C03"], [_coef_case(1, False), _coef_case(2, False), _coef_case(2, False, backwards=True)],
                      interpret_always=(HeadPump.get_head_curve_coefficients,),
                      trusted=["CurveRegistry.__getitem__ returns the registered curve"])
             ][::-1]


def _three_point(tier, seed):
    """>=3-point curves go through scipy curve_fit: bounded stand-in. Run-time contract: the fitted curve reproduces the
    given points (three-point curves are interpolated exactly by H = A - B Q^C when H0 > H1 > H2, 0 = Q0 < Q1 < Q2)."""
    import random, warnings
    import wntr
    rng = random.Random(seed)
    evals, failures, samples, distinct = 0, [], [], set()
    n = 40 if tier == "quick" else 400
    for i in range(n):
        h0 = rng.uniform(20, 120)
        h1 = h0 * rng.uniform(0.55, 0.95)
        h2 = h1 * rng.uniform(0.0, 0.8)
        q1 = rng.uniform(0.005, 0.3)
        q2 = q1 * rng.uniform(1.3, 3.0)
        pts = [(0.0, h0), (q1, h1), (q2, h2)]
        wn = wntr.network.WaterNetworkModel()
        wn.add_curve("c", "HEAD", pts)
        wn.add_junction("a"); wn.add_junction("b")
        wn.add_pump("p", "a", "b", "HEAD", "c")
        evals += 1
        distinct.add(tuple(round(x, 6) for pt in pts for x in pt))
        try:
            with warnings.catch_warnings():
                warnings.simplefilter("ignore")
                A, B, C = wn.get_link("p").get_head_curve_coefficients()
        except RuntimeError as e:
            continue  # refused curve: reported, not silently used
        err = max(abs(A - B * q ** C - h) for q, h in pts)
        if err > 1e-4 * h0:
            failures.append(dict(points=pts, A=A, B=B, C=C, max_error=err))
        if len(samples) < 3:
            samples.append(dict(points=pts, A=A, B=B, C=C))
    return dict(evaluations=evals, distinct_nontrivial=len(distinct), failures=failures[:5], samples=samples, exhaustive=False,
                scope="%d random decreasing 3-point pump curves (Q0=0), fitted curve must reproduce the points to 1e-4*H0" % n)


BOUNDED = [Bounded("C02.three_point_pump_curve_fit", P, _three_point)]
