"""C14 — representation invariant of the registries (wntr.network.base.Registry and subclasses).

Abstract state (contract view, arbitrary registry contents):
  D(k)        k is a key of reg._data               (uninterpreted predicate per registry)
  U(k)        k is a key of reg._usage
  MEM(k, u)   user tuple u = (name, type) is in reg._usage[k]
  CARD(k)     number of users recorded for k
RegInv, for every key k and user u:  U(k) -> D(k) (no orphaned usage),  U(k) -> CARD(k) >= 1 (no empty entries),
MEM(k, u) -> U(k),  a link's two end nodes record it, typed subsets contain exactly the elements of their type.
Every mutator is executed symbolically from the real source on that arbitrary state; posts are written over the WHOLE
view (the touched keys change as specified; an arbitrary other key `other` is unchanged); a refused operation
(raise) must leave the view unchanged.
"""
import types

import z3

from pyvc.core import Contract, Case
from pyvc.runner import Bounded
from pyvc.values import SV, SymObj, SymMap, NativeModel, NameSort, name_const
from pyvc import library

import wntr
from wntr.network.base import Registry, Link
from wntr.network import model as MODEL
from wntr.network.elements import (Junction, Tank, Reservoir, Pipe, HeadPump, PowerPump, PRValve, PSValve, PBValve, FCValve, TCValve, GPValve, TimeSeries, Demands)
from wntr.utils.ordered_set import OrderedSet

P = ["C14"]
B, I = z3.BoolSort(), z3.IntSort()
U2 = z3.DeclareSort("User")          # a (name, type) user tuple


def fnx(name, *sorts):
    return z3.Function(name, *sorts)


USER = fnx("user", NameSort, NameSort, U2)       # (element name, type string) -> user tuple


def user_term(t):
    nm, ty = t
    n = nm.t if isinstance(nm, SV) else name_const(nm)
    y = ty.t if isinstance(ty, SV) else name_const(ty)
    return USER(n, y)


class USet(NativeModel):
    """contract view of one usage set: membership predicate + overlay + cardinality ghost"""

    def __init__(self, path, mem, card):
        self.path = path
        self.mem0 = mem              # u(term) -> z3 Bool
        self.card = card             # z3 Int term
        self.over = []               # (user term, bool present), newest last

    def member(self, u):
        cur = self.mem0(u)
        for (w, present) in self.over:
            cur = z3.If(w == u, z3.BoolVal(present), cur)
        return cur

    def add(self, t):
        u = user_term(t)
        was = self.member(u)
        self.card = z3.If(was, self.card, self.card + 1)
        self.over.append((u, True))

    def discard(self, t):
        u = user_term(t)
        was = self.member(u)
        self.card = z3.If(was, self.card - 1, self.card)
        self.over.append((u, False))

    def clear(self):
        raise library.Unsupported("USet.clear")

    def sym_len(self):
        return SV(self.card, "int")

    def __contains__(self, t):
        raise library.Unsupported("native `in` on a symbolic usage set")


class Reg:
    """symbolic registry: fields for a SymObj of the real registry class + the spec functions of its pre-state"""

    def __init__(self, cx, cls, tag, typed=()):
        self.cx, self.tag = cx, tag
        self.D, self.U = fnx("D_" + tag, NameSort, B), fnx("U_" + tag, NameSort, B)
        self.MEM, self.CARD = fnx("MEM_" + tag, NameSort, U2, B), fnx("CARD_" + tag, NameSort, I)
        self.sets = {}
        path = cx.path

        def uget(k):
            key = k.t.get_id()
            if key not in self.sets:
                kt = k.t
                self.sets[key] = USet(path, lambda u, kt=kt: self.MEM(kt, u), self.CARD(kt))
            return self.sets[key]
        def kt(k):
            # a key that is neither a name nor a string (e.g. a Pattern object passed by mistake) is in no registry
            return k.t if isinstance(k, SV) else (name_const(k) if isinstance(k, str) else None)
        self.data = SymMap(lambda k: self.D(kt(k)) if kt(k) is not None else False, lambda k: None, label=tag + "._data")
        self.usage = SymMap(lambda k: self.U(kt(k)) if kt(k) is not None else False, uget, label=tag + "._usage")
        fields = dict(_data=self.data, _usage=self.usage)
        self.typed = {}
        for t in typed:
            pred = fnx("IN_%s_%s" % (tag, t), NameSort, B)
            sm = SymMap(lambda k, pred=pred: pred(kt(k)) if kt(k) is not None else False, lambda k: None, label="%s.%s" % (tag, t))
            self.typed[t] = (pred, sm)
            fields[t] = SymObj(OrderedSet, dict(_data=sm))
        self.obj = SymObj(cls, fields, label=tag)

    # ---- RegInv at a key (assumed in the pre-state)
    def assume_inv(self, *keys):
        for k in keys:
            kt = k.t if isinstance(k, SV) else name_const(k)
            self.cx.assume(z3.Implies(self.U(kt), z3.And(self.D(kt), self.CARD(kt) >= 1)), self.CARD(kt) >= 0)

    def assume_member(self, k, t):
        kt = k.t if isinstance(k, SV) else name_const(k)
        self.cx.assume(self.MEM(kt, user_term(t)), self.U(kt), self.CARD(kt) >= 1)

    def assume_member_implies(self, k, t):
        kt = k.t if isinstance(k, SV) else name_const(k)
        self.cx.assume(z3.Implies(self.MEM(kt, user_term(t)), z3.And(self.U(kt), self.CARD(kt) >= 1)))

    # ---- post-state views
    def in_data(self, k):
        return self.cx.interp.map_dom(self.data, k if isinstance(k, SV) else k)

    def in_usage(self, k):
        return self.cx.interp.map_dom(self.usage, k)

    def uset(self, k):
        """post-state usage set of key k (the object stored last at k, or the pre-state set)"""
        for (wk, wv) in reversed(self.usage.overlay):
            if isinstance(wk, SV) and isinstance(k, SV) and wk.t.eq(k.t):
                return wv if wv is not SymMap.DELETED else None
        return self.usage.get(k)

    def member_after(self, k, t):
        s = self.uset(k)
        if s is None:
            return z3.BoolVal(False)
        if isinstance(s, USet):
            return z3.And(zb(self.in_usage(k)), s.member(user_term(t)))
        # a fresh real OrderedSet created by add_usage
        return z3.And(zb(self.in_usage(k)), z3.BoolVal(any(_same_user(x, t) for x in s)))

    def card_after(self, k):
        s = self.uset(k)
        if s is None:
            return z3.IntVal(0)
        return s.card if isinstance(s, USet) else z3.IntVal(len(s))

    def unchanged_at(self, other):
        """the view at an arbitrary other key is untouched"""
        kt = other.t
        ok = z3.And(zb(self.in_data(other)) == self.D(kt), zb(self.in_usage(other)) == self.U(kt))
        s = self.uset(other)
        if isinstance(s, USet) and s.over:
            ok = z3.And(ok, z3.BoolVal(False))
        for t, (pred, sm) in self.typed.items():
            ok = z3.And(ok, zb(self.cx.interp.map_dom(sm, other)) == pred(kt))
        return ok

    def typed_has(self, t, k):
        return zb(self.cx.interp.map_dom(self.typed[t][1], k))


def zb(x):
    return x if not isinstance(x, bool) else z3.BoolVal(x)


def _same_user(x, t):
    return isinstance(x, tuple) and len(x) == 2 and _same(x[0], t[0]) and _same(x[1], t[1])


def _same(a, b):
    if isinstance(a, SV) and isinstance(b, SV):
        return a.t.eq(b.t)
    return (not isinstance(a, SV)) and (not isinstance(b, SV)) and a == b


def _nonempty(cx, k):
    cx.assume(cx.t(k) != name_const(""))


# ---------------------------------------------------------------------------- Registry.add_usage / remove_usage / __delitem__

def _add_usage_case(key_used):
    def build(cx):
        k, other, un = cx.name("key"), cx.name("other"), cx.name("user_name")
        _nonempty(cx, k)
        cx.assume(cx.t(k) != cx.t(other))
        r = Reg(cx, MODEL.PatternRegistry, "pat")
        r.assume_inv(k, other)
        cx.assume(r.U(cx.t(k)) == z3.BoolVal(key_used), r.D(cx.t(k)))
        t = (un, "Junction")
        r.assume_member_implies(k, t)
        cx.target(Registry.add_usage, r.obj, k, t)

        def post(out):
            if not out.returned:
                return []
            was = r.MEM(cx.t(k), user_term(t)) if key_used else z3.BoolVal(False)
            return [("user_recorded", r.member_after(k, t)), ("key_has_usage_entry", zb(r.in_usage(k))),
                    ("count_grows_by_one_unless_already_recorded", r.card_after(k) == (z3.If(was, r.CARD(cx.t(k)), r.CARD(cx.t(k)) + 1) if key_used else 1)),
                    ("data_untouched", zb(r.in_data(k)) == r.D(cx.t(k))), ("other_keys_untouched", r.unchanged_at(other))]
        cx.ensure(post)
    return Case("key_already_used=%s" % key_used, build, crosscheck=False)


def _remove_usage_case():
    def build(cx):
        k, other, un = cx.name("key"), cx.name("other"), cx.name("user_name")
        _nonempty(cx, k)
        cx.assume(cx.t(k) != cx.t(other))
        r = Reg(cx, MODEL.PatternRegistry, "pat")
        r.assume_inv(k, other)
        t = (un, "Junction")
        r.assume_member(k, t)          # requires: the user is recorded (callers remove what they added)
        cx.target(Registry.remove_usage, r.obj, k, t)

        def post(out):
            if not out.returned:
                return []
            last = r.CARD(cx.t(k)) == 1
            return [("user_no_longer_recorded", z3.Not(r.member_after(k, t))),
                    ("entry_dropped_iff_it_became_empty", zb(r.in_usage(k)) == z3.Not(last)),
                    ("count_shrinks_by_one", z3.Implies(z3.Not(last), r.card_after(k) == r.CARD(cx.t(k)) - 1)),
                    ("data_untouched", zb(r.in_data(k)) == r.D(cx.t(k))), ("other_keys_untouched", r.unchanged_at(other))]
        cx.ensure(post)
    return Case("user_recorded", build, crosscheck=False)


def _delitem_case(cls, tag):
    def build(cx):
        k, other = cx.name("key"), cx.name("other")
        _nonempty(cx, k)
        cx.assume(cx.t(k) != cx.t(other))
        r = Reg(cx, cls, tag)
        r.assume_inv(k, other)
        used = z3.And(r.U(cx.t(k)), r.CARD(cx.t(k)) > 0)
        cx.allow_raise(RuntimeError, used)
        cx.target(cls.__delitem__, r.obj, k)
        cx.r = r

        def post(out):
            unchanged = z3.And(zb(r.in_data(k)) == r.D(cx.t(k)), zb(r.in_usage(k)) == r.U(cx.t(k)))
            if out.kind == "raise":
                return [("refused_only_while_in_use", used), ("refused_removal_changes_nothing", z3.And(unchanged, r.unchanged_at(other)))]
            return [("removed_only_when_unused", z3.Not(used)), ("element_gone", z3.Not(zb(r.in_data(k)))), ("no_usage_entry_left", z3.Not(zb(r.in_usage(k)))),
                    ("other_keys_untouched", r.unchanged_at(other))]
        cx.ensure(post)
    return Case("%s" % cls.__name__, build, crosscheck=False)


CONTRACTS = [
    Contract("wntr.network.base:Registry.add_usage", P, [_add_usage_case(True), _add_usage_case(False)]),
    Contract("wntr.network.base:Registry.remove_usage", P, [_remove_usage_case()]),
    Contract("wntr.network.base:Registry.__delitem__", P, [_delitem_case(MODEL.PatternRegistry, "pat")]),
]


# ---------------------------------------------------------------------------- NodeRegistry / LinkRegistry

LINK_SUBSETS = ["_pipes", "_pumps", "_head_pumps", "_power_pumps", "_prvs", "_psvs", "_pbvs", "_tcvs", "_fcvs", "_gpvs", "_valves"]
NODE_SUBSETS = ["_junctions", "_reservoirs", "_tanks"]
CURVE_SUBSETS = ["_pump_curves", "_efficiency_curves", "_headloss_curves", "_volume_curves"]
LINK_SETS_OF = {Pipe: {"_pipes"}, HeadPump: {"_pumps", "_head_pumps"}, PowerPump: {"_pumps", "_power_pumps"}, PRValve: {"_valves", "_prvs"}, GPValve: {"_valves", "_gpvs"},
                PSValve: {"_valves", "_psvs"}, PBValve: {"_valves", "_pbvs"}, FCValve: {"_valves", "_fcvs"}, TCValve: {"_valves", "_tcvs"}}
LINK_TYPE = {Pipe: "Pipe", HeadPump: "Pump", PowerPump: "Pump", PRValve: "Valve", GPValve: "Valve", PSValve: "Valve", PBValve: "Valve", FCValve: "Valve", TCValve: "Valve"}


class World:
    def __init__(self, cx):
        self.cx = cx
        self.node = Reg(cx, MODEL.NodeRegistry, "node", NODE_SUBSETS)
        self.link = Reg(cx, MODEL.LinkRegistry, "link", LINK_SUBSETS)
        self.curve = Reg(cx, MODEL.CurveRegistry, "curve", CURVE_SUBSETS)
        self.pat = Reg(cx, MODEL.PatternRegistry, "pat")
        for r in (self.node, self.link, self.curve, self.pat):
            r.obj.fields.update(_node_reg=self.node.obj, _link_reg=self.link.obj, _curve_reg=self.curve.obj, _pattern_reg=self.pat.obj)
        self.regs = [self.node, self.link, self.curve, self.pat]

    def unchanged_at(self, other):
        return z3.And(*[r.unchanged_at(other) for r in self.regs])


def _mk_link(cx, w, cls, L, s, e, speed_pattern=None, curve=None):
    sn = SymObj(Junction, dict(_name=s))
    en = sn if (isinstance(e, SV) and isinstance(s, SV) and e.t.eq(s.t)) else SymObj(Junction, dict(_name=e))
    f = dict(_link_name=L, _start_node=sn, _end_node=en, _node_reg=w.node.obj, _curve_reg=w.curve.obj, _pattern_reg=w.pat.obj)
    if cls in (HeadPump, PowerPump):
        f["_speed_timeseries"] = SymObj(TimeSeries, dict(_pattern=speed_pattern, _pattern_reg=w.pat.obj, _base=1.0, _category=None))
    if cls is HeadPump:
        f["_pump_curve_name"] = curve
    if cls is GPValve:
        f["_headloss_curve_name"] = curve
    return SymObj(cls, f)


def _link_delitem_case(cls, same_ends, with_pattern):
    def build(cx):
        L, s, other = cx.name("link"), cx.name("start"), cx.name("other")
        e = s if same_ends else cx.name("end")
        names = [L, s, other] + ([] if same_ends else [e])
        pat = cx.name("speed_pattern") if with_pattern else None
        cur = cx.name("curve") if cls in (HeadPump, GPValve) else None
        names += [x for x in (pat, cur) if x is not None]
        for n in names:
            _nonempty(cx, n)
        cx.assume(z3.Distinct(*[cx.t(n) for n in names]))
        w = World(cx)
        link = _mk_link(cx, w, cls, L, s, e, pat, cur)
        T = LINK_TYPE[cls]
        # RegInv of the pre-state at the touched keys
        cx.assume(w.link.D(cx.t(L)))
        w.link.data.overlay.append((L, link))
        for t, (pred, sm) in w.link.typed.items():
            cx.assume(pred(cx.t(L)) == z3.BoolVal(t in LINK_SETS_OF[cls]))
        for r in w.regs:
            r.assume_inv(*names)
        w.node.assume_member(s, (L, T))
        if not same_ends:
            w.node.assume_member(e, (L, T))
        if with_pattern:
            w.pat.assume_member(pat, (L, "Pump"))
        if cur is not None:
            w.curve.assume_member(cur, (L, "Pump" if cls is HeadPump else "Valve"))
        used = z3.And(w.link.U(cx.t(L)), w.link.CARD(cx.t(L)) > 0)
        cx.allow_raise(RuntimeError, used)
        cx.target(MODEL.LinkRegistry.__delitem__, w.link.obj, L)

        def post(out):
            if out.kind == "raise":
                return [("refused_only_while_in_use", used),
                        ("refused_removal_changes_nothing", z3.And(zb(w.link.in_data(L)), w.node.member_after(s, (L, T)), w.unchanged_at(other)))]
            posts = [("removed_only_when_unused", z3.Not(used)), ("link_gone_from_data", z3.Not(zb(w.link.in_data(L))))]
            for t in LINK_SUBSETS:
                posts.append(("link_gone_from_typed_subset%s" % t, z3.Not(w.link.typed_has(t, L))))
            posts.append(("start_node_no_longer_records_the_link", z3.Not(w.node.member_after(s, (L, T)))))
            posts.append(("start_node_entry_dropped_iff_it_became_empty", zb(w.node.in_usage(s)) == z3.Not(w.node.CARD(cx.t(s)) == 1)))
            if not same_ends:
                posts.append(("end_node_no_longer_records_the_link", z3.Not(w.node.member_after(e, (L, T)))))
            if with_pattern:
                posts.append(("speed_pattern_no_longer_records_the_pump", z3.Not(w.pat.member_after(pat, (L, "Pump")))))
            if cur is not None:
                posts.append(("curve_no_longer_records_the_link", z3.Not(w.curve.member_after(cur, (L, "Pump" if cls is HeadPump else "Valve")))))
            posts.append(("other_keys_untouched_in_every_registry", w.unchanged_at(other)))
            return posts
        cx.ensure(post)
    return Case("%s,same_end_nodes=%s,speed_pattern=%s" % (cls.__name__, same_ends, with_pattern), build, crosscheck=False)


_link_del_cases = [_link_delitem_case(Pipe, False, False), _link_delitem_case(Pipe, True, False), _link_delitem_case(HeadPump, False, False),
                   _link_delitem_case(HeadPump, False, True), _link_delitem_case(PowerPump, False, True), _link_delitem_case(PRValve, False, False),
                   _link_delitem_case(GPValve, False, False)] + [_link_delitem_case(c, False, False) for c in (PSValve, PBValve, FCValve, TCValve)]

CONTRACTS.append(Contract("wntr.network.model:LinkRegistry.__delitem__", P, _link_del_cases,
                          note="arbitrary registries under RegInv; the link's class, whether its two ends are the same node, speed pattern / curve use are enumerated"))


class _DemList(NativeModel):
    """contract view of Demands.pattern_list(): the Pattern objects of the demand entries"""

    def __init__(self, pats):
        self.pats = pats

    def pattern_list(self, category=None):
        return list(self.pats)


def _node_delitem_case(kind):
    def build(cx):
        N, other, ref = cx.name("node"), cx.name("other"), cx.name("referenced")      # `referenced`: pattern / curve the node uses
        ref2 = cx.name("referenced2")                                                      # a second pattern (three-entry case)
        for n in (N, other, ref, ref2):
            _nonempty(cx, n)
        cx.assume(z3.Distinct(cx.t(N), cx.t(other), cx.t(ref), cx.t(ref2)))
        w = World(cx)
        if kind.startswith("junction"):
            from wntr.network.elements import Pattern
            pat = SymObj(Pattern, dict(name=ref, _multipliers=[1.0, 2.0]))
            # several demand entries may share one pattern (the usage record is a set: the second release finds nothing to release)
            pat2 = SymObj(Pattern, dict(name=ref2, _multipliers=[1.0, 3.0]))
            pats = {"junction": [pat], "junction_two_demands_one_pattern": [pat, pat], "junction_demand_without_pattern_first": [None, pat],
                    "junction_three_demands_the_first_two_on_one_pattern": [pat, pat, pat2]}[kind]
            node = SymObj(Junction, dict(_name=N, _demand_timeseries_list=_DemList(pats), _pattern_reg=w.pat.obj))
            w.pat.assume_member(ref, (N, "Junction"))
            if pat2 in pats:
                w.pat.assume_member(ref2, (N, "Junction"))
            user = (w.pat, (N, "Junction"))
        elif kind == "reservoir":
            node = SymObj(Reservoir, dict(_name=N, _head_timeseries=SymObj(TimeSeries, dict(_pattern=ref, _pattern_reg=w.pat.obj, _base=1.0, _category=None))))
            w.pat.assume_member(ref, (N, "Reservoir"))
            user = (w.pat, (N, "Reservoir"))
        else:
            node = SymObj(Tank, dict(_name=N, _vol_curve_name=ref, _curve_reg=w.curve.obj))
            w.curve.assume_member(ref, (N, "Tank"))
            user = (w.curve, (N, "Tank"))
        cx.assume(w.node.D(cx.t(N)))
        w.node.data.overlay.append((N, node))
        sets = {"junction": "_junctions", "reservoir": "_reservoirs", "tank": "_tanks"}
        for t, (pred, sm) in w.node.typed.items():
            cx.assume(pred(cx.t(N)) == z3.BoolVal(t == sets[kind.split("_")[0]]))
        for r in w.regs:
            r.assume_inv(N, other, ref, ref2)
        used = z3.And(w.node.U(cx.t(N)), w.node.CARD(cx.t(N)) > 0)
        cx.allow_raise(RuntimeError, used)
        cx.target(MODEL.NodeRegistry.__delitem__, w.node.obj, N)

        def post(out):
            if out.kind == "raise":
                return [("refused_only_while_links_or_sources_use_the_node", used),
                        ("refused_removal_changes_nothing", z3.And(zb(w.node.in_data(N)), user[0].member_after(ref, user[1]), w.unchanged_at(other)))]
            posts = [("removed_only_when_unused", z3.Not(used)), ("node_gone_from_data", z3.Not(zb(w.node.in_data(N))))]
            for t in NODE_SUBSETS:
                posts.append(("node_gone_from_typed_subset%s" % t, z3.Not(w.node.typed_has(t, N))))
            posts.append(("pattern_or_curve_no_longer_records_the_node", z3.Not(user[0].member_after(ref, user[1]))))
            if kind == "junction_three_demands_the_first_two_on_one_pattern":
                posts.append(("every_pattern_of_the_demand_list_no_longer_records_the_node", z3.Not(user[0].member_after(ref2, user[1]))))
            posts.append(("other_keys_untouched_in_every_registry", w.unchanged_at(other)))
            return posts
        cx.ensure(post)
    return Case(kind, build, crosscheck=False)


def _setitem_case(regname, cls, subsets_true):
    def build(cx):
        K, other = cx.name("key"), cx.name("other")
        _nonempty(cx, K)
        cx.assume(cx.t(K) != cx.t(other))
        w = World(cx)
        reg = getattr(w, regname)
        el = SymObj(cls, dict(_name=K, _link_name=K))
        for r in w.regs:
            r.assume_inv(K, other)
        cx.assume(z3.Not(reg.D(cx.t(K))))
        for t, (pred, sm) in reg.typed.items():
            cx.assume(z3.Not(pred(cx.t(K))))
        cx.target(type(reg.obj.cls.__setitem__) and reg.obj.cls.__setitem__, reg.obj, K, el)

        def post(out):
            if not out.returned:
                return []
            posts = [("element_registered", zb(reg.in_data(K)))]
            for t in reg.typed:
                posts.append(("typed_subset%s_%s" % (t, "contains_it" if t in subsets_true else "does_not"), reg.typed_has(t, K) == z3.BoolVal(t in subsets_true)))
            posts.append(("other_keys_untouched_in_every_registry", w.unchanged_at(other)))
            return posts
        cx.ensure(post)
    return Case("%s" % cls.__name__, build, crosscheck=False)


CONTRACTS += [
    Contract("wntr.network.model:NodeRegistry.__delitem__", P, [_node_delitem_case(k) for k in ("junction", "junction_two_demands_one_pattern", "junction_demand_without_pattern_first", "junction_three_demands_the_first_two_on_one_pattern", "reservoir", "tank")]),
    Contract("wntr.network.model:NodeRegistry.__setitem__", P, [_setitem_case("node", Junction, {"_junctions"}), _setitem_case("node", Tank, {"_tanks"}),
                                                                 _setitem_case("node", Reservoir, {"_reservoirs"})]),
    Contract("wntr.network.model:LinkRegistry.__setitem__", P, [_setitem_case("link", c, LINK_SETS_OF[c]) for c in (Pipe, HeadPump, PowerPump, PRValve, PSValve, PBValve, FCValve, TCValve, GPValve)]),
]


def _end_setter_case(which, scenario):
    """Link.start_node / end_node setter. scenario: 'fresh' (new node unrelated), 'to_other_end' (new node is the link's other end node),
    'from_loop' (start == end before the change)."""
    def build(cx):
        L, a, b, c, other = cx.name("link"), cx.name("a"), cx.name("b"), cx.name("c"), cx.name("other")
        for n in (L, a, b, c, other):
            _nonempty(cx, n)
        cx.assume(z3.Distinct(cx.t(L), cx.t(a), cx.t(b), cx.t(c), cx.t(other)))
        w = World(cx)
        T = "Pipe"
        s_name, e_name = (a, a) if scenario == "from_loop" else (a, b)
        link = _mk_link(cx, w, Pipe, L, s_name, e_name)
        new_name = c if scenario in ("fresh", "from_loop") else (e_name if which == "start" else s_name)
        newnode = SymObj(Junction, dict(_name=new_name))
        for nm in {id(x): x for x in (a, b, c)}.values():
            cx.assume(w.node.D(cx.t(nm)))
        w.node.data.overlay.append((new_name, newnode))
        for r in w.regs:
            r.assume_inv(L, a, b, c, other)
        w.node.assume_member(s_name, (L, T))
        if scenario != "from_loop":
            w.node.assume_member(e_name, (L, T))
        for nm in (a, b, c):                                             # RegInv: a node that is not an end of the link does not record it
            if not (nm.t.eq(s_name.t) or nm.t.eq(e_name.t)):
                w.node.assume_member_implies(nm, (L, T))
                cx.assume(z3.Not(w.node.MEM(cx.t(nm), user_term((L, T)))))
        cx.target(_set_end, link, which, newnode)

        def post(out):
            if not out.returned:
                return []
            ns = link.fields["_start_node"].fields["_name"]
            ne = link.fields["_end_node"].fields["_name"]
            posts = [("end_is_the_registered_node_of_that_name", (link.fields["_%s_node" % which] is newnode))]
            # RegInv afterwards: exactly the (new) end nodes record the link
            for nm in {id(x): x for x in (a, b, c)}.values():
                is_end = (nm.t.eq(ns.t) or nm.t.eq(ne.t))
                posts.append(("node_%s_records_the_link_iff_it_is_an_end_node" % str(nm.t), w.node.member_after(nm, (L, T)) == z3.BoolVal(is_end)))
            posts.append(("no_empty_usage_entry_left", z3.And(*[z3.Implies(zb(w.node.in_usage(nm)), w.node.card_after(nm) >= 1) for nm in (a, b, c)])))
            posts.append(("other_keys_untouched_in_every_registry", w.unchanged_at(other)))
            return posts
        cx.ensure(post)
    return Case("%s_node,%s" % (which, scenario), build, crosscheck=False)


def _set_end(link, which, node):
    if which == "start":
        link.start_node = node
    else:
        link.end_node = node


CONTRACTS.append(Contract("wntr.network.base:Link.start_node/end_node setters", P + ["C01"],
                          [_end_setter_case(wh, sc) for wh in ("start", "end") for sc in ("fresh", "to_other_end", "from_loop")],
                          interpret_always=(_set_end,)))


# ---------------------------------------------------------------------------- PatternRegistry.add_pattern

def _add_pattern_case(kind):
    """every registered pattern runs on the MODEL's clock (options.time): a list, a Pattern without time options and a Pattern built with time options
    of its own all end up with the model's TimeOptions object; an existing name is refused and nothing changes"""
    def build(cx):
        from wntr.network.elements import Pattern
        from wntr.network.options import TimeOptions
        model_time = SymObj(TimeOptions, dict(pattern_timestep=cx.int("model_pattern_timestep"), pattern_start=cx.int("model_pattern_start")))
        own_time = SymObj(TimeOptions, dict(pattern_timestep=cx.int("own_pattern_timestep"), pattern_start=cx.int("own_pattern_start")))
        existing = SymObj(Pattern, dict(name="old", _multipliers=[cx.real("old_m0")], _time_options=model_time, wrap=True))
        data = {"old": existing}
        reg = SymObj(MODEL.PatternRegistry, dict(_data=data, _usage={}, _options=types.SimpleNamespace(time=model_time)))
        name = "old" if kind.endswith("name_taken") else "pat"
        if kind.startswith("list"):
            arg = [1.0, 2.5]          # (numpy builds the array natively)
        else:
            arg = SymObj(Pattern, dict(name=name, _multipliers=[cx.real("m0"), cx.real("m1")], wrap=True,
                                       _time_options=own_time if kind.startswith("pattern_with_its_own_time_options") else None))
        if kind.endswith("name_taken"):
            cx.allow_raise(ValueError, True)
        cx.target(MODEL.PatternRegistry.add_pattern, reg, name, arg)

        def post(out):
            if kind.endswith("name_taken"):
                return [("a_taken_name_is_refused", out.kind == "raise"), ("the_registered_pattern_stays", data.get("old") is existing and len(data) == 1)]
            if not out.returned:
                return []
            got = data.get("pat")
            posts = [("the_pattern_is_registered_under_its_name", got is not None and len(data) == 2 and data.get("old") is existing)]
            if got is None:
                return posts
            if not kind.startswith("list"):
                posts.append(("the_object_given_is_the_one_registered", got is arg))
            to = got.fields["_time_options"] if isinstance(got, SymObj) else got._time_options
            posts.append(("the_registered_pattern_runs_on_the_model_s_clock", to is model_time))
            return posts
        cx.ensure(post)
    return Case(kind, build, crosscheck=False)


CONTRACTS.append(Contract("wntr.network.model:PatternRegistry.add_pattern", P + ["C20", "C01", "C11", "C13"],
                          [_add_pattern_case(k) for k in ("list_of_multipliers", "pattern_without_time_options", "pattern_with_its_own_time_options",
                                                          "list_of_multipliers,name_taken", "pattern_with_its_own_time_options,name_taken")]))


# ---------------------------------------------------------------------------- the setters through which an element starts / stops using a curve

def _set_curve(el, attr, name):
    setattr(el, attr, name)


def _curve_setter_case(cls, attr, had_one):
    """pump_curve_name / headloss_curve_name / vol_curve_name setter: afterwards the NEW curve records the element under exactly the record that the
    removal of the element releases (LinkRegistry.__delitem__ / NodeRegistry.__delitem__: (name, LINK_TYPE) / (name, 'Tank') - the contracts above
    assume that record), the old curve no longer does, and no empty entry stays behind"""
    def build(cx):
        L, old, new, other = cx.name("element"), cx.name("old_curve"), cx.name("new_curve"), cx.name("other")
        names = [L, old, new, other]
        for n in names:
            _nonempty(cx, n)
        cx.assume(z3.Distinct(*[cx.t(n) for n in names]))
        w = World(cx)
        rec = (L, "Tank") if cls is Tank else (L, LINK_TYPE[cls])
        if cls is Tank:
            el = SymObj(Tank, dict(_name=L, _vol_curve_name=(old if had_one else None), _curve_reg=w.curve.obj))
        else:
            el = _mk_link(cx, w, cls, L, cx.name("s"), cx.name("e"), None, old if had_one else None)
            el.fields["_curve_coeffs"] = None
        for r in w.regs:
            r.assume_inv(*names)
        cx.assume(w.curve.D(cx.t(old)), w.curve.D(cx.t(new)))
        if had_one:
            w.curve.assume_member(old, rec)
        # RegInv: the new curve does not record the element yet
        cx.assume(z3.Not(w.curve.MEM(cx.t(new), user_term(rec))))
        cx.target(_set_curve, el, attr, new)

        def post(out):
            if not out.returned:
                return []
            posts = [("the_element_names_the_new_curve", el.fields["_" + attr] is new or (isinstance(el.fields["_" + attr], SV) and el.fields["_" + attr].t.eq(new.t))),
                     ("new_curve_records_the_element_under_the_record_its_removal_releases", w.curve.member_after(new, rec)),
                     ("new_curve_has_a_usage_entry", zb(w.curve.in_usage(new)))]
            if had_one:
                posts.append(("old_curve_no_longer_records_the_element", z3.Not(w.curve.member_after(old, rec))))
                posts.append(("old_curve_entry_dropped_iff_it_became_empty", zb(w.curve.in_usage(old)) == z3.Not(w.curve.CARD(cx.t(old)) == 1)))
            posts.append(("other_keys_untouched_in_every_registry", w.unchanged_at(other)))
            return posts
        cx.ensure(post)
    return Case("%s.%s,had_a_curve=%s" % (cls.__name__, attr, had_one), build, crosscheck=False)


CONTRACTS.append(Contract("wntr.network.elements:HeadPump.pump_curve_name/GPValve.headloss_curve_name/Tank.vol_curve_name setters", P,
                          [_curve_setter_case(c, a, h) for c, a in ((HeadPump, "pump_curve_name"), (GPValve, "headloss_curve_name"), (Tank, "vol_curve_name")) for h in (True, False)],
                          interpret_always=(_set_curve,)))


# ---------------------------------------------------------------------------- get_links_for_node

class _NodeRegView(NativeModel):
    def __init__(self, usage):
        self.usage = usage

    def get_usage(self, key):
        return self.usage.get(key.t.get_id() if isinstance(key, SV) else key)


def _links_for_node_case(flag):
    """usage set of node n with three recorded users: a pipe out of n, a pump into n, a source (not a link);
    plus a self-loop valve in a second case."""
    def build(cx):
        n, m_, l1, l2, l3, s1 = cx.name("node"), cx.name("other_node"), cx.name("pipe_out"), cx.name("pump_in"), cx.name("loop_valve"), cx.name("source")
        for x in (n, m_, l1, l2, l3, s1):
            _nonempty(cx, x)
        cx.assume(z3.Distinct(*[cx.t(x) for x in (n, m_, l1, l2, l3, s1)]))
        N, M = SymObj(Junction, dict(_name=n)), SymObj(Junction, dict(_name=m_))
        links = {l1.t.get_id(): SymObj(Pipe, dict(_link_name=l1, _start_node=N, _end_node=M)),
                 l2.t.get_id(): SymObj(HeadPump, dict(_link_name=l2, _start_node=M, _end_node=N)),
                 l3.t.get_id(): SymObj(PRValve, dict(_link_name=l3, _start_node=N, _end_node=N))}
        usage = OrderedSet()
        for t in ((l1, "Pipe"), (s1, "Source"), (l2, "Pump"), (l3, "Valve")):
            usage.add(t)

        class W(NativeModel):
            _node_reg = _NodeRegView({n.t.get_id(): usage})

            def get_link(self, name):
                return links[name.t.get_id()]
        cx.target(MODEL.WaterNetworkModel.get_links_for_node, W(), n, flag)

        def post(out):
            if not out.returned:
                return []
            got = [x.t for x in out.value]
            want = {"ALL": [l1, l2, l3], "INLET": [l2, l3], "OUTLET": [l1, l3]}[flag.upper()]
            ok = len(got) == len(want) and all(any(g.eq(w_.t) for g in got) for w_ in want)
            return [("exactly_the_links_with_that_end_at_the_node_each_once", ok)]
        cx.ensure(post)
    return Case("flag=%s" % flag, build, crosscheck=False)


def _links_unknown_node_case():
    def build(cx):
        n = cx.name("node")

        class W(NativeModel):
            _node_reg = _NodeRegView({})
        cx.target(MODEL.WaterNetworkModel.get_links_for_node, W(), n, "ALL")

        def post(out):
            return [("node_without_usage_has_no_links", out.returned and out.value == [])]
        cx.ensure(post)
    return Case("no_usage_entry", build, crosscheck=False)


# ---------------------------------------------------------------------------- CurveRegistry removal keeps the typed sets exact

def _curve_delitem_case(ctype, subset):
    def build(cx):
        k, other = cx.name("curve"), cx.name("other")
        _nonempty(cx, k)
        cx.assume(cx.t(k) != cx.t(other))
        w = World(cx)
        for r in w.regs:
            r.assume_inv(k, other)
        cx.assume(w.curve.D(cx.t(k)), z3.Not(w.curve.U(cx.t(k))))
        for t, (pred, sm) in w.curve.typed.items():
            cx.assume(pred(cx.t(k)) == z3.BoolVal(t == subset))
        cx.target(_del_curve, w.curve.obj, k)

        def post(out):
            if not out.returned:
                return []
            posts = [("curve_gone_from_data", z3.Not(zb(w.curve.in_data(k))))]
            for t in CURVE_SUBSETS:
                posts.append(("curve_gone_from_typed_set%s" % t, z3.Not(w.curve.typed_has(t, k))))
            posts.append(("other_keys_untouched_in_every_registry", w.unchanged_at(other)))
            return posts
        cx.ensure(post)
    return Case("unused_%s_curve" % ctype, build, crosscheck=False)


def _curve_delitem_refused_case(ctype, subset):
    """a curve that is still used: the removal is refused and nothing - in particular no typed curve set - changes"""
    def build(cx):
        k, other = cx.name("curve"), cx.name("other")
        _nonempty(cx, k)
        cx.assume(cx.t(k) != cx.t(other))
        w = World(cx)
        for r in w.regs:
            r.assume_inv(k, other)
        used = z3.And(w.curve.U(cx.t(k)), w.curve.CARD(cx.t(k)) > 0)
        cx.assume(w.curve.D(cx.t(k)), used)
        for t, (pred, sm) in w.curve.typed.items():
            cx.assume(pred(cx.t(k)) == z3.BoolVal(t == subset))
        cx.allow_raise(RuntimeError, used)
        cx.target(_del_curve, w.curve.obj, k)

        def post(out):
            if out.kind != "raise":
                return [("removal_of_a_curve_in_use_is_refused", z3.BoolVal(False))]
            posts = [("curve_still_in_data_and_usage", z3.And(zb(w.curve.in_data(k)), zb(w.curve.in_usage(k))))]
            for t in CURVE_SUBSETS:
                posts.append(("refused_removal_leaves_typed_set%s" % t, w.curve.typed_has(t, k) == z3.BoolVal(t == subset)))
            posts.append(("other_keys_untouched_in_every_registry", w.unchanged_at(other)))
            return posts
        cx.ensure(post)
    return Case("used_%s_curve" % ctype, build, crosscheck=False)


def _del_curve(reg, k):
    reg.__delitem__(k)


# ---------------------------------------------------------------------------- remove_node / remove_link: a refused removal changes nothing

class _Control(NativeModel):
    def __init__(self, req):
        self.req = req

    def requires(self):
        return list(self.req)

    def _control_type_str(self):
        return "Control"


def _remove_case(kind, with_control, used):
    def build(cx):
        K, other, ctlname = cx.name("name"), cx.name("other"), "c1"
        _nonempty(cx, K)
        cx.assume(cx.t(K) != cx.t(other))
        w = World(cx)
        reg = w.node if kind == "node" else w.link
        for r in w.regs:
            r.assume_inv(K, other)
        if kind == "node":
            el = SymObj(Junction, dict(_name=K, _demand_timeseries_list=_DemList([]), _pattern_reg=w.pat.obj))
            for t, (pred, sm) in reg.typed.items():
                cx.assume(pred(cx.t(K)) == z3.BoolVal(t == "_junctions"))
        else:
            s, e = cx.name("start"), cx.name("end")
            cx.assume(z3.Distinct(cx.t(K), cx.t(other), cx.t(s), cx.t(e)), cx.t(s) != name_const(""), cx.t(e) != name_const(""))
            el = _mk_link(cx, w, Pipe, K, s, e)
            w.node.assume_inv(s, e)
            w.node.assume_member(s, (K, "Pipe"))
            w.node.assume_member(e, (K, "Pipe"))
            for t, (pred, sm) in reg.typed.items():
                cx.assume(pred(cx.t(K)) == z3.BoolVal(t == "_pipes"))
        cx.assume(reg.D(cx.t(K)))
        reg.data.overlay.append((K, el))
        cx.assume(z3.And(reg.U(cx.t(K)), reg.CARD(cx.t(K)) > 0) if used else z3.Not(reg.U(cx.t(K))))
        controls = {ctlname: _Control([el])}

        class W(NativeModel):
            _controls = controls
            _node_reg = w.node.obj
            _link_reg = w.link.obj

            def get_node(self, name):
                return el

            get_link = get_node

            def remove_control(self, name):
                del controls[name]
        cx.allow_raise(RuntimeError, True)
        f = MODEL.WaterNetworkModel.remove_node if kind == "node" else MODEL.WaterNetworkModel.remove_link
        cx.target(f, W(), K, with_control)

        def post(out):
            if out.kind == "raise":
                return [("refused_only_for_an_element_still_in_use_or_required_by_a_control", bool(used) or not with_control),
                        ("refused_removal_leaves_the_controls_alone", ctlname in controls),
                        ("refused_removal_leaves_the_registries_alone", z3.And(zb(reg.in_data(K)), w.unchanged_at(other)))]
            return [("removed", z3.Not(zb(reg.in_data(K)))), ("its_controls_removed_with_it", ctlname not in controls),
                    ("only_an_unused_element_is_removed", not used and with_control)]
        cx.ensure(post)
    return Case("%s,with_control=%s,still_used=%s" % (kind, with_control, used), build, crosscheck=False)


CONTRACTS += [
    Contract("wntr.network.model:WaterNetworkModel.get_links_for_node", P + ["C01"], [_links_for_node_case(f) for f in ("ALL", "INLET", "OUTLET", "inlet")] + [_links_unknown_node_case()],
             note="a node whose usage records a pipe out of it, a pump into it, a self-loop valve and a source (bounded in the number of users, names symbolic)"),
    Contract("wntr.network.model:CurveRegistry.__delitem__", P, [_curve_delitem_case(t, s_) for t, s_ in (("HEAD", "_pump_curves"), ("VOLUME", "_volume_curves"),
                                                                                                  ("HEADLOSS", "_headloss_curves"), ("EFFICIENCY", "_efficiency_curves"))] +
             [_curve_delitem_refused_case(t, s_) for t, s_ in (("HEAD", "_pump_curves"), ("VOLUME", "_volume_curves"), ("HEADLOSS", "_headloss_curves"))],
             interpret_always=(_del_curve,)),
    Contract("wntr.network.model:WaterNetworkModel.remove_node/remove_link", P,
             [_remove_case(k, wc, u) for k in ("node", "link") for wc in (True, False) for u in ((True, False) if k == "node" else (False,))]),
]


# ---------------------------------------------------------------------------- bounded: random edit histories behind a run-time RegInv checker

def _reginv_violations(wn):
    """list of violated clauses of RegInv on a real model (all views must agree)"""
    bad = []
    nodes, links = dict(wn.nodes()), dict(wn.links())
    if set(wn.node_name_list) != set(nodes) or wn.num_nodes != len(nodes):
        bad.append("node name list / count disagree with the node registry")
    if set(wn.link_name_list) != set(links) or wn.num_links != len(links):
        bad.append("link name list / count disagree with the link registry")
    try:
        typed_n = {"Junction": dict(wn.junctions()), "Tank": dict(wn.tanks()), "Reservoir": dict(wn.reservoirs())}
        typed_l = {"Pipe": dict(wn.pipes()), "Pump": dict(wn.pumps()), "Valve": dict(wn.valves()), "HeadPump": dict(wn.head_pumps()), "PowerPump": dict(wn.power_pumps()),
                   "PRValve": dict(wn.prvs()), "PSValve": dict(wn.psvs()), "PBValve": dict(wn.pbvs()), "TCValve": dict(wn.tcvs()), "FCValve": dict(wn.fcvs()), "GPValve": dict(wn.gpvs())}
    except KeyError as e:
        return bad + ["a typed iterator raised KeyError(%s): a typed set names an element that no longer exists" % e]
    for k, d in list(typed_n.items()) + list(typed_l.items()):
        pool = nodes if k in typed_n else links
        want = {n for n, o in pool.items() if type(o).__name__ == k or (k == "Pump" and type(o).__name__ in ("HeadPump", "PowerPump")) or (k == "Valve" and type(o).__name__.endswith("Valve"))}
        if set(d) != want:
            bad.append("typed iterator %s lists %s, existing elements of that type are %s" % (k, sorted(set(d) ^ want)[:4], "different"))
    if wn.num_junctions != len(typed_n["Junction"]) or wn.num_pipes != len(typed_l["Pipe"]) or wn.num_pumps != len(typed_l["Pump"]) or wn.num_valves != len(typed_l["Valve"]):
        bad.append("num_* counters disagree with the typed iterators")
    for ln, l in links.items():
        if l.start_node_name not in nodes or l.end_node_name not in nodes:
            bad.append("link %s refers to a node that does not exist" % ln)
    for nn in nodes:
        got = sorted(wn.get_links_for_node(nn))
        want = sorted(ln for ln, l in links.items() if nn in (l.start_node_name, l.end_node_name))
        if got != want:
            bad.append("get_links_for_node(%s) = %s, links at the node are %s" % (nn, got, want))
        gin = sorted(wn.get_links_for_node(nn, "INLET"))
        if gin != sorted(ln for ln, l in links.items() if l.end_node_name == nn):
            bad.append("get_links_for_node(%s, INLET) wrong" % nn)
    try:
        G = wn.to_graph()
        if set(G.nodes()) != set(nodes) or sorted(k for u, v, k in G.edges(keys=True)) != sorted(links):
            bad.append("to_graph does not reflect exactly the existing nodes / links")
    except Exception as e:
        bad.append("to_graph raised %r" % (e,))
    for regname, reg, pool in (("node", wn._node_reg, nodes), ("pattern", wn._pattern_reg, dict(wn.patterns())), ("curve", wn._curve_reg, dict(wn.curves()))):
        for key, users in reg.usage():
            if key not in pool:
                bad.append("%s usage mentions the removed %s %r" % (regname, regname, key))
            if len(users) == 0:
                bad.append("%s usage keeps an empty entry for %r" % (regname, key))
            for (uname, utype) in users:
                exists = (uname in links) if utype in ("Pipe", "Pump", "Valve") else (uname in nodes) if utype in ("Junction", "Tank", "Reservoir") else (uname in wn.source_name_list) if utype == "Source" else (uname in links or uname in nodes or uname in wn.source_name_list)
                if not exists:
                    bad.append("%s usage of %r mentions the non-existing %s %r" % (regname, key, utype, uname))
    # referential integrity: whatever an existing element refers to exists, and the usage record of the referred object names the element
    pats, curs = dict(wn.patterns()), dict(wn.curves())
    pusage = {k: set(v) for k, v in wn._pattern_reg.usage()}
    cusage = {k: set(v) for k, v in wn._curve_reg.usage()}
    nusage = {k: set(v) for k, v in wn._node_reg.usage()}

    def refers(kind, who, table, usage, ref, record):
        if ref is None or ref == "":
            return
        if kind == "pattern" and ref not in table and ref == wn.options.hydraulic.pattern:
            return            # the default pattern name of a model without such a pattern means "constant" (documented)
        if ref not in table:
            bad.append("%s %s refers to the removed %s %r" % (who[1], who[0], kind, ref))
        elif len(table[ref]) > 0 if kind == "pattern" else True:
            if record not in usage.get(ref, set()):
                bad.append("%s %r is used by %s %s but its usage record does not say so (it could be removed)" % (kind, ref, who[1], who[0]))
    for nn, n in nodes.items():
        t = type(n).__name__
        if t == "Junction":
            for d in n.demand_timeseries_list:
                refers("pattern", (nn, t), pats, pusage, d.pattern_name, (nn, "Junction"))
        elif t == "Reservoir":
            refers("pattern", (nn, t), pats, pusage, n.head_pattern_name, (nn, "Reservoir"))
        elif t == "Tank":
            refers("curve", (nn, t), curs, cusage, n.vol_curve_name, (nn, "Tank"))
    for ln, l in links.items():
        t = type(l).__name__
        if t in ("HeadPump", "PowerPump"):
            refers("pattern", (ln, t), pats, pusage, l.speed_pattern_name, (ln, "Pump"))
        if t == "HeadPump":
            refers("curve", (ln, t), curs, cusage, l.pump_curve_name, (ln, "Pump"))
        if t == "GPValve" and l.headloss_curve_name is not None:
            if l.headloss_curve_name not in curs:
                bad.append("GPValve %s refers to the removed curve %r" % (ln, l.headloss_curve_name))
            elif ln not in {u[0] for u in cusage.get(l.headloss_curve_name, set())}:
                bad.append("curve %r is used by GPValve %s but its usage record does not say so (it could be removed)" % (l.headloss_curve_name, ln))
    for sn, src in wn.sources():
        refers("pattern", (sn, "Source"), pats, pusage, src.strength_timeseries.pattern_name, (sn, "Source"))
        if src.node_name not in nodes:
            bad.append("source %s sits on the removed node %r" % (sn, src.node_name))
        elif (sn, "Source") not in nusage.get(src.node_name, set()):
            bad.append("node %r carries source %s but its usage record does not say so (it could be removed)" % (src.node_name, sn))
    try:
        list(wn.curves())
        _ = [wn.get_curve(c) for c in wn._curve_reg.pump_curve_names]
    except KeyError as e:
        bad.append("curve views raised KeyError(%s)" % e)
    cur = dict(wn.curves())
    for ctype, names in (("HEAD", wn._curve_reg.pump_curve_names), ("VOLUME", wn._curve_reg.volume_curve_names),
                         ("HEADLOSS", wn._curve_reg.headloss_curve_names), ("EFFICIENCY", wn._curve_reg.efficiency_curve_names)):
        want = sorted(n for n, c in cur.items() if c.curve_type == ctype)
        if sorted(names) != want:
            bad.append("typed curve view %s lists %s, curves of that type are %s" % (ctype, sorted(names), want))
    # a graph weighted by a table that covers only some links / nodes still has every element
    try:
        some = sorted(links)[::2]
        lw = {n: (-1.5 if i % 2 else 2.5) for i, n in enumerate(some)}
        for md in (False, True):
            G = wn.to_graph(link_weight=lw, node_weight={n: 1.0 for n in sorted(nodes)[::2]}, modify_direction=md)
            edges = {k: (u, v, d) for u, v, k, d in G.edges(keys=True, data=True)}
            if set(G.nodes()) != set(nodes) or sorted(edges) != sorted(links):
                bad.append("to_graph with weights for some links only does not contain exactly the existing nodes / links (modify_direction=%s)" % md)
                continue
            for ln, l in links.items():
                u, v, d = edges[ln]
                flip = md and ln in lw and lw[ln] < 0
                if (u, v) != ((l.end_node_name, l.start_node_name) if flip else (l.start_node_name, l.end_node_name)):
                    bad.append("to_graph: direction of %s wrong (modify_direction=%s)" % (ln, md))
                if d.get("type") != l.link_type or (ln in lw and d.get("weight") != (abs(lw[ln]) if md else lw[ln])) or (ln not in lw and "weight" in d):
                    bad.append("to_graph: attributes of %s wrong: %r" % (ln, d))
    except Exception as e:
        bad.append("to_graph with weights raised %r" % (e,))
    return bad


def _edit_histories(shard, nshards):
    def run(tier, seed):
        import random
        import warnings
        import logging
        import copy
        warnings.simplefilter("ignore")
        logging.disable(logging.CRITICAL)
        rng = random.Random(seed * 977 + shard)
        evals, distinct, failures, samples = 0, set(), [], []
        N = 60 if tier == "quick" else 600
        for it in range(N):
            wn = wntr.network.WaterNetworkModel()
            wn.add_pattern("p1", [1.0, 2.0])
            wn.add_pattern("p2", [0.5])
            wn.add_curve("hc", "HEAD", [(0.1, 10.0)])
            wn.add_curve("vc", "VOLUME", [(0.0, 0.0), (5.0, 100.0)])
            wn.add_curve("gc", "HEADLOSS", [(0.0, 0.0), (0.1, 2.0)])
            wn.add_reservoir("R", 10.0, "p2")
            hist, cnt = [], [0]

            def fresh(prefix):
                cnt[0] += 1
                return "%s%d" % (prefix, cnt[0])
            for step in range(rng.randint(3, 10 if tier == "quick" else 16)):
                op = rng.choice(["add_junction", "add_junction", "add_tank", "add_pipe", "add_pipe", "add_pump", "add_valve", "add_source", "add_control",
                                 "remove_link", "remove_node", "remove_node_wc", "remove_curve", "remove_pattern", "reverse", "split", "remove_source", "self_loop",
                                 "remove_newest_link", "remove_newest_link"])       # add-then-remove of every element kind is what exercises the typed subsets
                before = None
                try:
                    nl, ll = wn.node_name_list, wn.link_name_list
                    if op == "add_junction":
                        wn.add_junction(fresh("J"), base_demand=0.01, demand_pattern=rng.choice([None, "p1"] if "p1" in wn.pattern_name_list else [None]), elevation=1.0)
                    elif op == "add_tank":
                        wn.add_tank(fresh("T"), elevation=5.0, init_level=1.0, min_level=0.0, max_level=3.0, diameter=2.0, vol_curve=rng.choice([None, "vc"] if "vc" in wn.curve_name_list else [None]))
                    elif op in ("add_pipe", "add_pump", "add_valve", "self_loop") and len(nl) >= 2:
                        a, b = rng.sample(nl, 2)
                        if op == "self_loop":
                            b = a
                        if op in ("add_pipe", "self_loop"):
                            wn.add_pipe(fresh("P"), a, b, length=10.0, diameter=0.3, roughness=100.0)
                        elif op == "add_pump":
                            if rng.random() < 0.5 and "hc" in wn.curve_name_list:
                                wn.add_pump(fresh("U"), a, b, "HEAD", "hc", pattern=rng.choice([None, "p1"] if "p1" in wn.pattern_name_list else [None]))
                            else:
                                wn.add_pump(fresh("U"), a, b, "POWER", 50.0, pattern=rng.choice([None, "p1"] if "p1" in wn.pattern_name_list else [None]))
                        elif rng.random() < 0.3 and "gc" in wn.curve_name_list:
                            wn.add_valve(fresh("V"), a, b, valve_type="GPV", initial_setting="gc")      # a general purpose valve uses its head loss curve
                        else:
                            wn.add_valve(fresh("V"), a, b, valve_type=rng.choice(["PRV", "PSV", "PBV", "TCV", "FCV"]), initial_setting=1.0)
                    elif op == "add_source" and nl:
                        wn.add_source(fresh("S"), rng.choice(nl), "CONCEN", 1.0, rng.choice([None, "p1"] if "p1" in wn.pattern_name_list else [None]))
                    elif op == "add_control" and ll:
                        l = wn.get_link(rng.choice(ll))
                        act = wntr.network.controls.ControlAction(l, "status", 0)
                        wn.add_control(fresh("C"), wntr.network.controls.Control._time_control(wn, 3600, "SIM_TIME", False, act))
                    elif op in ("remove_link", "remove_node", "remove_node_wc", "remove_curve", "remove_pattern", "remove_source", "remove_newest_link"):
                        before = (copy.deepcopy(wntr.network.to_dict(wn)))
                        if op == "remove_newest_link" and ll:
                            wn.remove_link(ll[-1], with_control=True)
                        elif op == "remove_link" and ll:
                            wn.remove_link(rng.choice(ll), with_control=rng.random() < 0.5)
                        elif op == "remove_node" and nl:
                            wn.remove_node(rng.choice(nl))
                        elif op == "remove_node_wc" and nl:
                            wn.remove_node(rng.choice(nl), with_control=True)
                        elif op == "remove_curve" and wn.curve_name_list:
                            wn.remove_curve(rng.choice(wn.curve_name_list))
                        elif op == "remove_pattern" and wn.pattern_name_list:
                            wn.remove_pattern(rng.choice(wn.pattern_name_list))
                        elif op == "remove_source" and wn.source_name_list:
                            wn.remove_source(rng.choice(wn.source_name_list))
                        before = None
                    elif op == "reverse" and ll:
                        wn = wntr.morph.link.reverse_link(wn, rng.choice(ll), return_copy=False)
                    elif op == "split" and wn.pipe_name_list:
                        pn = rng.choice(wn.pipe_name_list)
                        wn = wntr.morph.split_pipe(wn, pn, fresh("P"), fresh("J"), return_copy=False)
                    hist.append(op)
                except (RuntimeError, ValueError, AssertionError, KeyError, AttributeError) as e:
                    hist.append(op + ":refused(%s)" % type(e).__name__)
                    if before is not None:
                        after = wntr.network.to_dict(wn)
                        if after != before:
                            failures.append(dict(history=hist[-6:], what="a refused removal changed the model"))
                evals += 1
                bad = _reginv_violations(wn)
                if bad:
                    failures.append(dict(history=hist[-8:], violated=bad[:3]))
                    break
            distinct.add(tuple(hist))
            if len(samples) < 2:
                samples.append(dict(history=hist))
            if len(failures) > 10:
                break
        return dict(evaluations=evals, distinct_nontrivial=len(distinct), failures=failures[:10], samples=samples, exhaustive=False,
                    scope="shard %d/%d: %d random edit histories (3-10 operations: add junction/tank/pipe/pump/valve/source/control, self-loop pipe, remove link/node/curve/"
                          "pattern/source with and without controls, reverse_link, split_pipe); after every operation all views are compared (name lists, counts, typed "
                          "iterators, link end nodes, get_links_for_node, to_graph, usage records in both directions: every record names an existing user, every reference of an existing "
                          "element points at an existing pattern / curve / node whose record names it); a refused removal must leave to_dict unchanged" % (shard, nshards, N))
    return run


NSHB = 8
BOUNDED = [Bounded("C14.edit_histories[%d/%d]" % (i, NSHB), P, _edit_histories(i, NSHB), kind="random edit histories, run-time representation invariant") for i in range(NSHB)]


# ---------------------------------------------------------------------------- which elements a control / rule refers to (remove_* refuses them)

def _requires_case(kind):
    """requires() is the set of elements the condition reads and the actions write: the union over both operands of AND / OR, over the
    condition, the THEN and the ELSE actions of a rule.  Elements are opaque objects; operands may share elements."""
    def build(cx):
        import wntr.network.controls as ctl
        from wntr.utils.ordered_set import OrderedSet

        class E:
            def __init__(self, n):
                self.name = n

            def __repr__(self):
                return self.name
        a, b, c, d = E("a"), E("b"), E("c"), E("d")

        class Leaf_(NativeModel):
            def __init__(self, els):
                self.els = els

            def requires(self):
                return OrderedSet(self.els)
        holder = {}
        if kind in ("and", "or"):
            cls = ctl.AndCondition if kind == "and" else ctl.OrCondition
            obj = cx.obj(cls, _condition_1=Leaf_([a, b]), _condition_2=Leaf_([b, c]))
            want = [a, b, c]
        elif kind == "nested":
            inner = cx.obj(ctl.OrCondition, _condition_1=Leaf_([b]), _condition_2=Leaf_([c, d]))
            obj = cx.obj(ctl.AndCondition, _condition_1=Leaf_([a]), _condition_2=inner)
            want = [a, b, c, d]
        else:
            obj = cx.obj(ctl.Rule, _condition=Leaf_([a]), _then_actions=[Leaf_([b]), Leaf_([a])], _else_actions=[Leaf_([c]), Leaf_([d])] if kind == "rule_else" else [])
            want = [a, b, c, d] if kind == "rule_else" else [a, b]
        holder["obj"] = obj
        cx.target(type(obj.cls.requires) and obj.cls.requires, obj)

        def post(out):
            if not out.returned:
                return []
            got = list(out.value.fields["_data"]) if hasattr(out.value, "fields") else list(out.value)
            return [("every_element_of_every_operand_and_action_exactly_once", len(got) == len(want) and all(any(g is w for g in got) for w in want))]
        cx.ensure(post)
    return Case(kind, build, crosscheck=False)


CONTRACTS.append(Contract("wntr.network.controls:AndCondition/OrCondition/ControlBase.requires", P + ["C19"], [_requires_case(k) for k in ("and", "or", "nested", "rule", "rule_else")],
                          note="what remove_node / remove_link consult before refusing: fixed small operand sets with shared elements",
                          trusted=["leaf conditions and actions return the elements they hold (one-line methods)"]))
