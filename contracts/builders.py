"""Contracts on the constraint builders of wntr.sim.models.constraint (C01, C02, C07, C08, C09).

Each builder's loop body is verified for an *arbitrary* element name (index_over = [n] with n symbolic):
the independent-iteration rule. Its side condition (the body writes only X[name] cells of the constraint
dict, calls updater.add, and reads nothing written by another iteration) is checked on the write log.
"""
import ast
import math
import types

import z3

from pyvc.core import Contract, Case
from pyvc.runner import Lemma, Bounded
from pyvc.values import GenericIter
from pyvc.values import SV, SymMap, SymSeq, SymObj, Leaf, NameSort, real_val
from pyvc import amlmodel, library
from pyvc.amlmodel import ModelStub, Con
from pyvc.loops import for_seq_invariant

from wntr.sim.models import constraint, constants, param
from wntr.network import LinkStatus
from wntr.network.elements import (Junction, Tank, Reservoir, Pipe, HeadPump, PowerPump, PRValve, PSValve, FCValve,
                                   TCValve)

from contracts._net import (WN, Updater, pmap, mk_node, mk_link, options, written_value, fn, R, B,
                            FLOW, HEAD, SRC_HEAD, DEMAND, EXP_DEMAND, LEAK_RATE, ELEV, IS_J, IS_T, IS_R, IS_L)

IS_PIPE = fn("is_pipe", NameSort, B)
IS_VALVE = fn("is_valve", NameSort, B)
IS_TCV = fn("is_tcv", NameSort, B)
IS_PPUMP = fn("is_power_pump", NameSort, B)


def _or(*ps):
    return lambda k: z3.Or(*[p(k) for p in ps])


def mk_model(cx, existing=None):
    """Symbolic aml model with the key domains create_hydraulic_model gives its dictionaries."""
    JT = _or(IS_J, IS_T)
    f = dict(
        flow=pmap("flow", IS_L), head=pmap("head", IS_J), source_head=pmap("source_head", _or(IS_T, IS_R)),
        demand=pmap("demand", IS_J), expected_demand=pmap("expected_demand", IS_J), leak_rate=pmap("leak_rate", JT),
        elevation=pmap("elevation", IS_J), pmin=pmap("pmin", IS_J), pnom=pmap("pnom", IS_J),
        leak_area=pmap("leak_area", JT), leak_coeff=pmap("leak_coeff", JT),
        hw_resistance=pmap("hw_resistance", IS_PIPE), minor_loss=pmap("minor_loss", _or(IS_PIPE, IS_VALVE)),
        tcv_resistance=pmap("tcv_resistance", IS_TCV), pump_power=pmap("pump_power", IS_PPUMP),
        valve_setting=pmap("valve_setting", IS_VALVE),
    )
    for p in "abcd":
        f["leak_poly_coeffs_" + p] = pmap("leak_poly_" + p, JT)
        f["pdd_poly1_coeffs_" + p] = pmap("pdd_poly1_" + p, IS_J)
        f["pdd_poly2_coeffs_" + p] = pmap("pdd_poly2_" + p, IS_J)
    m = cx.obj(ModelStub, **f)
    # the code's own constants, by running the real functions on the stub
    for cf in (constants.hazen_williams_constants, constants.head_pump_constants, constants.leak_constants,
               constants.pdd_constants):
        cx.interp.call(cf, [m])
    if existing:
        d0 = fn("prev_dom_" + existing, NameSort, B)
        m.fields[existing] = SymMap(lambda k: d0(k.t), lambda k: Con(SV(z3.Real("old_row"), "real")), label=existing)
    return m


def kind_facts(cx, n, cls):
    t = cx.t(n)
    cx.assume(IS_J(t) == (cls is Junction), IS_T(t) == (cls is Tank), IS_R(t) == (cls is Reservoir))


def frame_ok(path, allowed_maps, key):
    """independent-iteration frame: every map write of the body is at exactly `key` of an allowed map."""
    for (obj, k, v) in path.writes:
        if isinstance(obj, SymMap):
            if obj not in allowed_maps:
                return False
            if not (isinstance(k, SV) and k.t.eq(key.t)):
                return False
    return True


def row_of(m, field, n):
    mp = m.fields.get(field)
    if mp is None:
        return None, None
    return mp, written_value(mp, n)


def updater_registered(upd, obj, attrs, builder=None):
    """the builder registered, for each tracked attribute of obj, a callback; when `builder` is given every
    callback registered for obj must be that builder's own update (re-building a different row on a change of
    the attribute would leave this row stale)."""
    got = {(id(o), a) for (o, a, f) in upd.calls}
    ok = all((id(obj), a) in got for a in attrs)
    if builder is not None:
        for (o, a, f) in upd.calls:
            if o is obj and not (getattr(f, "__self__", None) is builder and getattr(f, "__func__", None) is builder.update.__func__):
                ok = False
    return ok


MODELS = amlmodel.build_models
TRUST_AML = ["wntr.sim.aml: expressions denote real arithmetic (ite chain for ConditionalExpression, sign(0)=+1); "
             "a Param is read by reference at solve time (DESIGN 2.5) — Python half under C15 contracts, C++ half bounded",
             "WaterNetworkModel.get_node/get_link return the registered element (RegInv, C14)"]


# ------------------------------------------------------------------------------------------------
# C08 leak_constraint

def leak_lambda(p, a, b, c, d, cd, area, delta=1e-4, slope=1e-11):
    """Spec from the property text: 0 below zero pressure (slope 1e-11 regularisation), smoothing cubic on the
    0.1 mm band, Cd*A*sqrt(2 g p) above."""
    return z3.If(p <= 0, real_val(slope) * p,
                 z3.If(p <= real_val(delta), a * p * p * p + b * p * p + c * p + d,
                       cd * area * library.SQRT(real_val(2.0 * 9.81) * p)))


def _leak_case(cls, leak_status, isolated, existing):
    def build(cx):
        n = cx.name("n")
        kind_facts(cx, n, cls)
        node = mk_node(cx, cls, n, _leak_status=leak_status, _is_isolated=isolated,
                       _elevation=cx.real("tank_elev") if cls is Tank else 0.0)
        wn = WN()
        wn.nodes.append((n, node))
        m = mk_model(cx, existing="leak_con" if existing else None)
        upd = Updater()
        cx.target(constraint.leak_constraint.build, m, wn, upd, GenericIter([n]))

        def post(out):
            if not out.returned:
                return []
            mp, w = row_of(m, "leak_con", n)
            posts = []
            nt = n.t
            active = leak_status and not isolated
            indom = cx.interp.map_dom(mp, n)
            if active:
                posts.append(("row_present", indom))
                if isinstance(w, Con):
                    h = (HEAD(nt) if cls is Junction else SRC_HEAD(nt))
                    elev = ELEV(nt) if cls is Junction else cx.t(node.fields["_elevation"])
                    p = h - elev
                    g = lambda s: fn(s, NameSort, R)(nt)
                    lam = leak_lambda(p, g("leak_poly_a"), g("leak_poly_b"), g("leak_poly_c"), g("leak_poly_d"),
                                      g("leak_coeff"), g("leak_area"))
                    posts.append(("row_is_leak_minus_lambda_of_pressure", w.term.t == LEAK_RATE(nt) - lam))
                else:
                    posts.append(("row_is_leak_minus_lambda_of_pressure", False))
            else:
                posts.append(("no_row_when_inactive_or_isolated", z3.Not(indom) if not isinstance(indom, bool) else (not indom)))
            posts.append(("frame_only_own_row", frame_ok(cx.path, [mp], n)))
            posts.append(("updater_tracks_leak_status_and_isolation", updater_registered(upd, node, ["leak_status", "_is_isolated"], constraint.leak_constraint)))
            return posts
        cx.ensure(post)
    return Case("%s,leak=%s,isolated=%s,existing=%s" % (cls.__name__, leak_status, isolated, existing), build, crosscheck=False)


_leak_cases = [_leak_case(c, ls, iso, ex) for c in (Junction, Tank) for ls in (True, False) for iso in (False, True)
               for ex in (False, True)]

# ------------------------------------------------------------------------------------------------
# C07 pdd_constraint


def pdd_ghat(p, p0, pf, e, a1, b1, c1, d1, a2, b2, c2, d2, delta=0.05, slope=1e-11):
    """The five-branch delivered fraction documented for PDD (branch guards as in the documentation):
    slope*(p-P0) below P0, cubic 1 on the lower band, ((p-P0)/(Pf-P0))^e, cubic 2 on the upper band, 1+slope*(p-Pf)."""
    dl = real_val(delta)
    sl = real_val(slope)
    mid = library.POW((p - p0) / (pf - p0), e) if not (isinstance(e, float) and e == 0.5) else library.SQRT((p - p0) / (pf - p0))
    return z3.If(p <= p0, sl * (p - p0),
                 z3.If(p <= p0 + dl, a1 * p * p * p + b1 * p * p + c1 * p + d1,
                       z3.If(p <= pf - dl, mid,
                             z3.If(p <= pf, a2 * p * p * p + b2 * p * p + c2 * p + d2, sl * (p - pf) + 1))))


def _pdd_case(isolated, exp_mode, existing):
    def build(cx):
        n = cx.name("n")
        kind_facts(cx, n, Junction)
        eg = cx.real("e_global")
        if exp_mode == "node":
            en = cx.real("e_node")
        elif exp_mode == "half":
            en = None
            eg = 0.5
        else:
            en = None
        node = mk_node(cx, Junction, n, _is_isolated=isolated, _pressure_exponent=en)
        wn = WN(options=options(cx, pressure_exponent=eg))
        wn.nodes.append((n, node))
        m = mk_model(cx, existing="pdd" if existing else None)
        upd = Updater()
        cx.target(constraint.pdd_constraint.build, m, wn, upd, GenericIter([n]))

        def post(out):
            if not out.returned:
                return []
            mp, w = row_of(m, "pdd", n)
            nt = n.t
            indom = cx.interp.map_dom(mp, n)
            posts = []
            if not isolated:
                posts.append(("row_present", indom))
                if isinstance(w, Con):
                    g = lambda s: fn(s, NameSort, R)(nt)
                    p = HEAD(nt) - ELEV(nt)
                    e = cx.t(en) if exp_mode == "node" else (0.5 if exp_mode == "half" else cx.t(eg))
                    gh = pdd_ghat(p, g("pmin"), g("pnom"), e, g("pdd_poly1_a"), g("pdd_poly1_b"), g("pdd_poly1_c"),
                                  g("pdd_poly1_d"), g("pdd_poly2_a"), g("pdd_poly2_b"), g("pdd_poly2_c"), g("pdd_poly2_d"))
                    dl = real_val(0.05)
                    p0, pf = g("pmin"), g("pnom")
                    regions = [("below_pmin", p <= p0), ("lower_band", z3.And(p > p0, p <= p0 + dl)),
                               ("power_law", z3.And(p > p0 + dl, p <= pf - dl)), ("upper_band", z3.And(p > pf - dl, p <= pf)),
                               ("above_preq", p > pf)]
                    for rn, rc in regions:
                        posts.append(("row_is_d_minus_D_times_ghat:" + rn,
                                      z3.Implies(rc, w.term.t == DEMAND(nt) - EXP_DEMAND(nt) * gh)))
                else:
                    posts.append(("row_is_d_minus_D_times_ghat", False))
            else:
                posts.append(("no_row_when_isolated", z3.Not(indom) if not isinstance(indom, bool) else (not indom)))
            posts.append(("frame_only_own_row", frame_ok(cx.path, [mp], n)))
            posts.append(("updater_tracks_isolation", updater_registered(upd, node, ["_is_isolated"], constraint.pdd_constraint)))
            return posts
        cx.ensure(post)
    return Case("isolated=%s,exponent=%s,existing=%s" % (isolated, exp_mode, existing), build, crosscheck=False)


_pdd_cases = [_pdd_case(iso, em, ex) for iso in (False, True) for em in ("node", "global", "half") for ex in (False, True)]


# ------------------------------------------------------------------------------------------------
# C01 mass balance builders

S_IN = fn("sum_in", NameSort, z3.IntSort(), R)      # S_IN(n,k)  = sum_{i<k} flow(inl(n,i))
S_OUT = fn("sum_out", NameSort, z3.IntSort(), R)
INL = fn("inlet_link", NameSort, z3.IntSort(), NameSort)
OUTL = fn("outlet_link", NameSort, z3.IntSort(), NameSort)


def _seq(n, f, length, label):
    return SymSeq(length, lambda i: SV(f(n.t, i), "name"), label=label, facts=lambda i: [IS_L(f(n.t, i))])


LINK_IS_ISOLATED = z3.Function("link_is_isolated", NameSort, z3.BoolSort())


def _mb_case(builder, demand_field, leak_status, isolated, existing):
    dictname = "mass_balance" if builder is constraint.mass_balance_constraint else "pdd_mass_balance"
    DEM = EXP_DEMAND if demand_field == "expected_demand" else DEMAND
    qual = "wntr.sim.models.constraint:%s.build" % builder.__name__

    def build(cx):
        n = cx.name("n")
        kind_facts(cx, n, Junction)
        nin, nout = cx.int("n_in"), cx.int("n_out")
        cx.assume(cx.t(nin) >= 0, cx.t(nout) >= 0)
        node = mk_node(cx, Junction, n, _leak_status=leak_status, _is_isolated=isolated)
        wn = WN()
        wn.nodes.append((n, node))
        wn.inlet[n.t.get_id()] = _seq(n, INL, nin, "inlet")
        wn.outlet[n.t.get_id()] = _seq(n, OUTL, nout, "outlet")
        # an incident link is some link of the network with an arbitrary isolation flag of its own (code that looks at the links themselves runs
        # against this view instead of leaving the stub)
        wn.generic_link = lambda name: cx.obj(Pipe, _link_name=name, _is_isolated=SV(LINK_IS_ISOLATED(name.t), "bool"), _flow=None)
        m = mk_model(cx, existing=dictname if existing else None)
        upd = Updater()
        # definitional axioms of the prefix sums (spec functions)
        cx.path.assume(S_IN(n.t, 0) == 0)
        cx.path.assume(S_OUT(n.t, 0) == 0)
        cx.n = n
        cx.target(builder.build, m, wn, upd, GenericIter([n]))

        def post(out):
            if not out.returned:
                return []
            mp, w = row_of(m, dictname, n)
            nt = n.t
            indom = cx.interp.map_dom(mp, n)
            posts = []
            if not isolated:
                posts.append(("row_present", indom))
                if isinstance(w, Con):
                    want = DEM(nt) - S_IN(nt, cx.t(nin)) + S_OUT(nt, cx.t(nout)) + (LEAK_RATE(nt) if leak_status else 0)
                    posts.append(("row_is_demand_minus_inflow_plus_outflow_plus_leak", w.term.t == want))
                else:
                    posts.append(("row_is_demand_minus_inflow_plus_outflow_plus_leak", False))
            else:
                posts.append(("no_row_when_isolated", z3.Not(indom) if not isinstance(indom, bool) else (not indom)))
            posts.append(("frame_only_own_row", frame_ok(cx.path, [mp], n)))
            posts.append(("updater_tracks_leak_status_and_isolation", updater_registered(upd, node, ["leak_status", "_is_isolated"], builder)))
            return posts
        cx.ensure(post)
    return Case("%s,leak=%s,isolated=%s,existing=%s" % (builder.__name__, leak_status, isolated, existing), build, crosscheck=False)


def _mb_fixed_case(builder, demand_field, leak_status, n_in, n_out):
    """companion of the prefix-sum cases that does not depend on how the loops over the links are written: a junction with `n_in` inlet and `n_out`
    outlet links given as plain lists (the loops are unrolled), each link an arbitrary link with an arbitrary isolation flag of its own"""
    dictname = "mass_balance" if builder is constraint.mass_balance_constraint else "pdd_mass_balance"
    DEM = EXP_DEMAND if demand_field == "expected_demand" else DEMAND

    def build(cx):
        n = cx.name("n")
        kind_facts(cx, n, Junction)
        ins = [cx.name("inlet%d" % i) for i in range(n_in)]
        outs = [cx.name("outlet%d" % i) for i in range(n_out)]
        for l in ins + outs:
            cx.assume(IS_L(cx.t(l)))
        import itertools
        for a, b in itertools.combinations(ins + outs, 2):
            cx.assume(cx.t(a) != cx.t(b))
        node = mk_node(cx, Junction, n, _leak_status=leak_status, _is_isolated=False)
        wn = WN()
        wn.nodes.append((n, node))
        wn.inlet[n.t.get_id()] = list(ins)
        wn.outlet[n.t.get_id()] = list(outs)
        wn.generic_link = lambda name: cx.obj(Pipe, _link_name=name, _is_isolated=SV(LINK_IS_ISOLATED(name.t), "bool"), _flow=None)
        m = mk_model(cx)
        upd = Updater()
        cx.target(builder.build, m, wn, upd, GenericIter([n]))

        def post(out):
            if not out.returned:
                return []
            mp, w = row_of(m, dictname, n)
            want = DEM(n.t) - sum((FLOW(l.t) for l in ins), z3.RealVal(0)) + sum((FLOW(l.t) for l in outs), z3.RealVal(0)) + (LEAK_RATE(n.t) if leak_status else 0)
            return [("row_is_demand_minus_every_inlet_flow_plus_every_outlet_flow_plus_leak", (w.term.t == want) if isinstance(w, Con) else False)]
        cx.ensure(post)
    return Case("%s,leak=%s,%d_inlets,%d_outlets" % (builder.__name__, leak_status, n_in, n_out), build, crosscheck=False)


def _mb_loop_specs(builder, DEM):
    qual = "wntr.sim.models.constraint:%s.build" % builder.__name__

    def inv_in(loc, k, seq):
        nt = loc["node_name"].t
        e = loc["expr"]
        e = e.value if isinstance(e, Leaf) else e
        return [("expr_is_demand_minus_prefix_inflow", e.t == DEM(nt) - S_IN(nt, k))]

    def defs_in(loc, k, seq):
        nt = loc["node_name"].t
        return [S_IN(nt, k + 1) == S_IN(nt, k) + FLOW(INL(nt, k))]

    def defs_out(loc, k, seq):
        nt = loc["node_name"].t
        return [S_OUT(nt, k + 1) == S_OUT(nt, k) + FLOW(OUTL(nt, k))]

    def inv_out(loc, k, seq):
        nt = loc["node_name"].t
        e = loc["expr"]
        e = e.value if isinstance(e, Leaf) else e
        nin = seq_len_in[0]
        return [("expr_is_demand_minus_inflow_plus_prefix_outflow", e.t == DEM(nt) - S_IN(nt, nin()) + S_OUT(nt, k))]
    seq_len_in = [lambda: z3.Int("n_in")]
    # loop ordinals inside build(): 1 = outer for over index_over (concrete list, unrolled), 2 = INLET, 3 = OUTLET
    return {(qual, 2): for_seq_invariant(inv_in, havoc=["expr"], defs=defs_in),
            (qual, 3): for_seq_invariant(inv_out, havoc=["expr"], defs=defs_out)}


def _with_defs(spec):
    return spec


_mb_dd = [_mb_case(constraint.mass_balance_constraint, "expected_demand", ls, iso, ex)
          for ls in (False, True) for iso in (False, True) for ex in (False, True)]
_mb_pdd = [_mb_case(constraint.pdd_mass_balance_constraint, "demand", ls, iso, ex)
           for ls in (False, True) for iso in (False, True) for ex in (False, True)]


CONTRACTS = [
    Contract("wntr.sim.models.constraint:leak_constraint.build", ["C08", "C09"], _leak_cases, models=MODELS,
             pow_fn=amlmodel.aml_pow, total_arith=True, trusted=TRUST_AML),
    Contract("wntr.sim.models.constraint:pdd_constraint.build", ["C07", "C09"], _pdd_cases, models=MODELS,
             pow_fn=amlmodel.aml_pow, total_arith=True, trusted=TRUST_AML),
    Contract("wntr.sim.models.constraint:mass_balance_constraint/pdd_mass_balance_constraint.build (fixed numbers of links)", ["C01", "C08", "C09"],
             [_mb_fixed_case(b_, f_, lk, ni, no) for (b_, f_) in ((constraint.mass_balance_constraint, "expected_demand"), (constraint.pdd_mass_balance_constraint, "demand"))
              for lk in (False, True) for (ni, no) in ((2, 1), (0, 2), (1, 0))], models=MODELS, pow_fn=amlmodel.aml_pow, total_arith=True, trusted=TRUST_AML,
             note="structure-independent companion of the prefix-sum contracts below (which cover any number of links but are tied to the shape of the loops)"),
    Contract("wntr.sim.models.constraint:mass_balance_constraint.build", ["C01", "C08", "C09"], _mb_dd, models=MODELS,
             pow_fn=amlmodel.aml_pow, total_arith=True, trusted=TRUST_AML + ["get_links_for_node(n, INLET/OUTLET) enumerates in(n)/out(n) exactly once (contract proved in C14/C01 model.py)"],
             loop_specs=_mb_loop_specs(constraint.mass_balance_constraint, EXP_DEMAND)),
    Contract("wntr.sim.models.constraint:pdd_mass_balance_constraint.build", ["C01", "C08", "C09"], _mb_pdd, models=MODELS,
             pow_fn=amlmodel.aml_pow, total_arith=True, trusted=TRUST_AML + ["get_links_for_node contract (see above)"],
             loop_specs=_mb_loop_specs(constraint.pdd_mass_balance_constraint, DEMAND)),
]


# ------------------------------------------------------------------------------------------------
# C02 head-loss builders

from wntr.network.elements import Curve
from contracts.params import models_with_spline, poly, dpoly

G_ = 9.81


def spec_status(cls, user, internal):
    """status = f(user, internal): pipes and pumps are Closed iff the internal status is Closed, else the user
    status; valves: user Closed / Open dominate, otherwise the internal status."""
    from wntr.network.elements import Valve
    if issubclass(cls, Valve):
        if user == LinkStatus.Closed:
            return LinkStatus.Closed
        if user == LinkStatus.Open:
            return LinkStatus.Open
        return internal
    if internal == LinkStatus.Closed:
        return LinkStatus.Closed
    return user


def _link_env(cx, cls, user, internal, isolated, skind, ekind, extra=None):
    l, s, e = cx.name("l"), cx.name("s"), cx.name("e")
    for nm, k in ((s, skind), (e, ekind)):
        t = cx.t(nm)
        cx.assume(IS_J(t) == (k is Junction), IS_T(t) == (k is Tank), IS_R(t) == (k is Reservoir))
    cx.assume(IS_L(cx.t(l)))
    sn = mk_node(cx, skind, s)
    en = mk_node(cx, ekind, e)
    link = mk_link(cx, cls, l, sn, en, _user_status=user, _internal_status=internal, _is_isolated=isolated, **(extra or {}))
    wn = WN()
    wn.nodes += [(s, sn), (e, en)]
    wn.links.append((l, link))
    return l, s, e, sn, en, link, wn


def _heads(s, e, skind, ekind):
    hs = HEAD(s.t) if skind is Junction else SRC_HEAD(s.t)
    he = HEAD(e.t) if ekind is Junction else SRC_HEAD(e.t)
    return hs, he


def zabs(x):
    return z3.If(x >= 0, x, -x)


def zsign(x):
    return z3.If(x >= 0, z3.RealVal(1), z3.RealVal(-1))


def _link_builder_cases(builder, dictname, cls, is_predicates, spec_open, spec_active=None, statuses=None, kinds=None,
                        extra=None, props=("C02", "C09"), regions=None, requires=None):
    cases = []
    user_opts = statuses or [(LinkStatus.Open, LinkStatus.Active), (LinkStatus.Closed, LinkStatus.Active),
                             (LinkStatus.Open, LinkStatus.Closed)]
    kinds = kinds or [(Junction, Junction), (Tank, Junction), (Junction, Reservoir), (Reservoir, Tank)]
    for (user, internal) in user_opts:
        for isolated in (False, True):
            for (sk, ek) in kinds:
                for existing in (False, True):
                    if existing and (sk, ek) != kinds[0]:
                        continue

                    def build(cx, user=user, internal=internal, isolated=isolated, sk=sk, ek=ek, existing=existing):
                        ex = {k: (v(cx) if callable(v) else v) for k, v in (extra or {}).items()}
                        l, s, e, sn, en, link, wn = _link_env(cx, cls, user, internal, isolated, sk, ek, ex)
                        for pred in is_predicates:
                            cx.assume(pred(l.t))
                        if requires:
                            requires(cx, l, s, e, sk, ek)
                        m = mk_model(cx, existing=dictname if existing else None)
                        upd = Updater()
                        cx.target(builder.build, m, wn, upd, GenericIter([l]))
                        st = spec_status(cls, user, internal)

                        def post(out):
                            if not out.returned:
                                return []
                            mp, w = row_of(m, dictname, l)
                            posts = [("row_present", cx.interp.map_dom(mp, l))]
                            q = FLOW(l.t)
                            hs, he = _heads(s, e, sk, ek)
                            if not isinstance(w, Con):
                                return posts + [("row_written", False)]
                            cx._last_row = w
                            if st == LinkStatus.Closed or isolated:
                                posts.append(("closed_or_isolated_row_is_flow", w.term.t == q))
                            elif st == LinkStatus.Active and spec_active is not None:
                                for nm, g in spec_active(cx, w.term.t, q, hs, he, l, s, e, link, m):
                                    posts.append((nm, g))
                            else:
                                for nm, g in spec_open(cx, w.term.t, q, hs, he, l, s, e, link, m):
                                    posts.append((nm, g))
                            posts.append(("frame_only_own_row", frame_ok(cx.path, [mp], l)))
                            posts.append(("updater_tracks_status_and_isolation", updater_registered(upd, link, ["status", "_is_isolated"], builder)))
                            return posts
                        cx.ensure(post)
                    cases.append(Case("%s,user=%s,internal=%s,isolated=%s,%s->%s,existing=%s" % (
                        cls.__name__, user.name, internal.name, isolated, sk.__name__, ek.__name__, existing), build,
                        crosscheck=False, properties=props))
    return cases


def _pm(name, l):
    return fn(name, NameSort, R)(l.t)


# --- pipes --------------------------------------------------------------------------------------
def _hw_default_open(cx, row, q, hs, he, l, s, e, link, m):
    k, mk = _pm("hw_resistance", l), _pm("minor_loss", l)
    loss = zsign(q) * k * library.POW(zabs(q), real_val(1.852)) + real_val(1e-5) * library.SQRT(k) * q + zsign(q) * mk * q * q
    return [("row_is_Hs_minus_He_minus_HW_loss", row == hs - he - loss)]


def _hw_piecewise_open(cx, row, q, hs, he, l, s, e, link, m):
    k, mk = _pm("hw_resistance", l), _pm("minor_loss", l)
    f = m.fields
    a, b, c, d = [library.as_real(f["hw_" + x]) for x in "abcd"]
    q1, q2, mm = real_val(0.0002), real_val(0.0004), real_val(0.001)
    aq = zabs(q)
    minor = zsign(q) * mk * q * q
    hw = z3.If(aq <= q1, k * mm * q,
               z3.If(aq <= q2, k * (a * q * q * q + zsign(q) * b * q * q + c * q + zsign(q) * d),
                     zsign(q) * k * library.POW(aq, real_val(1.852))))
    posts = []
    for rn, rc in (("laminar_band", aq <= q1), ("smoothing_band", z3.And(aq > q1, aq <= q2)), ("hazen_williams", aq > q2)):
        posts.append(("row_is_Hs_minus_He_minus_piecewise_HW_loss:" + rn, z3.Implies(rc, row == hs - he - hw - minor)))
    return posts


# --- pumps --------------------------------------------------------------------------------------
def _power_pump_open(cx, row, q, hs, he, l, s, e, link, m):
    P_ = _pm("pump_power", l)
    return [("row_is_power_plus_dh_q_rho_g", row == P_ + (hs - he) * q * real_val(9.81 * 1000.0))]


ABC = {}


def _head_pump_models():
    mm = models_with_spline()
    from wntr.network.elements import HeadPump as HP

    def coeffs(interp, args, kw):
        # callee contract of get_head_curve_coefficients: returns (A, B, C) with A > 0, B >= 0, C > 0
        A, Bc, C = z3.Real("pumpA"), z3.Real("pumpB"), z3.Real("pumpC")
        interp.path.assume(z3.And(A > 0, Bc >= 0, C > 0))
        return (SV(A, "real"), SV(Bc, "real"), SV(C, "real"))
    mm.register(HP.get_head_curve_coefficients, coeffs,
                verified_by="wntr.network.elements:HeadPump.get_head_curve_coefficients (raises unless A>0, B>=0, C>0)")
    return mm


def _head_pump_open(cx, row, q, hs, he, l, s, e, link, m):
    A, Bc, C = z3.Real("pumpA"), z3.Real("pumpB"), z3.Real("pumpC")
    slope, q2 = real_val(-1e-11), real_val(1e-8)
    curve = A - Bc * library.POW(q, C)
    posts = []
    # C <= 1: line below 0, cubic on (0, 1e-8], the curve above
    posts.append(("C<=1:line_below_zero_flow", z3.Implies(z3.And(C <= 1, q <= 0), row == slope * q + A - he + hs)))
    posts.append(("C<=1:curve_above_smoothing_band", z3.Implies(z3.And(C <= 1, q > q2), row == curve - he + hs)))
    # the smoothing cubic on (0, 1e-8] joins the line at 0 and the curve at 1e-8 (continuity of the row in q)
    at = lambda x: z3.substitute(row, (q, x))
    w_ = cx._last_row
    if w_.branches is not None and len(w_.branches) == 3:
        cubic = w_.branches[1][1]
        posts.append(("C<=1:band_joins_line_at_zero", z3.Implies(C <= 1, z3.substitute(cubic, (q, z3.RealVal(0))) == A - he + hs)))
    posts.append(("C<=1:band_joins_curve_at_q2", z3.Implies(C <= 1, at(q2) == A - Bc * library.POW(q2, C) - he + hs)))
    # C > 1: line of slope -1e-11 up to q_bar where the curve's slope equals it, then the curve
    qbar = library.POW(slope / (-Bc * C), 1 / (C - 1))
    hbar = A - Bc * library.POW(qbar, C)
    posts.append(("C>1:line_below_qbar", z3.Implies(z3.And(C > 1, q <= qbar), row == slope * (q - qbar) + hbar - he + hs)))
    posts.append(("C>1:curve_above_qbar", z3.Implies(z3.And(C > 1, q > qbar), row == curve - he + hs)))
    return posts


# --- valves -------------------------------------------------------------------------------------
def _need_junction(which):
    def req(cx, l, s, e, sk, ek):
        pass
    return req


def _prv_active(cx, row, q, hs, he, l, s, e, link, m):
    return [("active_prv_holds_downstream_head_at_setting", row == he - _pm("valve_setting", l) - ELEV(e.t))]


def _psv_active(cx, row, q, hs, he, l, s, e, link, m):
    return [("active_psv_holds_upstream_head_at_setting", row == hs - _pm("valve_setting", l) - ELEV(s.t))]


def _fcv_active(cx, row, q, hs, he, l, s, e, link, m):
    return [("active_fcv_holds_flow_at_setting", row == q - _pm("valve_setting", l))]


def _tcv_active(cx, row, q, hs, he, l, s, e, link, m):
    r = _pm("tcv_resistance", l)
    return [("active_tcv_loss_is_odd_in_flow", row == zsign_strict(q) * r * q * q - hs + he)]


def zsign_strict(q):
    # the valve rows branch on f <= 0; both branches coincide at 0 because the loss is 0 there
    return z3.If(q <= 0, z3.RealVal(-1), z3.RealVal(1))


def _valve_open_even(cx, row, q, hs, he, l, s, e, link, m):
    # PRV / PSV: Hs - He = m q^2 as coded (reverse flow through an open PRV/PSV is closed by its status conditions)
    return [("open_valve_obeys_minor_loss", row == _pm("minor_loss", l) * q * q - hs + he)]


def _valve_open_odd(cx, row, q, hs, he, l, s, e, link, m):
    return [("open_valve_loss_is_odd_in_flow", row == zsign_strict(q) * _pm("minor_loss", l) * q * q - hs + he)]


VALVE_STATUSES = [(LinkStatus.Active, LinkStatus.Active), (LinkStatus.Active, LinkStatus.Open), (LinkStatus.Active, LinkStatus.Closed),
                  (LinkStatus.Open, LinkStatus.Active), (LinkStatus.Closed, LinkStatus.Active)]
JJ = [(Junction, Junction), (Tank, Junction), (Junction, Junction)]

_c02 = [
    Contract("wntr.sim.models.constraint:approx_hazen_williams_headloss_constraint.build", ["C02", "C09"],
             _link_builder_cases(constraint.approx_hazen_williams_headloss_constraint, "approx_hazen_williams_headloss", Pipe,
                                 [IS_PIPE], _hw_default_open),
             models=MODELS, pow_fn=amlmodel.aml_pow, total_arith=True, trusted=TRUST_AML),
    Contract("wntr.sim.models.constraint:piecewise_hazen_williams_headloss_constraint.build", ["C02", "C09"],
             _link_builder_cases(constraint.piecewise_hazen_williams_headloss_constraint, "piecewise_hazen_williams_headloss", Pipe,
                                 [IS_PIPE], _hw_piecewise_open),
             models=MODELS, pow_fn=amlmodel.aml_pow, total_arith=True, trusted=TRUST_AML),
    Contract("wntr.sim.models.constraint:power_pump_headloss_constraint.build", ["C02", "C09"],
             _link_builder_cases(constraint.power_pump_headloss_constraint, "power_pump_headloss", PowerPump,
                                 [IS_PPUMP], _power_pump_open),
             models=MODELS, pow_fn=amlmodel.aml_pow, total_arith=True, trusted=TRUST_AML),
    Contract("wntr.sim.models.constraint:head_pump_headloss_constraint.build", ["C02", "C09"],
             _link_builder_cases(constraint.head_pump_headloss_constraint, "head_pump_headloss", HeadPump,
                                 [], _head_pump_open),
             models=_head_pump_models, pow_fn=amlmodel.aml_pow, total_arith=True, trusted=TRUST_AML),
    Contract("wntr.sim.models.constraint:prv_headloss_constraint.build", ["C02", "C09"],
             _link_builder_cases(constraint.prv_headloss_constraint, "prv_headloss", PRValve, [IS_VALVE], _valve_open_even, _prv_active,
                                 statuses=VALVE_STATUSES, kinds=[(Junction, Junction), (Tank, Junction), (Reservoir, Junction)]),
             models=MODELS, pow_fn=amlmodel.aml_pow, total_arith=True,
             trusted=TRUST_AML + ["EPANET rule 219: the downstream node of a PRV is a junction (precondition)"]),
    Contract("wntr.sim.models.constraint:psv_headloss_constraint.build", ["C02", "C09"],
             _link_builder_cases(constraint.psv_headloss_constraint, "psv_headloss", PSValve, [IS_VALVE], _valve_open_even, _psv_active,
                                 statuses=VALVE_STATUSES, kinds=[(Junction, Junction), (Junction, Tank), (Junction, Reservoir)]),
             models=MODELS, pow_fn=amlmodel.aml_pow, total_arith=True,
             trusted=TRUST_AML + ["EPANET rule 219: the upstream node of a PSV is a junction (precondition)"]),
    Contract("wntr.sim.models.constraint:fcv_headloss_constraint.build", ["C02", "C09"],
             _link_builder_cases(constraint.fcv_headloss_constraint, "fcv_headloss", FCValve, [IS_VALVE], _valve_open_odd, _fcv_active,
                                 statuses=VALVE_STATUSES),
             models=MODELS, pow_fn=amlmodel.aml_pow, total_arith=True, trusted=TRUST_AML),
    Contract("wntr.sim.models.constraint:tcv_headloss_constraint.build", ["C02", "C09"],
             _link_builder_cases(constraint.tcv_headloss_constraint, "tcv_headloss", TCValve, [IS_VALVE, IS_TCV], _valve_open_odd, _tcv_active,
                                 statuses=VALVE_STATUSES),
             models=MODELS, pow_fn=amlmodel.aml_pow, total_arith=True, trusted=TRUST_AML),
]
CONTRACTS += _c02


# ------------------------------------------------------------------------------------------------
# lemmas over the builder ensures

def _c02_lemmas():
    q, q2, k, mk, hs, he = z3.Reals("q q2 k mk hs he")
    POW = library.POW
    e = real_val(1.852)

    def loss(x):
        return zsign(x) * k * POW(zabs(x), e) + real_val(1e-5) * library.SQRT(k) * x + zsign(x) * mk * x * x
    ax = [k > 0, mk >= 0, library.SQRT(k) >= 0, library.SQRT(k) * library.SQRT(k) == k,
          POW(zabs(q), e) >= 0, POW(zabs(q2), e) >= 0, z3.Implies(zabs(q) == 0, POW(zabs(q), e) == 0),
          z3.Implies(zabs(q2) == 0, POW(zabs(q2), e) == 0)]
    mono = [z3.Implies(zabs(q) < zabs(q2), POW(zabs(q), e) < POW(zabs(q2), e)),
            z3.Implies(zabs(q2) < zabs(q), POW(zabs(q2), e) < POW(zabs(q), e))]
    P_ = z3.Real("P")
    return [
        ("hw_loss_is_odd", ax + [q2 == -q], loss(q2) == -loss(q)),
        ("hw_loss_is_strictly_increasing", ax + mono + [q < q2], loss(q) < loss(q2)),
        ("open_pipe_flows_downhill", ax + [hs - he - loss(q) == 0], z3.And(z3.Implies(hs > he, q > 0), z3.Implies(hs < he, q < 0),
                                                                            z3.Implies(hs == he, q == 0))),
        ("power_pump_delivers_its_power", [P_ + (hs - he) * q * real_val(9810.0) == 0], (he - hs) * q * real_val(9810.0) == P_),
        ("closed_link_row_zero_means_zero_flow", [q == 0], q == 0),
    ]


LEMMAS = [Lemma("C02.head_flow_laws", ["C02"], _c02_lemmas,
                uses=["approx_hazen_williams_headloss_constraint.build#row_is_Hs_minus_He_minus_HW_loss", "power_pump_headloss_constraint.build#row_is_power_plus_dh_q_rho_g"],
                note="pow_ monotone in its base (axiom, instantiated at |q|, |q2|); k>0, minor loss >= 0 (is_valid of a pipe)")]


def _c01_lemmas():
    """From the mass-balance row contract and store_results: at a saved step the reported flows balance."""
    D, sin, sout, leak, tol, r = z3.Reals("D sin sout leak tol r")
    return [("junction_balance_within_tolerance",
             [r == D - sin + sout + leak, r < tol, r > -tol],
             z3.And(sin - sout - D - leak < tol, sin - sout - D - leak > -tol)),
            ("tank_demand_is_net_inflow_minus_leak", [z3.Real("tank_demand") == sin - sout - leak], z3.Real("tank_demand") + leak == sin - sout)]


LEMMAS.append(Lemma("C01.mass_balance", ["C01"], _c01_lemmas,
                    uses=["mass_balance_constraint.build#row_is_demand_minus_inflow_plus_outflow_plus_leak", "store_results_in_network"],
                    note="the residual of the row is below the solver tolerance when NewtonSolver reports converged (C16 contract)"))
