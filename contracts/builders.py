"""Contracts on the constraint builders of wntr.sim.models.constraint (C01, C02, C07, C08, C09).

Each builder's loop body is verified for an *arbitrary* element name (index_over = [n] with n symbolic):
the independent-iteration rule. Its side condition (the body writes only X[name] cells of the constraint
dict, calls updater.add, and reads nothing written by another iteration) is checked on the write log.
"""
import ast
import math
import types

import z3

from pyvc.core import Contract, Case
from pyvc.runner import Lemma, Bounded
from pyvc.values import SV, SymMap, SymSeq, SymObj, Leaf, NameSort, real_val
from pyvc import amlmodel, library
from pyvc.amlmodel import ModelStub, Con
from pyvc.loops import for_seq_invariant

from wntr.sim.models import constraint, constants, param
from wntr.network import LinkStatus
from wntr.network.elements import (Junction, Tank, Reservoir, Pipe, HeadPump, PowerPump, PRValve, PSValve, FCValve,
                                   TCValve)

from contracts._net import (WN, Updater, pmap, mk_node, mk_link, options, written_value, fn, R, B,
                            FLOW, HEAD, SRC_HEAD, DEMAND, EXP_DEMAND, LEAK_RATE, ELEV, IS_J, IS_T, IS_R, IS_L)

IS_PIPE = fn("is_pipe", NameSort, B)
IS_VALVE = fn("is_valve", NameSort, B)
IS_TCV = fn("is_tcv", NameSort, B)
IS_PPUMP = fn("is_power_pump", NameSort, B)


def _or(*ps):
    return lambda k: z3.Or(*[p(k) for p in ps])


def mk_model(cx, existing=None):
    """Symbolic aml model with the key domains create_hydraulic_model gives its dictionaries."""
    JT = _or(IS_J, IS_T)
    f = dict(
        flow=pmap("flow", IS_L), head=pmap("head", IS_J), source_head=pmap("source_head", _or(IS_T, IS_R)),
        demand=pmap("demand", IS_J), expected_demand=pmap("expected_demand", IS_J), leak_rate=pmap("leak_rate", JT),
        elevation=pmap("elevation", IS_J), pmin=pmap("pmin", IS_J), pnom=pmap("pnom", IS_J),
        leak_area=pmap("leak_area", JT), leak_coeff=pmap("leak_coeff", JT),
        hw_resistance=pmap("hw_resistance", IS_PIPE), minor_loss=pmap("minor_loss", _or(IS_PIPE, IS_VALVE)),
        tcv_resistance=pmap("tcv_resistance", IS_TCV), pump_power=pmap("pump_power", IS_PPUMP),
        valve_setting=pmap("valve_setting", IS_VALVE),
    )
    for p in "abcd":
        f["leak_poly_coeffs_" + p] = pmap("leak_poly_" + p, JT)
        f["pdd_poly1_coeffs_" + p] = pmap("pdd_poly1_" + p, IS_J)
        f["pdd_poly2_coeffs_" + p] = pmap("pdd_poly2_" + p, IS_J)
    m = cx.obj(ModelStub, **f)
    # the code's own constants, by running the real functions on the stub
    for cf in (constants.hazen_williams_constants, constants.head_pump_constants, constants.leak_constants,
               constants.pdd_constants):
        cx.interp.call(cf, [m])
    if existing:
        d0 = fn("prev_dom_" + existing, NameSort, B)
        m.fields[existing] = SymMap(lambda k: d0(k.t), lambda k: Con(SV(z3.Real("old_row"), "real")), label=existing)
    return m


def kind_facts(cx, n, cls):
    t = cx.t(n)
    cx.assume(IS_J(t) == (cls is Junction), IS_T(t) == (cls is Tank), IS_R(t) == (cls is Reservoir))


def frame_ok(path, allowed_maps, key):
    """independent-iteration frame: every map write of the body is at exactly `key` of an allowed map."""
    for (obj, k, v) in path.writes:
        if isinstance(obj, SymMap):
            if obj not in allowed_maps:
                return False
            if not (isinstance(k, SV) and k.t.eq(key.t)):
                return False
    return True


def row_of(m, field, n):
    mp = m.fields.get(field)
    if mp is None:
        return None, None
    return mp, written_value(mp, n)


def updater_registered(upd, obj, attrs):
    got = {(id(o), a) for (o, a, f) in upd.calls}
    return all((id(obj), a) in got for a in attrs)


MODELS = amlmodel.build_models
TRUST_AML = ["wntr.sim.aml: expressions denote real arithmetic (ite chain for ConditionalExpression, sign(0)=+1); "
             "a Param is read by reference at solve time (DESIGN 2.5) — Python half under C15 contracts, C++ half bounded",
             "WaterNetworkModel.get_node/get_link return the registered element (RegInv, C14)"]


# ------------------------------------------------------------------------------------------------
# C08 leak_constraint

def leak_lambda(p, a, b, c, d, cd, area, delta=1e-4, slope=1e-11):
    """Spec from the property text: 0 below zero pressure (slope 1e-11 regularisation), smoothing cubic on the
    0.1 mm band, Cd*A*sqrt(2 g p) above."""
    return z3.If(p <= 0, real_val(slope) * p,
                 z3.If(p <= real_val(delta), a * p * p * p + b * p * p + c * p + d,
                       cd * area * library.SQRT(real_val(2.0 * 9.81) * p)))


def _leak_case(cls, leak_status, isolated, existing):
    def build(cx):
        n = cx.name("n")
        kind_facts(cx, n, cls)
        node = mk_node(cx, cls, n, _leak_status=leak_status, _is_isolated=isolated,
                       _elevation=cx.real("tank_elev") if cls is Tank else 0.0)
        wn = WN()
        wn.nodes.append((n, node))
        m = mk_model(cx, existing="leak_con" if existing else None)
        upd = Updater()
        cx.target(constraint.leak_constraint.build, m, wn, upd, [n])

        def post(out):
            if not out.returned:
                return []
            mp, w = row_of(m, "leak_con", n)
            posts = []
            nt = n.t
            active = leak_status and not isolated
            indom = cx.interp.map_dom(mp, n)
            if active:
                posts.append(("row_present", indom))
                if isinstance(w, Con):
                    h = (HEAD(nt) if cls is Junction else SRC_HEAD(nt))
                    elev = ELEV(nt) if cls is Junction else cx.t(node.fields["_elevation"])
                    p = h - elev
                    g = lambda s: fn(s, NameSort, R)(nt)
                    lam = leak_lambda(p, g("leak_poly_a"), g("leak_poly_b"), g("leak_poly_c"), g("leak_poly_d"),
                                      g("leak_coeff"), g("leak_area"))
                    posts.append(("row_is_leak_minus_lambda_of_pressure", w.term.t == LEAK_RATE(nt) - lam))
                else:
                    posts.append(("row_is_leak_minus_lambda_of_pressure", False))
            else:
                posts.append(("no_row_when_inactive_or_isolated", z3.Not(indom) if not isinstance(indom, bool) else (not indom)))
            posts.append(("frame_only_own_row", frame_ok(cx.path, [mp], n)))
            posts.append(("updater_tracks_leak_status_and_isolation", updater_registered(upd, node, ["leak_status", "_is_isolated"])))
            return posts
        cx.ensure(post)
    return Case("%s,leak=%s,isolated=%s,existing=%s" % (cls.__name__, leak_status, isolated, existing), build, crosscheck=False)


_leak_cases = [_leak_case(c, ls, iso, ex) for c in (Junction, Tank) for ls in (True, False) for iso in (False, True)
               for ex in (False, True)]

# ------------------------------------------------------------------------------------------------
# C07 pdd_constraint


def pdd_ghat(p, p0, pf, e, a1, b1, c1, d1, a2, b2, c2, d2, delta=0.05, slope=1e-11):
    """The five-branch delivered fraction documented for PDD (branch guards as in the documentation):
    slope*(p-P0) below P0, cubic 1 on the lower band, ((p-P0)/(Pf-P0))^e, cubic 2 on the upper band, 1+slope*(p-Pf)."""
    dl = real_val(delta)
    sl = real_val(slope)
    mid = library.POW((p - p0) / (pf - p0), e) if not (isinstance(e, float) and e == 0.5) else library.SQRT((p - p0) / (pf - p0))
    return z3.If(p <= p0, sl * (p - p0),
                 z3.If(p <= p0 + dl, a1 * p * p * p + b1 * p * p + c1 * p + d1,
                       z3.If(p <= pf - dl, mid,
                             z3.If(p <= pf, a2 * p * p * p + b2 * p * p + c2 * p + d2, sl * (p - pf) + 1))))


def _pdd_case(isolated, exp_mode, existing):
    def build(cx):
        n = cx.name("n")
        kind_facts(cx, n, Junction)
        eg = cx.real("e_global")
        if exp_mode == "node":
            en = cx.real("e_node")
        elif exp_mode == "half":
            en = None
            eg = 0.5
        else:
            en = None
        node = mk_node(cx, Junction, n, _is_isolated=isolated, _pressure_exponent=en)
        wn = WN(options=options(cx, pressure_exponent=eg))
        wn.nodes.append((n, node))
        m = mk_model(cx, existing="pdd" if existing else None)
        upd = Updater()
        cx.target(constraint.pdd_constraint.build, m, wn, upd, [n])

        def post(out):
            if not out.returned:
                return []
            mp, w = row_of(m, "pdd", n)
            nt = n.t
            indom = cx.interp.map_dom(mp, n)
            posts = []
            if not isolated:
                posts.append(("row_present", indom))
                if isinstance(w, Con):
                    g = lambda s: fn(s, NameSort, R)(nt)
                    p = HEAD(nt) - ELEV(nt)
                    e = cx.t(en) if exp_mode == "node" else (0.5 if exp_mode == "half" else cx.t(eg))
                    gh = pdd_ghat(p, g("pmin"), g("pnom"), e, g("pdd_poly1_a"), g("pdd_poly1_b"), g("pdd_poly1_c"),
                                  g("pdd_poly1_d"), g("pdd_poly2_a"), g("pdd_poly2_b"), g("pdd_poly2_c"), g("pdd_poly2_d"))
                    dl = real_val(0.05)
                    p0, pf = g("pmin"), g("pnom")
                    regions = [("below_pmin", p <= p0), ("lower_band", z3.And(p > p0, p <= p0 + dl)),
                               ("power_law", z3.And(p > p0 + dl, p <= pf - dl)), ("upper_band", z3.And(p > pf - dl, p <= pf)),
                               ("above_preq", p > pf)]
                    for rn, rc in regions:
                        posts.append(("row_is_d_minus_D_times_ghat:" + rn,
                                      z3.Implies(rc, w.term.t == DEMAND(nt) - EXP_DEMAND(nt) * gh)))
                else:
                    posts.append(("row_is_d_minus_D_times_ghat", False))
            else:
                posts.append(("no_row_when_isolated", z3.Not(indom) if not isinstance(indom, bool) else (not indom)))
            posts.append(("frame_only_own_row", frame_ok(cx.path, [mp], n)))
            posts.append(("updater_tracks_isolation", updater_registered(upd, node, ["_is_isolated"])))
            return posts
        cx.ensure(post)
    return Case("isolated=%s,exponent=%s,existing=%s" % (isolated, exp_mode, existing), build, crosscheck=False)


_pdd_cases = [_pdd_case(iso, em, ex) for iso in (False, True) for em in ("node", "global", "half") for ex in (False, True)]


# ------------------------------------------------------------------------------------------------
# C01 mass balance builders

S_IN = fn("sum_in", NameSort, z3.IntSort(), R)      # S_IN(n,k)  = sum_{i<k} flow(inl(n,i))
S_OUT = fn("sum_out", NameSort, z3.IntSort(), R)
INL = fn("inlet_link", NameSort, z3.IntSort(), NameSort)
OUTL = fn("outlet_link", NameSort, z3.IntSort(), NameSort)


def _seq(n, f, length, label):
    return SymSeq(length, lambda i: SV(f(n.t, i), "name"), label=label, facts=lambda i: [IS_L(f(n.t, i))])


def _mb_case(builder, demand_field, leak_status, isolated, existing):
    dictname = "mass_balance" if builder is constraint.mass_balance_constraint else "pdd_mass_balance"
    DEM = EXP_DEMAND if demand_field == "expected_demand" else DEMAND
    qual = "wntr.sim.models.constraint:%s.build" % builder.__name__

    def build(cx):
        n = cx.name("n")
        kind_facts(cx, n, Junction)
        nin, nout = cx.int("n_in"), cx.int("n_out")
        cx.assume(cx.t(nin) >= 0, cx.t(nout) >= 0)
        node = mk_node(cx, Junction, n, _leak_status=leak_status, _is_isolated=isolated)
        wn = WN()
        wn.nodes.append((n, node))
        wn.inlet[n.t.get_id()] = _seq(n, INL, nin, "inlet")
        wn.outlet[n.t.get_id()] = _seq(n, OUTL, nout, "outlet")
        m = mk_model(cx, existing=dictname if existing else None)
        upd = Updater()
        # definitional axioms of the prefix sums (spec functions)
        cx.path.assume(S_IN(n.t, 0) == 0)
        cx.path.assume(S_OUT(n.t, 0) == 0)
        cx.n = n
        cx.target(builder.build, m, wn, upd, [n])

        def post(out):
            if not out.returned:
                return []
            mp, w = row_of(m, dictname, n)
            nt = n.t
            indom = cx.interp.map_dom(mp, n)
            posts = []
            if not isolated:
                posts.append(("row_present", indom))
                if isinstance(w, Con):
                    want = DEM(nt) - S_IN(nt, cx.t(nin)) + S_OUT(nt, cx.t(nout)) + (LEAK_RATE(nt) if leak_status else 0)
                    posts.append(("row_is_demand_minus_inflow_plus_outflow_plus_leak", w.term.t == want))
                else:
                    posts.append(("row_is_demand_minus_inflow_plus_outflow_plus_leak", False))
            else:
                posts.append(("no_row_when_isolated", z3.Not(indom) if not isinstance(indom, bool) else (not indom)))
            posts.append(("frame_only_own_row", frame_ok(cx.path, [mp], n)))
            posts.append(("updater_tracks_leak_status_and_isolation", updater_registered(upd, node, ["leak_status", "_is_isolated"])))
            return posts
        cx.ensure(post)
    return Case("%s,leak=%s,isolated=%s,existing=%s" % (builder.__name__, leak_status, isolated, existing), build, crosscheck=False)


def _mb_loop_specs(builder, DEM):
    qual = "wntr.sim.models.constraint:%s.build" % builder.__name__

    def inv_in(loc, k, seq):
        nt = loc["node_name"].t
        e = loc["expr"]
        e = e.value if isinstance(e, Leaf) else e
        return [("expr_is_demand_minus_prefix_inflow", e.t == DEM(nt) - S_IN(nt, k))]

    def defs_in(loc, k, seq):
        nt = loc["node_name"].t
        return [S_IN(nt, k + 1) == S_IN(nt, k) + FLOW(INL(nt, k))]

    def defs_out(loc, k, seq):
        nt = loc["node_name"].t
        return [S_OUT(nt, k + 1) == S_OUT(nt, k) + FLOW(OUTL(nt, k))]

    def inv_out(loc, k, seq):
        nt = loc["node_name"].t
        e = loc["expr"]
        e = e.value if isinstance(e, Leaf) else e
        nin = seq_len_in[0]
        return [("expr_is_demand_minus_inflow_plus_prefix_outflow", e.t == DEM(nt) - S_IN(nt, nin()) + S_OUT(nt, k))]
    seq_len_in = [lambda: z3.Int("n_in")]
    # loop ordinals inside build(): 1 = outer for over index_over (concrete list, unrolled), 2 = INLET, 3 = OUTLET
    return {(qual, 2): for_seq_invariant(inv_in, havoc=["expr"], defs=defs_in),
            (qual, 3): for_seq_invariant(inv_out, havoc=["expr"], defs=defs_out)}


def _with_defs(spec):
    return spec


_mb_dd = [_mb_case(constraint.mass_balance_constraint, "expected_demand", ls, iso, ex)
          for ls in (False, True) for iso in (False, True) for ex in (False, True)]
_mb_pdd = [_mb_case(constraint.pdd_mass_balance_constraint, "demand", ls, iso, ex)
           for ls in (False, True) for iso in (False, True) for ex in (False, True)]


CONTRACTS = [
    Contract("wntr.sim.models.constraint:leak_constraint.build", ["C08", "C09"], _leak_cases, models=MODELS,
             pow_fn=amlmodel.aml_pow, total_arith=True, trusted=TRUST_AML),
    Contract("wntr.sim.models.constraint:pdd_constraint.build", ["C07", "C09"], _pdd_cases, models=MODELS,
             pow_fn=amlmodel.aml_pow, total_arith=True, trusted=TRUST_AML),
    Contract("wntr.sim.models.constraint:mass_balance_constraint.build", ["C01", "C08", "C09"], _mb_dd, models=MODELS,
             pow_fn=amlmodel.aml_pow, total_arith=True, trusted=TRUST_AML + ["get_links_for_node(n, INLET/OUTLET) enumerates in(n)/out(n) exactly once (contract proved in C14/C01 model.py)"],
             loop_specs=_mb_loop_specs(constraint.mass_balance_constraint, EXP_DEMAND)),
    Contract("wntr.sim.models.constraint:pdd_mass_balance_constraint.build", ["C01", "C08", "C09"], _mb_pdd, models=MODELS,
             pow_fn=amlmodel.aml_pow, total_arith=True, trusted=TRUST_AML + ["get_links_for_node contract (see above)"],
             loop_specs=_mb_loop_specs(constraint.pdd_mass_balance_constraint, DEMAND)),
]
