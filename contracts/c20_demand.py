"""C01 / C20 — the demand chain: Pattern.at, TimeSeries.at, Demands.at, expected_demand_param, demand_var.

Spec vocabulary (written from the property text "base value x pattern multiplier at that time x global
demand multiplier"):
  M(i)            i-th multiplier of a pattern, n = number of multipliers, ts = pattern timestep
  mult(t)         the pattern multiplier at time t: 1 (empty), M(0) (single), M((t div ts) mod n) (wrap, no
                  interpolation), linear interpolant (interpolation), 0 outside (no wrap)
  TSAT(i, t)      value of the i-th demand entry (TimeSeries) at t
"""
import types

import z3

from pyvc.core import Contract, Case
from pyvc.runner import Lemma, Bounded
from pyvc.values import GenericIter
from pyvc.values import SV, SymObj, SymSeq, SymMap, NativeModel, Leaf, NameSort, real_val, name_const
from pyvc import library, amlmodel
from pyvc.library import SIGMA, sigma_unfold
from pyvc.loops import for_seq_invariant
from pyvc.amlmodel import ModelStub

from wntr.network.elements import Pattern, TimeSeries, Demands, Junction
from wntr.sim.models import param, var
from contracts._net import WN, mk_node, options, fn, R, B, IS_J

I = z3.IntSort()
MUL = fn("M", I, R)               # multipliers of the pattern under contract
P = ["C01", "C20"]


# ------------------------------------------------------------------------------------------------
# Pattern.at

def spec_mult(t, n, ts, wrap, interp_on):
    """pattern multiplier at time t (ints), written from the documentation of Pattern."""
    step = t / ts            # z3 integer division == floor for ts > 0
    k = step % n
    if wrap:
        if interp_on:
            nxt = z3.If(k + 1 == n, MUL(0), MUL(k + 1))
            frac = (z3.ToReal(t) - z3.ToReal(step * ts)) / z3.ToReal(ts)
            body = MUL(k) + (nxt - MUL(k)) * frac
        else:
            body = MUL(k)
    else:
        body = z3.If(z3.Or(step < 0, step >= n), z3.RealVal(0), MUL(step))
    return z3.If(n == 0, z3.RealVal(1), z3.If(n == 1, MUL(0), body))


def _pattern_case(wrap, interp_on, ts_mode):
    def build(cx):
        t, n = cx.int("t"), cx.int("n")
        ts = cx.int("ts") if ts_mode == "sym" else ts_mode
        cx.assume(cx.t(n) >= 0, cx.t(t) >= 0)
        if ts_mode == "sym":
            cx.assume(cx.t(ts) > 0)
        mults = SymSeq(n, lambda i: SV(MUL(i if not isinstance(i, int) else z3.IntVal(i)), "real"), label="multipliers")
        topts = cx.obj(types.SimpleNamespace, pattern_timestep=ts, pattern_interpolation=interp_on, pattern_start=0)
        self_ = cx.obj(Pattern, name="P", _multipliers=mults, _time_options=topts, wrap=wrap)
        cx.target(Pattern.at, self_, t)

        def post(out):
            if not out.returned:
                return []
            T, N = cx.t(t), cx.t(n)
            TS = cx.t(ts) if ts_mode == "sym" else z3.IntVal(ts)
            r = library.as_real(out.value)
            return [("multiplier_is_pattern_value_at_time", r == spec_mult(T, N, TS, wrap, interp_on))]
        cx.ensure(post)
    return Case("wrap=%s,interpolation=%s,timestep=%s" % (wrap, interp_on, ts_mode), build, crosscheck=False)


_pattern_cases = [_pattern_case(w, ip, ts) for w in (True, False) for ip in (False, True) for ts in (3600, 1, "sym")
                  if not (ip and not w and ts != 3600)]


def _pattern_no_timeopts_case():
    def build(cx):
        t, n = cx.int("t"), cx.int("n")
        cx.assume(cx.t(n) >= 0, cx.t(t) >= 0)
        mults = SymSeq(n, lambda i: SV(MUL(i if not isinstance(i, int) else z3.IntVal(i)), "real"), label="multipliers")
        self_ = cx.obj(Pattern, name="P", _multipliers=mults, _time_options=None, wrap=True)
        cx.target(Pattern.at, self_, t)
        cx.allow_raise(RuntimeError, cx.t(n) >= 2)

        def post(out):
            N = cx.t(n)
            if not out.returned:
                return [("refuses_only_a_multi_value_pattern_without_time_options", N >= 2)]
            r = library.as_real(out.value)
            return [("constant_patterns_need_no_time_options", z3.And(N <= 1, r == z3.If(N == 0, z3.RealVal(1), MUL(0))))]
        cx.ensure(post)
    return Case("no_time_options", build, crosscheck=False)


# ------------------------------------------------------------------------------------------------
# TimeSeries.at   (callee contract of Pattern.at: returns PMULT(t), == 1 for an empty pattern)

PMULT = fn("pattern_mult_at", I, R)


class PatReg(NativeModel):
    """Contract view of the PatternRegistry (C14): lookup by name gives the registered pattern, None for a falsy key."""

    def __init__(self, table):
        self.table = table

    def __getitem__(self, key):
        if key is None:
            return None
        for k, v in self.table:
            if k is key or (isinstance(k, SV) and isinstance(key, SV) and k.t.eq(key.t)):
                return v
        return None


def _pattern_at_contract(interp, args, kw):
    self_, t = args[0], args[1]
    n = library.as_int(self_.fields["_multipliers"].length)
    r = PMULT(library.as_int(t))
    interp.path.assume(z3.Implies(n == 0, r == 1))
    return SV(r, "real")


def _ts_models():
    m = library.build_models()
    m.register(Pattern.at, _pattern_at_contract, verified_by="wntr.network.elements:Pattern.at#multiplier_is_pattern_value_at_time")
    return m


def _timeseries_case(has_pattern):
    def build(cx):
        t, b = cx.int("t"), cx.real("base")
        cx.assume(cx.t(t) >= 0)
        if has_pattern:
            n = cx.int("n")
            cx.assume(cx.t(n) >= 0)
            pname = cx.name("pat")
            cx.assume(cx.t(pname) != name_const(""))
            pat = cx.obj(Pattern, name=pname, _multipliers=SymSeq(n, lambda i: SV(MUL(i), "real")), _time_options=None, wrap=True)
            reg = PatReg([(pname, pat)])
        else:
            pname, reg = None, PatReg([])
        self_ = cx.obj(TimeSeries, _base=b, _pattern=pname, _pattern_reg=reg, _category=None)
        cx.target(TimeSeries.at, self_, t)

        def post(out):
            if not out.returned:
                return []
            r = library.as_real(out.value)
            # an empty pattern means "multiplier 1" (Pattern.at's contract for n == 0)
            want = cx.t(b) * z3.If(cx.t(n) == 0, z3.RealVal(1), PMULT(cx.t(t))) if has_pattern else cx.t(b)
            return [("value_is_base_times_pattern_multiplier", r == want)]
        cx.ensure(post)
    return Case("pattern=%s" % has_pattern, build, crosscheck=False)


# a time series over its life: built by its constructor, evaluated, given another pattern and another base value, evaluated again

PM2 = fn("pattern_mult_of", I, I, R)


def _ts_history_models():
    m = library.build_models()

    def pattern_at(interp, args, kw):
        self_, t = args[0], args[1]
        return SV(PM2(z3.IntVal(self_.fields["_id"]), library.as_int(t)), "real")
    m.register(Pattern.at, pattern_at, verified_by="wntr.network.elements:Pattern.at#multiplier_is_pattern_value_at_time")
    return m


def _ts_history_aml_models():
    return amlmodel.register(_ts_history_models())


def _make_and_use(reg, base, p1, p2, base2, t):
    ts = TimeSeries(reg, base, p1, None)
    v1 = ts.at(t)
    ts.pattern_name = p2
    v2 = ts.at(t)
    ts.base_value = base2
    v3 = ts.at(t)
    ts.pattern_name = None
    v4 = ts.at(t)
    return v1, v2, v3, v4


def _timeseries_history_case():
    def build(cx):
        from wntr.network.base import Registry

        class Reg(PatReg, Registry):
            def __init__(self, table):
                PatReg.__init__(self, table)
        t, b, b2 = cx.int("t"), cx.real("base"), cx.real("new_base")
        cx.assume(cx.t(t) >= 0)
        n1, n2 = cx.name("pattern1"), cx.name("pattern2")
        cx.assume(cx.t(n1) != name_const(""), cx.t(n2) != name_const(""), cx.t(n1) != cx.t(n2))
        pats = [cx.obj(Pattern, name=nm, _id=i + 1, _multipliers=[1.0], _time_options=None, wrap=True) for i, nm in enumerate((n1, n2))]
        reg = Reg([(n1, pats[0]), (n2, pats[1])])
        cx.target(_make_and_use, reg, b, n1, n2, b2, t)

        def post(out):
            if not out.returned:
                return []
            v1, v2, v3, v4 = [library.as_real(v) for v in out.value]
            T = cx.t(t)
            return [("first_value_follows_the_pattern_given_at_construction", v1 == cx.t(b) * PM2(1, T)),
                    ("after_the_pattern_name_is_changed_the_value_follows_the_new_pattern", v2 == cx.t(b) * PM2(2, T)),
                    ("after_the_base_value_is_changed_the_value_uses_the_new_base", v3 == cx.t(b2) * PM2(2, T)),
                    ("after_the_pattern_is_removed_the_value_is_the_base_value", v4 == cx.t(b2))]
        cx.ensure(post)
    return Case("constructed,evaluated,pattern_changed,base_changed,pattern_removed", build, crosscheck=False)


# ------------------------------------------------------------------------------------------------
# Demands.at  (callee contract of TimeSeries.at: returns TSAT(i, t))

TSAT = fn("demand_entry_at", I, I, R)
CAT = fn("category_of", I, NameSort)


def _ts_at_contract(interp, args, kw):
    self_, t = args[0], args[1]
    return SV(TSAT(self_.fields["_idx"].t, library.as_int(t)), "real")


def _dem_models():
    m = library.build_models()
    m.register(TimeSeries.at, _ts_at_contract, verified_by="wntr.network.elements:TimeSeries.at#value_is_base_times_pattern_multiplier")
    return m


def _entries(nd):
    def elem(i):
        i = z3.IntVal(i) if isinstance(i, int) else i
        return SymObj(TimeSeries, dict(_idx=SV(i, "int"), _category=SV(CAT(i), "name")), label="demand entry")
    return SymSeq(nd, elem, label="demand entries")


def _total(t, mult, cat=None):
    """Sigma_i [category matches] TSAT(i, t) * multiplier, as a prefix-sum spec function."""
    def summand(i):
        body = TSAT(i, t) * mult
        if cat is not None:
            body = z3.If(CAT(i) == cat, body, z3.RealVal(0))
        return body
    return library.PrefixSum("total_demand_prefix", summand)


def _demands_case(with_category):
    def build(cx):
        t, nd, mult = cx.int("t"), cx.int("nd"), cx.real("multiplier")
        cx.assume(cx.t(t) >= 0, cx.t(nd) >= 0)
        cat = None
        if with_category:
            cat = cx.name("cat")
            cx.assume(cx.t(cat) != name_const(""))
        self_ = cx.obj(Demands, _list=_entries(nd), _pattern_reg=None)
        cx.target(Demands.at, self_, t, cat, mult)

        def post(out):
            if not out.returned:
                return []
            r = library.as_real(out.value)
            tot = _total(cx.t(t), cx.t(mult), cx.t(cat) if with_category else None)
            return [("total_is_sum_over_entries_of_value_times_multiplier", r == tot.at(cx.t(nd)))]
        cx.ensure(post)
    return Case("category=%s" % with_category, build, crosscheck=False)


def _dem_loop_specs():
    q = "wntr.network.elements:Demands.at"

    def mk(with_cat):
        def inv(loc, k, seq):
            tot = _total(library.as_int(loc["time"]), library.as_real(loc["multiplier"]),
                         loc["category"].t if with_cat else None)
            return [("demand_is_prefix_sum", library.as_real(loc["demand"]) == tot.at(k))]

        def defs(loc, k, seq):
            tot = _total(library.as_int(loc["time"]), library.as_real(loc["multiplier"]),
                         loc["category"].t if with_cat else None)
            return tot.defs(k)
        return for_seq_invariant(inv, havoc=["demand"], defs=defs)
    return {(q, 1): mk(True), (q, 2): mk(False)}


# a demand list built through its constructor (three entries: with / without pattern, with / without category) and queried: independent of how the
# loop inside Demands.at is written (the prefix-sum proof above is for any number of entries but is tied to the loop's shape)

def _build_and_query(reg, e0, e1, e2, t, cat, mult):
    d = Demands(reg, e0, e1)
    d.append(e2)
    return d.at(t, cat, mult), len(d)


def _demands_built_case(query):
    def build(cx):
        from wntr.network.base import Registry

        class Reg(PatReg, Registry):
            def __init__(self, table):
                PatReg.__init__(self, table)
                self.default_pattern = None
        t, mult = cx.int("t"), cx.real("multiplier")
        cx.assume(cx.t(t) >= 0)
        b = [cx.real("base%d" % i) for i in range(3)]
        n1, n2, c1, c2 = cx.name("pattern1"), cx.name("pattern2"), cx.name("category1"), cx.name("category2")
        for x in (n1, n2, c1, c2):
            cx.assume(cx.t(x) != name_const(""))
        cx.assume(cx.t(n1) != cx.t(n2), cx.t(c1) != cx.t(c2))
        pats = [cx.obj(Pattern, name=nm, _id=i + 1, _multipliers=[1.0], _time_options=None, wrap=True) for i, nm in enumerate((n1, n2))]
        reg = Reg([(n1, pats[0]), (n2, pats[1])])
        cat = {"all": None, "category1": c1, "category2": c2}[query]
        cx.target(_build_and_query, reg, (b[0], n1, c1), (b[1], None, c2), (b[2], n2, None), t, cat, mult)

        def post(out):
            if not out.returned:
                return []
            total, n = out.value
            T, M = cx.t(t), cx.t(mult)
            v = [cx.t(b[0]) * PM2(1, T) * M, cx.t(b[1]) * M, cx.t(b[2]) * PM2(2, T) * M]
            want = {"all": v[0] + v[1] + v[2], "category1": v[0], "category2": v[1]}[query]
            return [("three_entries_held", n == 3),
                    ("total_is_the_sum_over_the_matching_entries_of_base_times_pattern_multiplier_times_demand_multiplier", library.as_real(total) == want)]
        cx.ensure(post)
    return Case("three_entries,query=%s" % query, build, crosscheck=False)


# ------------------------------------------------------------------------------------------------
# expected_demand_param / demand_var: value for junction n == Demands.at(sim_time + pattern_start, multiplier)

DEMAT = fn("demands_at", NameSort, I, R, R)   # callee contract of Demands.at for junction n


class DemList(NativeModel):
    def __init__(self, n):
        self.n = n

    def at(self, time, category=None, multiplier=1):
        assert category is None
        return SV(DEMAT(self.n.t, library.as_int(time), library.as_real(multiplier)), "real")


class WNJ(WN):
    def junctions(self):
        return [(nm, o) for nm, o in self.nodes if o.cls is Junction]


def _build_then_param(reg, e0, e1, node, m, wn):
    # harness text: the junction's demand list is built through the real constructor, then the parameter is (re)built
    node._demand_timeseries_list = Demands(reg, e0, e1)
    param.expected_demand_param(m, wn)


def _expected_demand_built_case(existing):
    """structure-independent companion: a junction whose FIRST demand entry is constant (no pattern) and whose second follows a pattern;
    the parameter - at creation and at every later update - is the sum of both at simulation time + pattern start"""
    def build(cx):
        from wntr.network.base import Registry

        class Reg(PatReg, Registry):
            def __init__(self, table):
                PatReg.__init__(self, table)
                self.default_pattern = None
        n = cx.name("n")
        st, ps, dm = cx.int("sim_time"), cx.int("pattern_start"), cx.real("demand_multiplier")
        cx.assume(cx.t(st) >= 0, cx.t(ps) >= 0)
        b0, b1 = cx.real("base0"), cx.real("base1")
        n1, c1 = cx.name("pattern1"), cx.name("category1")
        cx.assume(cx.t(n1) != name_const(""), cx.t(c1) != name_const(""))
        pat = cx.obj(Pattern, name=n1, _id=1, _multipliers=[1.0], _time_options=None, wrap=True)
        reg = Reg([(n1, pat)])
        node = mk_node(cx, Junction, n, _demand_timeseries_list=None)
        from contracts._net import time_options
        opts = cx.obj(types.SimpleNamespace, hydraulic=cx.obj(types.SimpleNamespace, demand_multiplier=dm, demand_model="DD"),
                      time=time_options(cx, pattern_start=ps))
        wn = WNJ(options=opts)
        wn.sim_time = st
        wn.nodes.append((n, node))
        from contracts.params import leafmap
        m = cx.obj(ModelStub, **({"expected_demand": leafmap("expected_demand", True)} if existing else {}))
        cx.target(_build_then_param, reg, (b0, None, c1), (b1, n1, None), node, m, wn)

        def post(out):
            if not out.returned:
                return []
            leaf = cx.interp.getitem(m.fields["expected_demand"], n)
            val = leaf.value if isinstance(leaf, Leaf) else leaf
            T, M = cx.t(st) + cx.t(ps), cx.t(dm)
            return [("requested_demand_is_the_sum_of_the_constant_and_the_patterned_entry_at_simtime_plus_pattern_start",
                     library.as_real(val) == cx.t(b0) * M + cx.t(b1) * PM2(1, T) * M)]
        cx.ensure(post)
    return Case("constant_first_entry_patterned_second,existing=%s" % existing, build, crosscheck=False)


def _expected_demand_case(kind, existing):
    def build(cx):
        n = cx.name("n")
        st, ps, dm = cx.int("sim_time"), cx.int("pattern_start"), cx.real("demand_multiplier")
        cx.assume(cx.t(st) >= 0, cx.t(ps) >= 0)
        node = mk_node(cx, Junction, n, _demand_timeseries_list=DemList(n))
        from contracts._net import time_options
        opts = cx.obj(types.SimpleNamespace, hydraulic=cx.obj(types.SimpleNamespace, demand_multiplier=dm, demand_model="DD"),
                      time=time_options(cx, pattern_start=ps))
        wn = WNJ(options=opts)
        wn.sim_time = st
        wn.nodes.append((n, node))
        field = "expected_demand" if kind == "param" else "demand"
        from contracts.params import leafmap
        m = cx.obj(ModelStub, **({field: leafmap(field, True)} if existing else {}))
        before = cx.interp.getitem(m.fields[field], n) if existing else None
        if kind == "param":
            cx.target(param.expected_demand_param, m, wn)
        else:
            cx.target(var.demand_var, m, wn, GenericIter([n]))

        def post(out):
            if not out.returned:
                return []
            mp = m.fields[field]
            leaf = cx.interp.getitem(mp, n)
            val = leaf.value if isinstance(leaf, Leaf) else leaf
            want = DEMAT(n.t, cx.t(st) + cx.t(ps), cx.t(dm))
            ok_frame = all((not isinstance(o, SymMap)) or (o is mp and k.t.eq(n.t)) for (o, k, v) in cx.path.writes)
            return [("requested_demand_is_demands_at_simtime_plus_pattern_start_times_multiplier", library.as_real(val) == want),
                    ("frame_only_own_entry", ok_frame)] + \
                ([("an_existing_parameter_is_updated_in_place_the_object_the_rows_refer_to_stays", leaf is before)] if existing and kind == "param" else [])
        cx.ensure(post)
    return Case("%s,existing=%s" % (kind, existing), build, crosscheck=False)


# ------------------------------------------------------------------------------------------------
# source_head_param: the fixed head of a tank is its current head; of a reservoir its head pattern at sim_time + pattern_start

HEADAT = fn("head_timeseries_at", NameSort, I, R)


class HeadTS(NativeModel):
    def __init__(self, n):
        self.n = n

    def at(self, time):
        return SV(HEADAT(self.n.t, library.as_int(time)), "real")


class WNS(WN):
    def tanks(self):
        return [(nm, o) for nm, o in self.nodes if o.cls.__name__ == "Tank"]

    def reservoirs(self):
        return [(nm, o) for nm, o in self.nodes if o.cls.__name__ == "Reservoir"]


def _source_head_case(existing):
    def build(cx):
        from wntr.network.elements import Tank, Reservoir
        from contracts._net import time_options
        from contracts.params import leafmap
        tn, rn = cx.name("tank"), cx.name("reservoir")
        cx.assume(cx.t(tn) != cx.t(rn))
        st, ps, th = cx.int("sim_time"), cx.int("pattern_start"), cx.real("tank_head")
        cx.assume(cx.t(st) >= 0, cx.t(ps) >= 0)
        tank = mk_node(cx, Tank, tn, _head=th)
        res = mk_node(cx, Reservoir, rn, _head_timeseries=HeadTS(rn))
        wn = WNS(options=cx.obj(types.SimpleNamespace, time=time_options(cx, pattern_start=ps)))
        wn.sim_time = st
        wn.nodes.extend([(tn, tank), (rn, res)])
        m = cx.obj(ModelStub, **({"source_head": leafmap("source_head", True)} if existing else {}))
        before = {k: cx.interp.getitem(m.fields["source_head"], k) for k in (tn, rn)} if existing else {}
        cx.target(param.source_head_param, m, wn)

        def post(out):
            if not out.returned:
                return []
            mp = m.fields["source_head"]

            def val(k):
                leaf = cx.interp.getitem(mp, k)
                return library.as_real(leaf.value if isinstance(leaf, Leaf) else leaf)
            return [("tank_source_head_is_its_current_head", val(tn) == cx.t(th)),
                    ("reservoir_source_head_is_its_head_pattern_at_simulation_time_plus_pattern_start", val(rn) == HEADAT(rn.t, cx.t(st) + cx.t(ps)))] + \
                ([("existing_parameters_are_updated_in_place_the_objects_the_rows_refer_to_stay", all(cx.interp.getitem(mp, k) is before[k] for k in (tn, rn)))] if existing else [])
        cx.ensure(post)
    return Case("existing=%s" % existing, build, crosscheck=False)


CONTRACTS = [
    Contract("wntr.sim.models.param:source_head_param", ["C01", "C02", "C03", "C06"], [_source_head_case(e) for e in (False, True)],
             models=amlmodel.build_models, trusted=["aml.Param(v) is a box holding v (DESIGN 2.5)", "TimeSeries.at (this file)"]),
    Contract("wntr.network.elements:Pattern.at", P, _pattern_cases + [_pattern_no_timeopts_case()],
             note="times and the pattern timestep are integers (seconds)"),
    Contract("wntr.network.elements:Demands built through its constructor, then at()", P, [_demands_built_case(q_) for q_ in ("all", "category1", "category2")],
             models=_ts_history_models, interpret_always=(_build_and_query, Demands, TimeSeries),
             note="three entries with symbolic base values; complements the prefix-sum contract of Demands.at (any number of entries, tied to the loop's shape)"),
    Contract("wntr.network.elements:TimeSeries.__init__/at/pattern_name/base_value over its life", P + ["C11"], [_timeseries_history_case()], models=_ts_history_models,
             interpret_always=(_make_and_use, TimeSeries)),
    Contract("wntr.network.elements:TimeSeries.at", P, [_timeseries_case(True), _timeseries_case(False)], models=_ts_models,
             trusted=["PatternRegistry lookup returns the registered pattern (C14)"]),
    Contract("wntr.network.elements:Demands.at", P, [_demands_case(False), _demands_case(True)], models=_dem_models,
             loop_specs=_dem_loop_specs()),
    Contract("wntr.sim.models.param:expected_demand_param", ["C01"], [_expected_demand_case("param", e) for e in (False, True)],
             models=amlmodel.build_models, trusted=["aml.Param(v) is a box holding v (DESIGN 2.5)"]),
    Contract("wntr.sim.models.param:expected_demand_param (demand list built through its constructor)", ["C01", "C20"],
             [_expected_demand_built_case(e) for e in (False, True)], models=_ts_history_aml_models,
             interpret_always=(_build_then_param, Demands, TimeSeries), trusted=["aml.Param(v) is a box holding v (DESIGN 2.5)"]),
    Contract("wntr.sim.models.var:demand_var", ["C01"], [_expected_demand_case("var", False)],
             models=amlmodel.build_models, trusted=["aml.Var(v) is a box holding v (DESIGN 2.5)"]),
]


# ------------------------------------------------------------------------------------------------
# lemma: composition of the three contracts gives the formula of the property (inductive step of the sum)

def _demand_formula_lemma():
    t, k, mult = z3.Int("t"), z3.Int("k"), z3.Real("mult")
    BASE = fn("base_of", I, R)
    PM = fn("mult_of_pattern_of", I, I, R)
    code = _total(t, mult)
    spec = library.PrefixSum("sum_base_pattern_multiplier", lambda i: BASE(i) * PM(i, t) * mult)
    hyp = [TSAT(k, t) == BASE(k) * PM(k, t)] + code.defs(k) + spec.defs(k)     # TimeSeries.at ensures, entry k
    return [("total_demand_is_sum_base_times_pattern_times_multiplier:base", hyp, code.at(0) == spec.at(0)),
            ("total_demand_is_sum_base_times_pattern_times_multiplier:step", hyp + [code.at(k) == spec.at(k)],
             code.at(k + 1) == spec.at(k + 1))]


LEMMAS = [Lemma("C01.demand_formula", P, _demand_formula_lemma,
                uses=["Demands.at#total_is_sum_over_entries_of_value_times_multiplier", "TimeSeries.at#value_is_base_times_pattern_multiplier",
                      "Pattern.at#multiplier_is_pattern_value_at_time"],
                note="induction over the number of demand entries (base + step)")]
