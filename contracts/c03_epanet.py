"""C03 — WNTRSimulator and EpanetSimulator agree (partial claim).

What a contract can decide here
  * BinFile.read's conversion block (`if convert: ... else: ...`): the block is cut mechanically out of the current source of
    BinFile.read on every run (pyvc.extract: the statement's own lines, wrapped in a def over the locals it reads; dropped:
    the binary parsing and DataFrame assembly before it and the epilogue after it) and executed symbolically for an
    arbitrary (report time, element) entry of every result table, for each of the ten flow units: every reported quantity
    is the raw EPANET value times the factor of *its own* physical quantity (spec constants written from the property /
    EPANET's documented output units, not read from the code), per link type, and the status code table maps EPANET's
    eight status codes onto Closed/Open/Active.  The util._to_si functions it calls are the real ones (also under C17).
  * The unit-independence argument is then a lemma over contracts: the INP writer converts every SI attribute with
    from_si(U, ., P) (C12 pairing contracts), EPANET computes in unit system U, BinFile converts back with to_si(U, ., P') and
    P' is the parameter of the same physical quantity (this contract); to_si(U) o from_si(U) = id (C17).  EPANET itself being
    unit-equivariant is an assumption on an external binary.
Bounded stand-ins (labelled; never counted as proved): see BOUNDED below - they run the EPANET 2.2 library shipped in
  the repository (a prebuilt binary: external, trusted).
Not decided by any contract: that two independent numerical solvers agree (a whole-program differential property).
"""
import ast
import math
import os
import types

import z3

from pyvc.core import Contract, Case
from pyvc.runner import Bounded, Lemma
from pyvc.values import SV, NativeModel, real_val
from pyvc import library
from pyvc.extract import extract_block

import numpy as np
import pandas as pd
import wntr
import wntr.epanet.io as eio
from wntr.epanet.util import FlowUnits, HydParam, QualParam, QualType, MassUnits, EN
from contracts.c17_units import FLOW_SPEC, FT, PSI, TRAD

P = ["C03"]


def _pick_convert_block(fdef):
    for n in ast.walk(fdef):
        if isinstance(n, ast.If) and isinstance(n.test, ast.Name) and n.test.id == "convert":
            return n
    return None


BLOCK, BLOCK_INFO = extract_block(eio.BinFile.read, _pick_convert_block, "convert_block")


# ---------------------------------------------------------------------------- array stubs: one arbitrary entry of a table

class GMask(NativeModel):
    """boolean array seen through the same arbitrary entry; elementwise | & ~"""

    def __init__(self, t):
        self.t = t

    def __or__(self, o):
        return GMask(z3.Or(self.t, o.t))

    def __and__(self, o):
        return GMask(z3.And(self.t, o.t))

    def __xor__(self, o):
        return GMask(z3.Xor(self.t, o.t))

    def __invert__(self):
        return GMask(z3.Not(self.t))


class GArr(NativeModel):
    """An array / DataFrame seen through one arbitrary entry `v` (row = report time, column = element).
    Arithmetic is elementwise; comparisons give masks; `a[mask] = x` and `a[:, mask] = x` assign where the mask holds."""

    def __init__(self, interp, v, kind="real"):
        self.I, self.v, self.kind = interp, v, kind

    def _wrap(self, v):
        return GArr(self.I, v, self.kind)

    def _val(self, o):
        return o.v if isinstance(o, GArr) else o

    def __mul__(self, o):
        return self._wrap(self.I.binop(ast.Mult, self.v, self._val(o)))

    def __rmul__(self, o):
        return self._wrap(self.I.binop(ast.Mult, self._val(o), self.v))

    def __truediv__(self, o):
        return self._wrap(self.I.binop(ast.Div, self.v, self._val(o)))

    def __rtruediv__(self, o):
        return self._wrap(self.I.binop(ast.Div, self._val(o), self.v))

    def __add__(self, o):
        return self._wrap(self.I.binop(ast.Add, self.v, self._val(o)))

    __radd__ = __add__

    def __sub__(self, o):
        return self._wrap(self.I.binop(ast.Sub, self.v, self._val(o)))

    def _cmp(self, op, o):
        r = self.I.compare(op, self.v, self._val(o))
        return GMask(library.truth(r) if isinstance(r, SV) else z3.BoolVal(bool(r)))

    def __lt__(self, o):
        return self._cmp(ast.Lt, o)

    def __le__(self, o):
        return self._cmp(ast.LtE, o)

    def __gt__(self, o):
        return self._cmp(ast.Gt, o)

    def __ge__(self, o):
        return self._cmp(ast.GtE, o)

    def __eq__(self, o):
        return self._cmp(ast.Eq, o)

    __hash__ = object.__hash__

    @staticmethod
    def _mask(idx):
        if isinstance(idx, GMask):
            return idx
        if isinstance(idx, tuple) and len(idx) == 2 and isinstance(idx[0], slice) and idx[0] == slice(None) and isinstance(idx[1], GMask):
            return idx[1]          # a[:, column_mask]
        raise TypeError("unsupported index on the array stub: %r" % (idx,))

    def __getitem__(self, idx):
        m = self._mask(idx)
        out = self._wrap(self.v)
        out.under = m
        return out

    def __setitem__(self, idx, val):
        m = self._mask(idx)
        if isinstance(val, GArr) and getattr(val, "under", None) is not None and not val.under.t.eq(m.t):
            raise TypeError("values selected under one mask assigned under another")
        nv = self._val(val)
        self.v = SV(z3.If(m.t, library.as_real(nv), library.as_real(self.v)), "real")


class Frame(NativeModel):
    def __init__(self, interp, raw):
        self.I, self.raw = interp, raw

    def __getitem__(self, key):
        return GArr(self.I, self.raw[key])


NODE_KEYS = ["demand", "head", "pressure", "quality"]
LINK_KEYS = ["flow", "velocity", "headloss", "linkquality", "linkstatus", "linksetting", "reactionrate", "frictionfactor"]


def _models():
    m = library.build_models()

    def np_array(interp, args, kw):
        a = args[0]
        if isinstance(a, GArr):
            return GArr(a.I, a.v, a.kind)       # np.array(df[...]) copies
        return interp._native(np.array, args, kw)
    m.register(np.array, np_array, trusted="np.array(DataFrame) is an elementwise copy")

    def data_frame(interp, args, kw):
        return kw["data"]
    m.register(pd.DataFrame, data_frame, trusted="pd.DataFrame(data=a, columns=, index=) holds the entries of a")
    return m


def _spec(fu):
    trad = fu.name in TRAD
    flow = real_val(float(FLOW_SPEC[fu.name]))
    length = real_val(float(FT)) if trad else real_val(1.0)
    pres = real_val(float(PSI)) if trad else real_val(1.0)
    return flow, length, pres


def _close(a, b, rel=1e-8):
    """|a - b| <= rel * |b| for the linear terms compared here (b = k * raw): checked as equality of a with k' * raw, k' within rel of k"""
    return z3.And(a - b <= real_val(rel) * z3.If(b >= 0, b, -b), b - a <= real_val(rel) * z3.If(b >= 0, b, -b))


def _convert_case(fu, convert):
    def build(cx):
        native = cx.mode == "native"
        raw = {k: cx.real("raw_" + k) for k in NODE_KEYS + LINK_KEYS}
        lt = cx.int("linktype")
        if not native:
            st0 = cx.t(raw["linkstatus"])
            cx.assume(z3.And(st0 >= 0, st0 <= 7, z3.IsInt(st0)))
            cx.assume(cx.t(lt) >= 0, cx.t(lt) <= 8)       # CVPIPE, PIPE, PUMP, PRV, PSV, PBV, FCV, TCV, GPV
            df = Frame(cx.interp, raw)
            linktype = GArr(cx.interp, lt, "int")
        else:
            # replay on the real code: a one-row table per value type, one node and one link, real pandas / numpy
            cols = [(k, "N") for k in NODE_KEYS] + [(k, "L") for k in LINK_KEYS]
            df = pd.DataFrame([[float(raw[k]) for k, _ in cols]], index=[0], columns=pd.MultiIndex.from_tuples(cols, names=["value", "name"]))
            linktype = np.array([int(lt)], dtype=np.int32)
        res = types.SimpleNamespace(node={}, link={}, network_name=None)     # initialised just before the block
        reader = types.SimpleNamespace(results=res, flow_units=fu, quality_type=QualType.none, mass_units=MassUnits.mg,
                                       convert_status=True, inp_file="net.inp")
        params = BLOCK_INFO["parameters"]
        vals = dict(self=reader, df=df, linktype=linktype, linknames=["L"], reporttimes=[0], darcy_weisbach=False, convert=convert)
        cx.target(BLOCK, *[vals[p] for p in params])

        def post(out):
            if not out.returned:
                return []
            node, link = res.node, res.link
            tables_ok = set(node) == {"demand", "head", "pressure", "quality"} and \
                set(link) == {"flowrate", "velocity", "headloss", "status", "setting", "quality", "friction_factor", "reaction_rate"}
            trad = fu.name in TRAD
            f_flow, f_len, f_pres = (float(FLOW_SPEC[fu.name]), float(FT) if trad else 1.0, float(PSI) if trad else 1.0) if convert else (1.0, 1.0, 1.0)
            if native:
                def val(x):
                    return float(np.asarray(x).ravel()[0])
                R = lambda k: float(raw[k])
                close = lambda a, b: bool(abs(a - b) <= 1e-8 * abs(b))
                LT, st = int(lt), R("linkstatus")
                want_status = (0 if st <= 2 else 1 if st == 3 else 2 if st == 4 else 1) if convert else st
                hl = (R("headloss") / 1000 if LT < 2 else R("headloss") * f_len) if convert else R("headloss")
                eq = lambda a, b: bool(a == b)
                K = float
            else:
                def val(x):
                    return library.as_real(x.v if isinstance(x, GArr) else x)
                R = lambda k: cx.t(raw[k])
                close = _close
                LT, st = cx.t(lt), R("linkstatus")
                want_status = z3.If(st <= 2, 0, z3.If(st == 3, 1, z3.If(st == 4, 2, 1))) if convert else st
                hl = z3.If(LT < 2, R("headloss") / 1000, R("headloss") * real_val(f_len)) if convert else R("headloss")
                eq = lambda a, b: a == b
                K = real_val
            return [("demand_is_the_raw_value_in_the_file_flow_unit", close(val(node["demand"]), R("demand") * K(f_flow))),
                    ("head_is_the_raw_value_in_feet_or_metres", close(val(node["head"]), R("head") * K(f_len))),
                    ("pressure_is_the_raw_value_in_psi_or_metres", close(val(node["pressure"]), R("pressure") * K(f_pres))),
                    ("flowrate_is_the_raw_value_in_the_file_flow_unit", close(val(link["flowrate"]), R("flow") * K(f_flow))),
                    ("velocity_is_the_raw_value_in_feet_or_metres_per_second", close(val(link["velocity"]), R("velocity") * K(f_len))),
                    ("headloss_per_1000_for_pipes_and_in_length_units_for_pumps_and_valves", close(val(link["headloss"]), hl)),
                    ("status_codes_0_to_2_closed_3_open_4_active_5_to_7_open", eq(val(link["status"]), want_status)),
                    ("every_result_table_present", tables_ok)]
        cx.ensure(post)
    return Case("%s,convert=%s" % (fu.name, convert), build, crosscheck=True, sample=_sample, native_compare=_native_posts_hold)


def _native_posts_hold(cx, outcome, cxn, out_n, subs):
    """engine cross-check: every postcondition has the same truth value on the symbolic path (under the sampled inputs) and on the
    real pandas / numpy run of the block"""
    if out_n.kind != "return" or outcome.kind != "return":
        return out_n.kind == outcome.kind
    nat = dict(cxn.post_fn(out_n))
    for nm, g in cx.post_fn(outcome):
        if not isinstance(g, bool):
            g = z3.simplify(z3.substitute(g, *subs)) if subs else z3.simplify(g)
            if not (z3.is_true(g) or z3.is_false(g)):
                return None
            g = z3.is_true(g)
        if bool(nat[nm]) != g:
            return False
    return True


def _sample(rng):
    a = {"raw_" + k: rng.choice([0.0, 1.0, -2.5, 137.25, 1e-3, 4321.0]) for k in NODE_KEYS + LINK_KEYS}
    a["raw_linkstatus"] = float(rng.randrange(0, 8))
    a["linktype"] = rng.randrange(0, 9)
    return a


_units = [FlowUnits.CFS, FlowUnits.GPM, FlowUnits.MGD, FlowUnits.IMGD, FlowUnits.AFD, FlowUnits.LPS, FlowUnits.LPM, FlowUnits.MLD,
          FlowUnits.CMH, FlowUnits.CMD]

CONTRACTS = [
    Contract("wntr.epanet.io:BinFile.read[convert_block]", P + ["C02"], [_convert_case(fu, True) for fu in _units] + [_convert_case(FlowUnits.GPM, False)], models=_models,
             note="extracted block: %s lines %d-%d (%s); parameters %s; one arbitrary entry of every table, arbitrary link type; link 'setting', "
                  "quality and reaction-rate tables are not specified here (not in the property's list)" % (
                      BLOCK_INFO["enclosing"], BLOCK_INFO["first_line"], BLOCK_INFO["last_line"], BLOCK_INFO["dropped"], BLOCK_INFO["parameters"]),
             trusted=["the binary layout parsing and DataFrame assembly before the block (df[name] is the table of that value type): "
                      "bounded stand-in C03.binfile_vs_toolkit", "numpy boolean-mask assignment and elementwise arithmetic (array stub)"]),
]


# ---------------------------------------------------------------------------- lemma: independence of the INP flow-unit system

def _unit_lemma():
    x, kp, kq, kq2 = z3.Reals("x kP kQ kQ_read")
    E_si = z3.Function("epanet_SI", z3.RealSort(), z3.RealSort())
    E_u = z3.Function("epanet_U", z3.RealSort(), z3.RealSort())
    w = z3.Real("written")
    hyp = [kp > 0, kq > 0,
           w * kp == x,                              # writer: from_si(U, x, P) (C12 pairing contracts; C17: from_si = 1/kP)
           E_u(w) * kq == E_si(x),                   # assumption (external binary): EPANET is equivariant under its unit systems
           kq2 == kq]                                # this file's contract: BinFile reads quantity Q with the factor of Q (C17: to_si = kQ)
    return [("to_si(U, EPANET_U(from_si(U, x))) = EPANET_SI(x) for every unit system U", hyp, E_u(w) * kq2 == E_si(x))]


LEMMAS = [Lemma("C03.unit_independence", P, _unit_lemma,
                uses=["wntr.epanet.io:BinFile.read[convert_block]#*", "wntr.epanet.util:HydParam._to_si/_from_si#*#physical_constant",
                      "wntr.epanet.io:InpFile._write_*/_read_*#* (C12 pairing contracts)"],
                note="EPANET's equivariance under its own unit systems is an assumption on an external binary; bounded stand-in C03.unit_independence")]


# ---------------------------------------------------------------------------- bounded stand-ins (real EPANET 2.2 library)

def _shard(fname, i, n):
    def run(tier, seed):
        from bounded import c03_differential as D
        return getattr(D, fname)(tier, seed, i, n)
    return run


KIND = "differential on listed networks against the EPANET 2.2 library shipped in the repository (not exhaustive)"
BOUNDED = ([Bounded("C03.binfile_vs_toolkit[%d/4]" % i, P, _shard("binfile_vs_toolkit", i, 4), kind=KIND) for i in range(4)] +
           [Bounded("C03.unit_independence[%d/4]" % i, P, _shard("unit_independence", i, 4), kind=KIND) for i in range(4)] +
           [Bounded("C03.reader_validation[%d/3]" % i, P, _shard("reader_validation", i, 3), kind=KIND) for i in range(3)] +
           [Bounded("C03.wntr_vs_epanet[%d/3]" % i, P, _shard("wntr_vs_epanet", i, 3), kind=KIND) for i in range(3)])
