"""C12 — INP write / read round trip.

Bounded stand-in (text layer incl. formatting / parsing): every enumerated feature model and example network is written
in each of the ten flow-unit systems and in both INP versions, read back and compared attribute by attribute through
the semantic view of bounded/models.py (what an INP file can carry according to the property statement); a second
write/read cycle must change nothing; rule condition trees over AND/OR are enumerated to depth 2.
Deductive core: conversion pairing of the section writers/readers (see the contracts below).
"""
import copy
import os
import re
import warnings

from pyvc.runner import Bounded

P = ["C12"]
UNITS = ["CFS", "GPM", "MGD", "IMGD", "AFD", "LPS", "LPM", "MLD", "CMH", "CMD"]
PDA_KEYS = ("demand_model", "minimum_pressure", "required_pressure", "pressure_exponent", "headerror", "flowchange")     # EPANET 2.2-only options
NUM = re.compile(r"-?\d+\.\d+(?:[eE][-+]?\d+)?|-?\d+[eE][-+]?\d+")


def _round_numbers(s):
    """numbers inside control / rule texts to 5 significant digits: the precision the INP control syntax carries"""
    return NUM.sub(lambda m: "%.5g" % float(m.group(0)), s)


def _prepare(view, version):
    v = copy.deepcopy(view)
    ctl = []
    import json
    for c in v["controls"]:
        d = json.loads(c)
        if any("LEAK_STATUS" in a for a in d.get("then_actions", [])):
            continue                       # leaks are WNTR-only (outside the statement)
        ctl.append(_round_numbers(json.dumps(d, sort_keys=True)))
    v["controls"] = sorted(ctl)
    hyd = v["options"].get("hydraulic", {})
    if version == 2.0:
        for k in PDA_KEYS:
            hyd.pop(k, None)
        # the 2.0 format has no overflow column in [TANKS] (nor PDA options): what that format cannot carry is outside the statement
        nodes_ = v.get("nodes", {})
        for n_ in (nodes_.values() if isinstance(nodes_, dict) else nodes_):
            if isinstance(n_, dict):
                n_.pop("overflow", None)
    # MINIMUM / REQUIRED PRESSURE are written with two decimals (psi or m): compare at that precision
    for k in ("minimum_pressure", "required_pressure"):
        if isinstance(hyd.get(k), (int, float)):
            hyd[k] = round(hyd[k] / 0.01) * 0.01 if False else hyd[k]
    v["_two_decimal_options"] = {k: hyd.pop(k) for k in ("minimum_pressure", "required_pressure") if k in hyd}
    return v


def _run(shard, nshards):
    def run(tier, seed):
        import sys
        root = os.path.dirname(os.path.dirname(os.path.abspath(__file__)))
        sys.path.insert(0, root)
        from bounded import models as M
        from pyvc.runner import known_bounded
        import wntr
        warnings.simplefilter("ignore")
        import logging
        logging.disable(logging.CRITICAL)
        evals, distinct, failures, samples, known = 0, set(), [], [], []
        scratch = os.path.join(root, ".scratch")
        os.makedirs(scratch, exist_ok=True)
        fn = os.path.join(scratch, "c12_%d_%d.inp" % (os.getpid(), shard))
        work = [(name, wn, None) for name, wn in M.all_models(tier)] + [("rule_tree:" + s, wn, s) for s, wn in M.rule_tree_models()]
        idx = 0
        try:
            for name, wn, shape in work:
                v0 = M.inp_view(wn)
                unit_list = UNITS if shape is None else ["LPS", "GPM"]
                for units in unit_list:
                    for version in ((2.2, 2.0) if shape is None else (2.2,)):
                        idx += 1
                        if idx % nshards != shard:
                            continue
                        key = "C12.round_trip[%s]" % name
                        try:
                            wntr.network.write_inpfile(wn, fn, units=units, version=version)
                            w2 = wntr.network.read_inpfile(fn)
                            v1 = M.inp_view(w2)
                            wntr.network.write_inpfile(w2, fn, units=units, version=version)
                            w3 = wntr.network.read_inpfile(fn)
                            v2 = M.inp_view(w3)
                        except Exception as e:
                            kf = known_bounded("C12", key)
                            if kf is not None:
                                known.append("%s [%s %s %s: %s]" % (kf["what_fails"][:150], name, units, version, type(e).__name__))
                            else:
                                failures.append(dict(model=name, units=units, version=version, raised=repr(e)[:200]))
                            continue
                        evals += 1
                        distinct.add((name, units, version))
                        a, b, c = _prepare(v0, version), _prepare(v1, version), _prepare(v2, version)
                        for sect_tol in (("options", 2e-4),):
                            pass
                        df = []
                        for part in a:
                            tol = 2e-4 if part == "options" else 2e-6
                            df += M.diff(a[part], b.get(part), path="/" + part, tol=tol, limit=8)
                        for k, x in a.get("_two_decimal_options", {}).items():
                            y = b.get("_two_decimal_options", {}).get(k)
                            if y is None or abs(x - y) > 0.005:        # half a unit of the second decimal, in metres (1 psi = 0.703 m)
                                df.append(("/options/hydraulic/" + k, x, y))
                        a.pop("_two_decimal_options", None)
                        df = [d_ for d_ in df if not d_[0].startswith("/_two_decimal_options")]
                        df2 = []
                        for part in b:
                            df2 += M.diff(b[part], c.get(part), path="/" + part, tol=1e-9 if part != "options" else 1e-7, limit=8)
                        if shape is not None:
                            # the condition tree itself (AND/OR structure) must survive
                            t0 = repr(wn.get_control("r_tree").condition)
                            t1 = repr(w2.get_control("r_tree").condition)
                            s0 = re.sub(r"[^(),A-Za-z]", "", re.sub(r"<[^>]*>", "x", t0))
                            s1 = re.sub(r"[^(),A-Za-z]", "", re.sub(r"<[^>]*>", "x", t1))
                            if s0 != s1:
                                df.append(("/rule condition tree", s0, s1))
                        if df or df2:
                            kf = known_bounded("C12", key)
                            if kf is not None:
                                known.append("%s [%s %s %s]" % (kf["what_fails"][:150], name, units, version))
                            else:
                                failures.append(dict(model=name, units=units, version=version,
                                                     first_cycle=[(p_, repr(x)[:70], repr(y)[:70]) for p_, x, y in df[:5]],
                                                     second_cycle=[(p_, repr(x)[:70], repr(y)[:70]) for p_, x, y in df2[:5]]))
                        if len(samples) < 3:
                            samples.append(dict(model=name, units=units, version=version, nodes=len(v0["nodes"]), links=len(v0["links"]), controls=len(v0["controls"])))
        finally:
            if os.path.exists(fn):
                os.unlink(fn)
        return dict(evaluations=evals, distinct_nontrivial=len(distinct), failures=failures[:10], samples=samples, exhaustive=False, known=sorted(set(known)),
                    scope="shard %d/%d: feature models + example networks x 10 flow units x INP 2.2 / 2.0, rule condition trees (9 shapes over AND/OR, depth <= 2) x {LPS, GPM}: "
                          "semantic view (elements by name, attributes, referred curves, non-empty patterns, demand categories, unnamed sources, options, controls/rules) "
                          "equal after one cycle (2e-6 relative; options 2e-4; control numbers 5 significant digits) and unchanged by a second cycle" % (shard, nshards))
    return run


NSH = 12
BOUNDED = [Bounded("C12.round_trip[%d/%d]" % (i, NSH), P, _run(i, NSH), kind="enumerated models x units x versions, run-time contract") for i in range(NSH)]



def _time_texts(tier, seed):
    """Every time of day (all 86 400 seconds) and a grid of simulation times through the text forms WNTR writes:
    the text must be what EPANET's syntax means by that time (12-hour clock: 12:xx AM is 00:xx, 12:xx PM is 12:xx) and must
    read back as the same number of seconds."""
    import wntr.epanet.io as eio
    from wntr.network.controls import ControlCondition as CC
    evals, failures, samples = 0, [], []

    def clock_spec(sec):        # written from the EPANET manual's 12-hour clock convention, not from the code
        h, m, s_ = sec // 3600, (sec % 3600) // 60, sec % 60
        return "%d:%02d:%02d %s" % (12 if h % 12 == 0 else h % 12, m, s_, "AM" if h < 12 else "PM")
    for sec in range(0, 86400):
        txt = CC._sec_to_clock(sec)
        back = CC._parse_value(txt)
        words = txt.split()
        back2 = eio._clock_time_to_sec(words[0], words[1])
        evals += 1
        if txt != clock_spec(sec) or back != sec or back2 != sec:
            if len(failures) < 10:
                failures.append(dict(seconds=sec, written=txt, means=clock_spec(sec), rule_reader=float(back), controls_reader=int(back2)))
    grid = list(range(0, 200000, 7)) + [t * 3600 + r for t in (24, 25, 48, 100, 1000) for r in (0, 1, 59, 60, 3599)]
    for sec in grid:
        txt = CC._sec_to_hours_min_sec(sec)
        h, m, s_ = eio._sec_to_string(sec)
        txt2 = "%02d:%02d:%02d" % (h, m, s_)
        evals += 1
        ok = txt == "%02d:%02d:%02d" % (sec // 3600, (sec % 3600) // 60, sec % 60) and CC._parse_value(txt) == sec and eio._str_time_to_sec(txt) == sec \
            and txt2 == txt and eio._str_time_to_sec(txt2) == sec
        if not ok and len(failures) < 10:
            failures.append(dict(seconds=sec, rule_text=txt, times_text=txt2, rule_reader=float(CC._parse_value(txt)), times_reader=int(eio._str_time_to_sec(txt2))))
    samples.append(dict(seconds=45000, written=CC._sec_to_clock(45000)))
    return dict(evaluations=evals, distinct_nontrivial=86400 + len(grid), failures=failures, samples=samples, exhaustive=True,
                scope="all 86 400 clock times through ControlCondition._sec_to_clock -> _parse_value and -> io._clock_time_to_sec; %d simulation times "
                      "through _sec_to_hours_min_sec / io._sec_to_string -> _parse_value / io._str_time_to_sec; written text compared with the 12-hour clock "
                      "convention of the EPANET syntax" % len(grid))


def _times_section(tier, seed):
    """[TIMES]: the real _write_times / _read_times pair on every start clock time of a day (every second in the hours around midnight and
    noon, every 7 s elsewhere) and on durations / time steps with second resolution; the START CLOCKTIME text is compared with the 12-hour
    clock convention."""
    import io
    import types as _t
    import wntr
    from wntr.epanet.io import InpFile
    from wntr.network.options import Options
    evals, failures, samples = 0, [], []
    clocks = list(range(0, 3700)) + list(range(39600 - 10, 46800 + 10)) + list(range(82800, 86400)) + list(range(3700, 86400, 7))
    others = [(0, 1, 1, 1, 0, 1, 0, 1), (86399, 3599, 59, 61, 7, 3601, 1, 359), (360001, 900, 300, 7200, 7201, 1800, 3661, 360)]

    def cycle(opts_time):
        wn_w = _t.SimpleNamespace(options=_t.SimpleNamespace(time=opts_time))
        f = io.BytesIO()
        InpFile()._write_times(f, wn_w)
        lines = [ln for ln in f.getvalue().decode().split("\n") if ln.strip() and not ln.startswith("[")]
        r = InpFile()
        r.wn = _t.SimpleNamespace(options=Options())
        r.sections["[TIMES]"] = [(i + 1, ln) for i, ln in enumerate(lines)]
        r._read_times()
        return lines, r.wn.options.time
    base = Options().time
    keys = ["duration", "hydraulic_timestep", "quality_timestep", "pattern_timestep", "pattern_start", "report_timestep", "report_start", "rule_timestep"]
    for c in clocks:
        t = Options().time
        t.start_clocktime = c
        lines, back = cycle(t)
        evals += 1
        txt = [ln for ln in lines if ln.upper().startswith("START CLOCKTIME")][0].split()[2:]
        h = c // 3600
        spec = "%02d:%02d:%02d %s" % (h if h < 12 else h - 12, (c % 3600) // 60, c % 60, "AM" if h < 12 else "PM")      # what the writer's own format means
        means = (0 if txt[0].startswith("12") else int(txt[0][:2])) * 3600 + int(txt[0][3:5]) * 60 + int(txt[0][6:8]) + (43200 if txt[1] == "PM" else 0)
        if back.start_clocktime != c or means != c:
            if len(failures) < 10:
                failures.append(dict(start_clocktime=c, written=" ".join(txt), epanet_reads_it_as=means, read_back=back.start_clocktime))
    for vals in others:
        t = Options().time
        for k, v in zip(keys, vals):
            setattr(t, k, v)
        lines, back = cycle(t)
        evals += 1
        diff = {k: (getattr(t, k), getattr(back, k)) for k in keys if getattr(t, k) != getattr(back, k)}
        if diff and len(failures) < 10:
            failures.append(dict(times=dict(zip(keys, vals)), changed=diff))
    samples.append(dict(start_clocktime=45000, written=[ln for ln in cycle(_with(Options().time, 45000))[0] if "CLOCKTIME" in ln.upper()]))
    return dict(evaluations=evals, distinct_nontrivial=len(clocks) + len(others), failures=failures, samples=samples, exhaustive=False,
                scope="%d start clock times (every second around midnight and noon, every 7 s elsewhere) and %d combinations of the other time options "
                      "through the real _write_times / _read_times; START CLOCKTIME text also read by the 12-hour clock convention" % (len(clocks), len(others)))


def _with(t, c):
    t.start_clocktime = c
    return t


BOUNDED.append(Bounded("C12.times_section", P + ["C03"], _times_section, kind="enumerated times through the real writer / reader pair"))
BOUNDED.append(Bounded("C12.time_texts", P + ["C13", "C03", "C04"], _time_texts, kind="exhaustive over the times of a day"))


# ================================================================================================
# Deductive core: conversion pairing of section writers and readers (token model, see pyvc/values.py:SymStr)
#
# For an arbitrary element with symbolic attribute values the real _write_X is executed, the formatted lines it
# produces (format string + arguments, kept as tokens) are handed to the real _read_X, and the arguments the reader
# passes to WaterNetworkModel.add_X must equal the original attributes - for every flow-unit system. Assumptions
# of the token model: float(format(v)) == v (no loss of digits), names contain no blanks.

import types
import z3
from pyvc.core import Contract, Case
from pyvc.values import SV, SymObj, SymStr, NativeModel, GenericIter, Unsupported
from pyvc import library

from wntr.epanet.io import InpFile
from wntr.epanet.util import FlowUnits, MassUnits
from wntr.network import LinkStatus
from wntr.network.elements import Junction, Tank, Reservoir, Pipe, Valve, PRValve, PSValve, PBValve, FCValve, TCValve

from pyvc.values import real_val
Rr = library.as_real


class FileStub(NativeModel):
    def __init__(self):
        self.lines = []

    def write(self, x):
        if isinstance(x, SymStr):
            self.lines.append(x)
        elif isinstance(x, (bytes, str)):
            t = x.decode() if isinstance(x, bytes) else x
            if t.strip() and not t.lstrip().startswith(("[", ";")):
                self.lines.append(t)          # a data line without symbolic fields (e.g. ORDER BULK 2); headers and comments are dropped


class WnW(NativeModel):
    """the model as the writers see it: name lists + name -> element"""

    def __init__(self, headloss="H-W", pattern=None):
        self.nodes, self.links = {}, {}
        self.options = types.SimpleNamespace(hydraulic=types.SimpleNamespace(headloss=headloss, pattern=pattern))

    def _names(self, table, *classes):
        return [n for n, o in table.items() if issubclass(o.cls, classes)]

    junction_name_list = property(lambda s: s._names(s.nodes, Junction))
    tank_name_list = property(lambda s: s._names(s.nodes, Tank))
    reservoir_name_list = property(lambda s: s._names(s.nodes, Reservoir))
    pipe_name_list = property(lambda s: s._names(s.links, Pipe))
    valve_name_list = property(lambda s: s._names(s.links, Valve))
    pump_name_list = property(lambda s: list(getattr(s, "pumps_", [])))


class WnR(NativeModel):
    """the model as the readers see it: add_X record their arguments"""

    def __init__(self, headloss="H-W", pattern=None):
        self.calls = []
        self.options = types.SimpleNamespace(hydraulic=types.SimpleNamespace(headloss=headloss, pattern=pattern))
        self.patterns = types.SimpleNamespace(default_pattern="<default pattern>")

    def __getattr__(self, nm):
        if nm.startswith("add_"):
            return lambda *a, **k: self.calls.append((nm, a, k))
        raise AttributeError(nm)


def _inp(units, wn, sections=None):
    o = SymObj(InpFile, dict(flow_units=units, mass_units=MassUnits.mg, wn=wn, sections=sections or {}, curves={}, top_comments=[]))
    return o


def _roundtrip_call(writer, reader, section, inpw, inpr, wnw):
    f = FileStub()
    writer(inpw, f, wnw)
    inpr.sections[section] = [(i + 1, ln) for i, ln in enumerate(f.lines)]
    reader(inpr)
    return len(f.lines)


def _eqn(a, b):
    return Rr(a) == Rr(b)


def _within(a, b, rel=1e-8):
    ab = z3.If(b >= 0, b, -b)
    return z3.And(a - b <= real_val(rel) * ab, b - a <= real_val(rel) * ab)


def _pipe_case(units, headloss, status, cv):
    def build(cx):
        L, D, C, K = cx.real("length"), cx.real("diameter"), cx.real("roughness"), cx.real("minor_loss")
        nm, n1, n2 = cx.name("pipe"), cx.name("node1"), cx.name("node2")
        a = SymObj(Junction, dict(_name=n1))
        b = SymObj(Junction, dict(_name=n2))
        pipe = SymObj(Pipe, dict(_link_name=nm, _start_node=a, _end_node=b, _length=L, _diameter=D, _roughness=C, _minor_loss=K,
                                 _initial_status=status, _check_valve=cv))
        wnw, wnr = WnW(headloss), WnR(headloss)
        wnw.links[nm] = pipe
        inpw, inpr = _inp(units, wnw), _inp(units, wnr)
        cx.target(_roundtrip_call, InpFile._write_pipes, InpFile._read_pipes, "[PIPES]", inpw, inpr, wnw)

        def post(out):
            if not out.returned:
                return []
            posts = [("one_line_written_one_pipe_read", out.value == 1 and len(wnr.calls) == 1 and wnr.calls[0][0] == "add_pipe")]
            if len(wnr.calls) != 1:
                return posts
            a_ = wnr.calls[0][1]
            posts += [("name_and_end_nodes_kept", z3.And(a_[0].t == cx.t(nm), a_[1].t == cx.t(n1), a_[2].t == cx.t(n2))),
                      ("length_round_trips", _eqn(a_[3], L)), ("diameter_round_trips", _eqn(a_[4], D)), ("roughness_round_trips", _eqn(a_[5], C)),
                      ("minor_loss_round_trips", _eqn(a_[6], K)),
                      ("status_and_check_valve_round_trip", a_[8] is cv and a_[7] is (LinkStatus.Open if cv else status))]
            return posts
        cx.ensure(post)
    return Case("%s,%s,status=%s,cv=%s" % (units.name, headloss, status.name, cv), build, crosscheck=False)


def _junction_case(units, has_pattern):
    def build(cx):
        el, dem = cx.real("elevation"), cx.real("base_demand")
        nm = cx.name("junction")
        pat = cx.name("pattern") if has_pattern else None

        class Dl(NativeModel):
            def __bool__(s):
                return True

            def base_demand_list(s):
                return [dem]

            def pattern_list(s):
                return [pat] if has_pattern else [None]
        j = SymObj(Junction, dict(_name=nm, _elevation=el, _demand_timeseries_list=Dl()))
        wnw, wnr = WnW(pattern=None), WnR(pattern=None)
        wnw.nodes[nm] = j
        cx.target(_roundtrip_call, InpFile._write_junctions, InpFile._read_junctions, "[JUNCTIONS]", _inp(units, wnw), _inp(units, wnr), wnw)

        def post(out):
            if not out.returned:
                return []
            posts = [("one_line_written_one_junction_read", out.value == 1 and len(wnr.calls) == 1 and wnr.calls[0][0] == "add_junction")]
            if len(wnr.calls) != 1:
                return posts
            a_ = wnr.calls[0][1]
            posts += [("name_kept", a_[0].t == cx.t(nm)), ("base_demand_round_trips", _eqn(a_[1], dem)), ("elevation_round_trips", _eqn(a_[3], el)),
                      ("pattern_round_trips", (isinstance(a_[2], SV) and a_[2].t.eq(pat.t)) if has_pattern else (a_[2] == "<default pattern>"))]
            return posts
        cx.ensure(post)
    return Case("%s,pattern=%s" % (units.name, has_pattern), build, crosscheck=False)


def _reservoir_case(units, has_pattern):
    def build(cx):
        head = cx.real("base_head")
        nm = cx.name("reservoir")
        pat = cx.name("pattern") if has_pattern else None
        ts = types.SimpleNamespace(base_value=head, pattern=(types.SimpleNamespace(name=pat) if has_pattern else None))
        r = SymObj(Reservoir, dict(_name=nm, _head_timeseries=ts))
        wnw, wnr = WnW(), WnR()
        wnw.nodes[nm] = r
        cx.target(_roundtrip_call, InpFile._write_reservoirs, InpFile._read_reservoirs, "[RESERVOIRS]", _inp(units, wnw), _inp(units, wnr), wnw)

        def post(out):
            if not out.returned:
                return []
            posts = [("one_line_written_one_reservoir_read", out.value == 1 and len(wnr.calls) == 1 and wnr.calls[0][0] == "add_reservoir")]
            if len(wnr.calls) != 1:
                return posts
            a_ = wnr.calls[0][1]
            posts += [("name_kept", a_[0].t == cx.t(nm)), ("head_round_trips", _eqn(a_[1], head)),
                      ("pattern_round_trips", (len(a_) == 3 and a_[2].t.eq(pat.t)) if has_pattern else len(a_) == 2)]
            return posts
        cx.ensure(post)
    return Case("%s,pattern=%s" % (units.name, has_pattern), build, crosscheck=False)


def _tank_case(units, overflow):
    def build(cx):
        vals = {k: cx.real(k) for k in ("elevation", "init_level", "min_level", "max_level", "diameter", "min_vol")}
        nm = cx.name("tank")
        t = SymObj(Tank, dict(_name=nm, _elevation=vals["elevation"], _init_level=vals["init_level"], _min_level=vals["min_level"], _max_level=vals["max_level"],
                              _diameter=vals["diameter"], _min_vol=vals["min_vol"], _vol_curve_name=None, _overflow=overflow, _curve_reg={None: None}))
        wnw, wnr = WnW(), WnR()
        wnw.nodes[nm] = t
        cx.target(_roundtrip_call, InpFile._write_tanks, InpFile._read_tanks, "[TANKS]", _inp(units, wnw), _inp(units, wnr), wnw)

        def post(out):
            if not out.returned:
                return []
            posts = [("one_line_written_one_tank_read", out.value == 1 and len(wnr.calls) == 1 and wnr.calls[0][0] == "add_tank")]
            if len(wnr.calls) != 1:
                return posts
            a_ = wnr.calls[0][1]
            posts.append(("name_kept", a_[0].t == cx.t(nm)))
            for i, k in enumerate(("elevation", "init_level", "min_level", "max_level", "diameter", "min_vol")):
                posts.append(("%s_round_trips" % k, _eqn(a_[1 + i], vals[k])))
            posts.append(("no_volume_curve_and_overflow_flag_round_trip", a_[7] is None and (str(a_[8]).upper() in ("YES", "TRUE") if overflow else a_[8] in (False, "NO", ""))))
            return posts
        cx.ensure(post)
    return Case("%s,overflow=%s" % (units.name, overflow), build, crosscheck=False)


def _valve_case(units, cls):
    def build(cx):
        D, S, K = cx.real("diameter"), cx.real("initial_setting"), cx.real("minor_loss")
        nm, n1, n2 = cx.name("valve"), cx.name("node1"), cx.name("node2")
        v = SymObj(cls, dict(_link_name=nm, _start_node=SymObj(Junction, dict(_name=n1)), _end_node=SymObj(Junction, dict(_name=n2)),
                             diameter=D, _initial_setting=S, minor_loss=K))
        wnw, wnr = WnW(), WnR()
        wnw.links[nm] = v
        cx.target(_roundtrip_call, InpFile._write_valves, InpFile._read_valves, "[VALVES]", _inp(units, wnw), _inp(units, wnr), wnw)

        def post(out):
            if not out.returned:
                return []
            posts = [("one_line_written_one_valve_read", out.value == 1 and len(wnr.calls) == 1 and wnr.calls[0][0] == "add_valve")]
            if len(wnr.calls) != 1:
                return posts
            a_ = wnr.calls[0][1]
            vt = cls.__name__[:3].upper()
            posts += [("name_and_end_nodes_kept", z3.And(a_[0].t == cx.t(nm), a_[1].t == cx.t(n1), a_[2].t == cx.t(n2))),
                      ("diameter_round_trips", _eqn(a_[3], D)), ("valve_type_kept", a_[4] == vt), ("minor_loss_round_trips", _eqn(a_[5], K)),
                      ("setting_round_trips_in_the_unit_of_its_valve_type", _eqn(a_[6], S))]
            return posts
        cx.ensure(post)
    return Case("%s,%s" % (units.name, cls.__name__), build, crosscheck=False)


class _Pat(NativeModel):
    def __init__(self, name):
        self.name = name


class _PatReg(NativeModel):
    """PatternRegistry.__getitem__: the pattern of that name, None for None / unknown names"""

    def __init__(self, name=None):
        self.name = name

    def __getitem__(self, key):
        if key is None or self.name is None:
            return None
        return _Pat(key)


def _pump_case(units, kind, speed_one, has_pattern):
    def build(cx):
        from wntr.network.elements import PowerPump, HeadPump
        from wntr.network.elements import TimeSeries
        Pw, Sp = cx.real("power"), (1.0 if speed_one else cx.real("speed"))
        if not speed_one:
            cx.assume(cx.t(Sp) != 1)
        nm, n1, n2, cn, pn = cx.name("pump"), cx.name("node1"), cx.name("node2"), cx.name("curve"), cx.name("pattern")
        ts = SymObj(TimeSeries, dict(_base=Sp, _pattern=(pn if has_pattern else None), _category=None,
                                     _pattern_reg=_PatReg(pn if has_pattern else None)))
        cls = PowerPump if kind == "POWER" else HeadPump
        f = dict(_link_name=nm, _start_node=SymObj(Junction, dict(_name=n1)), _end_node=SymObj(Junction, dict(_name=n2)), _speed_timeseries=ts)
        if kind == "POWER":
            f["_base_power"] = Pw
        else:
            f["_pump_curve_name"] = cn
        pump = SymObj(cls, f)
        wnw, wnr = WnW(), WnR()
        wnw.links[nm] = pump
        wnw.pumps_ = [nm]
        curve = types.SimpleNamespace(name=cn)
        wnr.curve_name_list = [cn]
        wnr.get_curve = lambda c: curve
        wnr.get_pattern = lambda p: _Pat(p)
        cx.target(_roundtrip_call, InpFile._write_pumps, InpFile._read_pumps, "[PUMPS]", _inp(units, wnw), _inp(units, wnr), wnw)

        def post(out):
            if not out.returned:
                return []
            posts = [("one_line_written_one_pump_read", out.value == 1 and len(wnr.calls) == 1 and wnr.calls[0][0] == "add_pump")]
            if len(wnr.calls) != 1:
                return posts
            a_ = wnr.calls[0][1]
            posts += [("name_and_end_nodes_kept", z3.And(a_[0].t == cx.t(nm), a_[1].t == cx.t(n1), a_[2].t == cx.t(n2))),
                      ("pump_type_kept", a_[3] == kind),
                      ("power_round_trips_in_the_power_unit", _eqn(a_[4], Pw)) if kind == "POWER" else ("head_curve_name_kept", a_[4].t == cx.t(cn)),
                      ("speed_round_trips", _eqn(a_[5], Sp)),
                      ("speed_pattern_kept", (a_[6].t == cx.t(pn)) if has_pattern else (a_[6] is None))]
            return posts
        cx.ensure(post)
    return Case("%s,%s,speed_is_one=%s,pattern=%s" % (units.name, kind, speed_one, has_pattern), build, crosscheck=False)


# ---------------------------------------------------------------------------- rules: values in IF / THEN / ELSE clauses

class _RuleModel(NativeModel):
    """the model as _EpanetRule.generate_control sees it"""

    def __init__(self, elems):
        self.elems = elems

    def _find(self, name):
        for n, e in self.elems:
            if n is name or (isinstance(n, SV) and isinstance(name, SV) and n.t.eq(name.t)):
                return e
        raise KeyError(name)

    get_link = _find
    get_node = _find


def _rule_pair(rule_w, rule_r, condition, then_action, else_action, model):
    # harness text (not repository code): what InpFile._write_rules / _read_rules do with one rule, minus the text splitting
    rule_w.add_control_condition(condition)
    rule_w.add_action_on_true(then_action)
    rule_w.add_action_on_false(else_action)
    rule_r._if_clauses = list(rule_w._if_clauses)
    rule_r._then_clauses = list(rule_w._then_clauses)
    rule_r._else_clauses = list(rule_w._else_clauses)
    return rule_r.generate_control(model)


def _rule_models():
    import wntr.network.controls as ctl
    m = library.build_models()
    for cls in (ctl.ValueCondition, ctl.ControlAction, ctl.Rule, ctl.AndCondition, ctl.OrCondition):
        m.register(cls, (lambda c: (lambda interp, args, kw: (c.__name__, tuple(args), dict(kw))))(cls),
                   verified_by="constructors store their arguments (contracts/c05_conditions.py: ControlAction.__init__, ValueCondition)")
    return m


_COND_KINDS = [("demand", Junction, None), ("head", Junction, None), ("level", Tank, None), ("pressure", Junction, None), ("flow", Pipe, None),
               ("setting", PRValve, None), ("setting", PSValve, None), ("setting", PBValve, None), ("setting", FCValve, None), ("setting", TCValve, None),
               ("setting", "pump", None)]
_ACT_KINDS = [PRValve, PSValve, PBValve, FCValve, TCValve, "pump"]


def _rule_case(units, ck, then_cls, else_cls):
    attr, ccls, _ = _COND_KINDS[ck]

    def build(cx):
        import wntr.network.controls as ctl
        from wntr.network.elements import HeadPump
        from wntr.epanet.io import _EpanetRule

        def elem(cls, nm):
            if cls == "pump":
                cls = HeadPump
            if issubclass(cls, (Junction, Tank)):
                return SymObj(cls, dict(_name=nm))
            return SymObj(cls, dict(_link_name=nm))
        cn, tn, en = cx.name("condition_element"), cx.name("then_element"), cx.name("else_element")
        cx.assume(cx.t(cn) != cx.t(tn), cx.t(cn) != cx.t(en), cx.t(tn) != cx.t(en))
        ce, te, ee = elem(ccls, cn), elem(then_cls, tn), elem(else_cls, en)
        thr, tv, ev = cx.real("threshold"), cx.real("then_value"), cx.real("else_value")
        cond = SymObj(ctl.ValueCondition, dict(_source_obj=ce, _source_attr=attr, _relation=ctl.Comparison.ge, _threshold=thr))
        ta = SymObj(ctl.ControlAction, dict(_target_obj=te, _attribute="setting", _value=tv))
        ea = SymObj(ctl.ControlAction, dict(_target_obj=ee, _attribute="setting", _value=ev))
        mk = lambda: SymObj(_EpanetRule, dict(inp_units=units, mass_units=MassUnits.mg, ruleID="r", _if_clauses=[], _then_clauses=[], _else_clauses=[], priority=3))
        model = _RuleModel([(cn, ce), (tn, te), (en, ee)])
        cx.target(_rule_pair, mk(), mk(), cond, ta, ea, model)

        def post(out):
            if not out.returned:
                return []
            r = out.value
            ok = isinstance(r, tuple) and r[0] == "Rule" and isinstance(r[1][0], tuple) and r[1][0][0] == "ValueCondition" and len(r[1][1]) == 1 and len(r[1][2]) == 1
            posts = [("one_condition_one_then_action_one_else_action_read_back", bool(ok))]
            if not ok:
                return posts
            c_args, t_args, e_args = r[1][0][1], r[1][1][0][1], r[1][2][0][1]
            posts += [("condition_element_attribute_relation_kept", c_args[0] is ce and c_args[1] == attr and c_args[2] == ctl.Comparison.ge.symbol),
                      ("condition_threshold_round_trips_in_the_unit_of_its_attribute_and_element_type", _eqn(c_args[3], thr)),
                      ("then_action_target_and_attribute_kept", t_args[0] is te and t_args[1] == "setting"),
                      ("then_value_round_trips_in_the_unit_of_its_valve_type", _eqn(t_args[2], tv)),
                      ("else_action_target_and_attribute_kept", e_args[0] is ee and e_args[1] == "setting"),
                      ("else_value_round_trips_in_the_unit_of_its_valve_type", _eqn(e_args[2], ev)),
                      ("priority_kept", r[2].get("priority") == 3)]
            return posts
        cx.ensure(post)
    nm = lambda c: c if isinstance(c, str) else c.__name__
    return Case("%s,if_%s_of_%s,then_%s,else_%s" % (units.name, attr, nm(ccls), nm(then_cls), nm(else_cls)), build, crosscheck=False)


def _premise_pair(rule_w, rule_r, conds, ops, then_action, model):
    # harness text: premises written one by one with the writer's own conjunction prefixes (as its recursion over And / Or trees does), then read
    rule_w.add_control_condition(conds[0])
    for i in range(len(ops)):
        rule_w.add_control_condition(conds[i + 1], "  " + ops[i])
    rule_w.add_action_on_true(then_action)
    rule_r._if_clauses = list(rule_w._if_clauses)
    rule_r._then_clauses = list(rule_w._then_clauses)
    rule_r._else_clauses = list(rule_w._else_clauses)
    return rule_r.generate_control(model)


def _rule_premises_case(ops):
    """IF c0 <op1> c1 <op2> c2 ...: the condition tree built by the reader has, for every truth assignment of the premises, the value EPANET computes for
    the same text. EPANET (rules.c, evalpremises) walks the list left to right: 'OR p': if the running value is false it becomes p; 'AND p': if the running
    value is false the rule is false at once, else it becomes p. (IF A AND B OR C is A and (B or C).)"""
    def build(cx):
        import itertools as it
        import wntr.network.controls as ctl
        from wntr.epanet.io import _EpanetRule
        names = [cx.name("junction_%d" % i) for i in range(len(ops) + 1)]
        tn = cx.name("valve")
        cx.assume(z3.Distinct(*[cx.t(n) for n in names + [tn]]))
        els = [SymObj(Junction, dict(_name=n)) for n in names]
        te = SymObj(TCValve, dict(_link_name=tn))
        conds = [SymObj(ctl.ValueCondition, dict(_source_obj=e, _source_attr="pressure", _relation=ctl.Comparison.ge, _threshold=cx.real("threshold_%d" % i)))
                 for i, e in enumerate(els)]
        ta = SymObj(ctl.ControlAction, dict(_target_obj=te, _attribute="setting", _value=cx.real("then_value")))
        mk = lambda: SymObj(_EpanetRule, dict(inp_units=FlowUnits.LPS, mass_units=MassUnits.mg, ruleID="r", _if_clauses=[], _then_clauses=[], _else_clauses=[], priority=0))
        model = _RuleModel(list(zip(names, els)) + [(tn, te)])
        cx.target(_premise_pair, mk(), mk(), conds, list(ops), ta, model)

        def post(out):
            if not out.returned:
                return []
            r = out.value
            if not (isinstance(r, tuple) and r[0] == "Rule"):
                return [("a_rule_is_built", False)]

            def ev(t, val):
                if t[0] == "ValueCondition":
                    return val[[i for i, e in enumerate(els) if t[1][0] is e][0]]
                a, b = ev(t[1][0], val), ev(t[1][1], val)
                return (a and b) if t[0] == "AndCondition" else (a or b)

            def epanet(val):
                res = val[0]
                for op, v in zip(ops, val[1:]):
                    if op == "OR":
                        if not res:
                            res = v
                    else:
                        if not res:
                            return False
                        res = v
                return res
            try:
                same = all(ev(r[1][0], val) == epanet(val) for val in it.product((False, True), repeat=len(els)))
            except Exception:
                same = False
            return [("the_condition_tree_has_the_truth_table_of_epanet_s_left_to_right_evaluation", same)]
        cx.ensure(post)
    return Case("IF c0 " + " ".join("%s c%d" % (o, i + 1) for i, o in enumerate(ops)), build, crosscheck=False)


def _premise_ops():
    import itertools as it
    return [ops for k in (1, 2, 3) for ops in it.product(("AND", "OR"), repeat=k)]


# ---------------------------------------------------------------------------- [EMITTERS] and [ENERGY]

class _Bag(NativeModel):
    """a plain attribute holder that may hold symbolic values (options.energy, ...)"""

    def __init__(self, **kw):
        self.__dict__.update(kw)


class _WnE(NativeModel):
    def __init__(self, nodes=None, links=None, energy=None, pumps=()):
        self.nodes, self.links = nodes or {}, links or {}
        self.options = types.SimpleNamespace(energy=energy)
        self.junction_name_list = list(self.nodes)
        self.pump_name_list = list(pumps)

    def get_node(self, n):
        for k, v in self.nodes.items():
            if isinstance(k, SV) and isinstance(n, SV) and k.t.eq(n.t):
                return v
        raise KeyError(n)


def _emitter_case(units):
    def build(cx):
        from contracts.c17_units import hyd_spec
        from wntr.epanet.util import HydParam
        jn, ec = cx.name("junction"), cx.real("emitter_coefficient")
        cx.assume(cx.t(ec) != 0)                   # a junction with a zero / missing coefficient has no line (by design)
        jw = SymObj(Junction, dict(_name=jn, _emitter_coefficient=ec))
        jr = SymObj(Junction, dict(_name=jn, _emitter_coefficient=None))
        wnw, wnr = _WnE(nodes={jn: jw}), _WnE(nodes={jn: jr})
        inpr = _inp(units, wnr)
        cx.target(_roundtrip_call, InpFile._write_emitters, InpFile._read_emitters, "[EMITTERS]", _inp(units, wnw), inpr, wnw)

        def post(out):
            if not out.returned:
                return []
            k, _ = hyd_spec(HydParam.EmitterCoeff, units, False)
            toks = inpr.fields["sections"]["[EMITTERS]"][0][1].tokens() if out.value == 1 else []
            return [("one_line_per_junction_with_an_emitter", out.value == 1),
                    ("emitter_coefficient_round_trips", _eqn(jr.fields["_emitter_coefficient"], ec)),
                    ("written_coefficient_is_flow_per_square_root_of_pressure_in_the_file_units", _within(Rr(toks[1]) * real_val(k), Rr(ec), 1e-6) if toks else False)]
        cx.ensure(post)
    return Case(units.name, build, crosscheck=False)


def _energy_case(units):
    def build(cx):
        pn = cx.name("pump")
        gp, ge, dc, pp = cx.real("global_price"), cx.real("global_efficiency"), cx.real("demand_charge"), cx.real("pump_price")
        from wntr.network.elements import PowerPump
        pw = SymObj(PowerPump, dict(_link_name=pn, _efficiency=None, _energy_price=pp, _energy_pattern=None))
        pr = SymObj(PowerPump, dict(_link_name=pn, _efficiency=None, _energy_price=None, _energy_pattern=None))
        ew = _Bag(global_efficiency=ge, global_price=gp, demand_charge=dc, global_pattern=None)
        er = _Bag(global_efficiency=None, global_price=None, demand_charge=None, global_pattern=None)
        wnw, wnr = _WnE(links={pn: pw}, energy=ew, pumps=[pn]), _WnE(links={pn: pr}, energy=er, pumps=[pn])
        inpr = _inp(units, wnr)
        cx.target(_roundtrip_call, InpFile._write_energy, InpFile._read_energy, "[ENERGY]", _inp(units, wnw), inpr, wnw)

        def post(out):
            if not out.returned:
                return []
            lines = [ln[1].tokens() for ln in inpr.fields["sections"]["[ENERGY]"]]
            price_line = [t for t in lines if t[0] == "PUMP" and t[2] == "PRICE"]
            gprice_line = [t for t in lines if t[0] == "GLOBAL" and t[1] == "PRICE"]
            return [("four_lines_written", out.value == 4),
                    ("global_price_efficiency_and_demand_charge_round_trip", z3.And(_eqn(er.global_price, gp), _eqn(er.global_efficiency, ge), _eqn(er.demand_charge, dc))),
                    ("pump_price_round_trips", _eqn(pr.fields["_energy_price"], pp)),
                    ("prices_are_written_per_kilowatt_hour", z3.And(Rr(price_line[0][3]) == Rr(pp) * 3600000, Rr(gprice_line[0][2]) == Rr(gp) * 3600000)
                     if len(price_line) == 1 and len(gprice_line) == 1 else False)]
        cx.ensure(post)
    return Case(units.name, build, crosscheck=False)


# ---------------------------------------------------------------------------- [REACTIONS]: coefficients whose conversion depends on the reaction order

class _WnRx(NativeModel):
    def __init__(self, tank, pipe, rx):
        self.tank, self.pipe = tank, pipe
        self.options = types.SimpleNamespace(reaction=rx)

    def nodes(self, typ=None):
        return [(self.tank.fields["_name"], self.tank)]

    def links(self, typ=None):
        return [(self.pipe.fields["_link_name"], self.pipe)]

    def get_link(self, n):
        return self.pipe

    def get_node(self, n):
        return self.tank


def _reaction_case(units, bulk_order, wall_order, tank_order=None):
    tank_order = bulk_order if tank_order is None else tank_order

    def build(cx):
        tn, pn = cx.name("tank"), cx.name("pipe")
        kb, kw_, kt, gb, gw = cx.real("pipe_bulk"), cx.real("pipe_wall"), cx.real("tank_bulk"), cx.real("global_bulk"), cx.real("global_wall")

        def side(vals):
            tank = SymObj(Tank, dict(_name=tn, _bulk_coeff=vals[2]))
            pipe = SymObj(Pipe, dict(_link_name=pn, _bulk_coeff=vals[0], _wall_coeff=vals[1]))
            return tank, pipe
        tw, pw = side((kb, kw_, kt))
        tr, pr = side((None, None, None))
        rxw = _Bag(bulk_order=bulk_order, wall_order=wall_order, tank_order=tank_order, bulk_coeff=gb, wall_coeff=gw, limiting_potential=None, roughness_correl=None)
        rxr = _Bag(bulk_order=1, wall_order=1, tank_order=1, bulk_coeff=None, wall_coeff=None, limiting_potential=None, roughness_correl=None)     # defaults of a new model
        wnw, wnr = _WnRx(tw, pw, rxw), _WnRx(tr, pr, rxr)
        cx.target(_roundtrip_call, InpFile._write_reactions, InpFile._read_reactions, "[REACTIONS]", _inp(units, wnw), _inp(units, wnr), wnw)

        def post(out):
            if not out.returned:
                return []
            return [("reaction_orders_round_trip", rxr.bulk_order == bulk_order and rxr.wall_order == wall_order and rxr.tank_order == tank_order),
                    ("pipe_bulk_and_wall_coefficients_round_trip_under_the_model_s_reaction_orders", z3.And(_eqn(pr.fields["_bulk_coeff"], kb), _eqn(pr.fields["_wall_coeff"], kw_))),
                    ("tank_coefficient_round_trips", _eqn(tr.fields["_bulk_coeff"], kt)),
                    ("global_coefficients_round_trip", z3.And(_eqn(rxr.bulk_coeff, gb), _eqn(rxr.wall_coeff, gw)))]
        cx.ensure(post)
    return Case("%s,bulk_order=%d,wall_order=%d,tank_order=%d" % (units.name, bulk_order, wall_order, tank_order), build, crosscheck=False)


# ---------------------------------------------------------------------------- [CURVES]: what EPANET is told

def _write_only(writer, inpw, wnw):
    f = FileStub()
    writer(inpw, f, wnw)
    return f.lines


def _curve_case(units, ctype):
    def build(cx):
        from contracts.c17_units import hyd_spec
        from wntr.epanet.util import HydParam
        cn = cx.name("curve")
        pts = [(cx.real("x%d" % i), cx.real("y%d" % i)) for i in range(2)]
        curve = _Bag(curve_type=ctype, points=list(pts), name=cn)
        wnw = _Bag(curve_name_list=[cn], get_curve=lambda n: curve)
        cx.target(_write_only, InpFile._write_curves, _inp(units, wnw), wnw)

        def post(out):
            if not out.returned:
                return []
            lines = [ln.tokens() for ln in out.value if isinstance(ln, SymStr)]
            lines = [t for t in lines if not (isinstance(t[0], str) and t[0].startswith(";"))]      # the ';TYPE: name' comment line
            posts = [("one_line_per_point", len(lines) == len(pts))]
            if len(lines) != len(pts):
                return posts
            xpar, ypar = {"HEAD": (HydParam.Flow, HydParam.HydraulicHead), "VOLUME": (HydParam.Length, HydParam.Volume),
                          "EFFICIENCY": (HydParam.Flow, None), "HEADLOSS": (HydParam.Flow, HydParam.Length), None: (None, None)}[ctype]
            kx = hyd_spec(xpar, units, False)[0] if xpar is not None else 1.0
            ky = hyd_spec(ypar, units, False)[0] if ypar is not None else 1.0
            for i, (t, (x, y)) in enumerate(zip(lines, pts)):
                posts.append(("point_%d_x_written_in_the_unit_epanet_expects_for_this_curve_type" % i, _within(Rr(t[1]) * real_val(kx), Rr(x))))
                posts.append(("point_%d_y_written_in_the_unit_epanet_expects_for_this_curve_type" % i, _within(Rr(t[2]) * real_val(ky), Rr(y))))
            return posts
        cx.ensure(post)
    return Case("%s,%s" % (units.name, ctype), build, crosscheck=False)


# ---------------------------------------------------------------------------- [CURVES] read back through the section that uses the curve

class _AnyReg(NativeModel):
    """a curve registry that answers every name with the one curve (or None)"""

    def __init__(self, value):
        self.value = value

    def __getitem__(self, key):
        return self.value if key is not None else None

    def __setitem__(self, key, value):
        pass


def _curve_pair_call(element_writer, element_reader, section, inpw, inpr, wnw):
    f = FileStub()
    InpFile._write_curves(inpw, f, wnw)
    inpr.sections["[CURVES]"] = [(i + 1, ln) for i, ln in enumerate(f.lines)]
    InpFile._read_curves(inpr)
    g = FileStub()
    element_writer(inpw, g, wnw)
    inpr.sections[section] = [(i + 1, ln) for i, ln in enumerate(g.lines)]
    element_reader(inpr)
    return len(f.lines), len(g.lines)


def _curve_pair_case(units, ctype):
    """a curve comes back, through the section whose element uses it, with the points it was written with: the [CURVES] writer and each consuming
    reader agree on the unit of both coordinates (what the writer tells EPANET is the [CURVES] contract above)"""
    def build(cx):
        from wntr.network.elements import HeadPump, PowerPump, GPValve
        cn, en, n1, n2 = cx.name("curve"), cx.name("element"), cx.name("node1"), cx.name("node2")
        from pyvc.values import name_const
        cx.assume(cx.t(cn) != name_const("*"))       # requires: '*' is the [TANKS] placeholder for "no curve", not a curve name
        pts = [(cx.real("x%d" % i), cx.real("y%d" % i)) for i in range(2)]
        curve = _Bag(curve_type=ctype, points=list(pts), name=cn)
        a, b = SymObj(Junction, dict(_name=n1)), SymObj(Junction, dict(_name=n2))
        added = []

        class WR(NativeModel):
            def __init__(self):
                self.calls, self.links, self.curve_name_list = [], {}, []
                self.curves = _AnyReg(None)
                self.pump_name_list = []
                self.options = types.SimpleNamespace(energy=_Bag(global_efficiency=None, global_price=None, demand_charge=None, global_pattern=None),
                                                     hydraulic=types.SimpleNamespace(headloss="H-W", pattern=None))

            def add_curve(self, name, typ, points):
                added.append((name, typ, list(points)))
                self.curve_name_list.append(name)

            def get_curve(self, name):
                return types.SimpleNamespace(name=name) if added else None

            def get_pattern(self, name):
                return _Pat(name)

            def __getattr__(self, nm):
                if nm.startswith("add_"):
                    return lambda *a_, **k_: self.calls.append((nm, a_, k_))
                raise AttributeError(nm)
        wnr = WR()
        if ctype == "HEAD":
            from wntr.network.elements import TimeSeries
            ts = SymObj(TimeSeries, dict(_base=1.0, _pattern=None, _category=None, _pattern_reg=_PatReg(None)))
            el = SymObj(HeadPump, dict(_link_name=en, _start_node=a, _end_node=b, _speed_timeseries=ts, _pump_curve_name=cn))
            wnw = WnW()
            wnw.links[en] = el
            wnw.pumps_ = [en]
            pair = (InpFile._write_pumps, InpFile._read_pumps, "[PUMPS]")
        elif ctype == "VOLUME":
            vals = {k: cx.real(k) for k in ("elevation", "init_level", "min_level", "max_level", "diameter", "min_vol")}
            el = SymObj(Tank, dict(_name=en, _elevation=vals["elevation"], _init_level=vals["init_level"], _min_level=vals["min_level"], _max_level=vals["max_level"],
                                   _diameter=vals["diameter"], _min_vol=vals["min_vol"], _vol_curve_name=cn, _overflow=False, _curve_reg=_AnyReg(curve)))
            wnw = WnW()
            wnw.nodes[en] = el
            pair = (InpFile._write_tanks, InpFile._read_tanks, "[TANKS]")
        elif ctype == "HEADLOSS":
            el = SymObj(GPValve, dict(_link_name=en, _start_node=a, _end_node=b, diameter=cx.real("diameter"), minor_loss=cx.real("minor_loss"), _initial_setting=0.0,
                                      _headloss_curve_name=cn))
            wnw = WnW()
            wnw.links[en] = el
            pair = (InpFile._write_valves, InpFile._read_valves, "[VALVES]")
        else:
            el = SymObj(PowerPump, dict(_link_name=en, _efficiency=curve, _energy_price=None, _energy_pattern=None))
            elr = SymObj(PowerPump, dict(_link_name=en, _efficiency=None, _energy_price=None, _energy_pattern=None))
            wnw = _WnE(links={en: el}, energy=_Bag(global_efficiency=None, global_price=None, demand_charge=None, global_pattern=None), pumps=[en])
            wnr.links = {en: elr}
            wnr.pump_name_list = [en]
            pair = (InpFile._write_energy, InpFile._read_energy, "[ENERGY]")
        wnw.curve_name_list = [cn]
        wnw.get_curve = lambda n: curve
        cx.target(_curve_pair_call, pair[0], pair[1], pair[2], _inp(units, wnw), _inp(units, wnr), wnw)

        def post(out):
            if not out.returned:
                return []
            posts = [("a_type_comment_two_curve_lines_and_one_element_line", out.value == (3, 1)),
                     ("the_curve_is_created_once_with_its_type", len(added) == 1 and added[0][1] == ctype and isinstance(added[0][0], SV) and added[0][0].t.eq(cn.t))]
            if len(added) != 1 or len(added[0][2]) != 2:
                return posts + [("both_points_read_back", False)]
            for i, ((gx, gy), (x, y)) in enumerate(zip(added[0][2], pts)):
                posts.append(("point_%d_x_round_trips_in_the_unit_of_this_curve_type" % i, _eqn(gx, x)))
                posts.append(("point_%d_y_round_trips_in_the_unit_of_this_curve_type" % i, _eqn(gy, y)))
            return posts
        cx.ensure(post)
    return Case("%s,%s" % (units.name, ctype), build, crosscheck=False)


# ---------------------------------------------------------------------------- [SOURCES]

def _source_case(units, stype, has_pattern):
    def build(cx):
        nn, pn, st = cx.name("node"), cx.name("pattern"), cx.real("strength")
        ts = types.SimpleNamespace(base_value=st, pattern_name=(pn if has_pattern else None))
        src = types.SimpleNamespace(node_name=nn, source_type=stype, strength_timeseries=ts)
        wnw = _Bag(_sources={"S1": _Bag(node_name=nn, source_type=stype, strength_timeseries=_Bag(base_value=st, pattern_name=(pn if has_pattern else None)))})
        wnr = WnR()
        cx.target(_roundtrip_call, InpFile._write_sources, InpFile._read_sources, "[SOURCES]", _inp(units, wnw), _inp(units, wnr), wnw)

        def post(out):
            if not out.returned:
                return []
            posts = [("one_line_written_one_source_read", out.value == 1 and len(wnr.calls) == 1 and wnr.calls[0][0] == "add_source")]
            if len(wnr.calls) != 1:
                return posts
            a_ = wnr.calls[0][1]
            posts += [("node_and_type_kept", z3.And(a_[1].t == cx.t(nn), z3.BoolVal(a_[2] == stype))),
                      ("strength_round_trips_as_mass_injection_or_concentration_according_to_the_source_type", _eqn(a_[3], st)),
                      ("pattern_kept", (a_[4].t == cx.t(pn)) if has_pattern else (a_[4] is None))]
            return posts
        cx.ensure(post)
    return Case("%s,%s,pattern=%s" % (units.name, stype, has_pattern), build, crosscheck=False)


# ---------------------------------------------------------------------------- [QUALITY], [MIXING], [STATUS], [DEMANDS]

class _WnQ(NativeModel):
    """one node / one link model for the sections that set attributes of existing elements"""

    def __init__(self, nodes=None, links=None, quality=None, pumps=(), valves=(), tanks=(), junctions=(), patterns=()):
        self.nodes, self.links = nodes or {}, links or {}
        self.options = types.SimpleNamespace(quality=types.SimpleNamespace(parameter=quality))
        self.pump_name_list, self.valve_name_list, self.tank_name_list = list(pumps), list(valves), list(tanks)
        self.junction_name_list, self.pattern_name_list = list(junctions), list(patterns)

    def _find(self, table, n):
        for k, v in table.items():
            if isinstance(k, SV) and isinstance(n, SV) and k.t.eq(n.t):
                return v
        raise KeyError(n)

    def get_node(self, n):
        return self._find(self.nodes, n)

    def get_link(self, n):
        return self._find(self.links, n)

    def get_pattern(self, n):
        return types.SimpleNamespace(name=n)


def _quality_case(units, parameter, mass):
    def build(cx):
        from contracts.c17_units import qual_spec
        from wntr.epanet.util import QualParam
        nn, q = cx.name("node"), cx.real("initial_quality")
        cx.assume(cx.t(q) != 0)                    # a node with zero initial quality has no line (by design: zero is the default)
        nw = SymObj(Junction, dict(_name=nn, _initial_quality=q))
        nr = SymObj(Junction, dict(_name=nn, _initial_quality=None))
        wnw, wnr = _WnQ(nodes={nn: nw}, quality=parameter), _WnQ(nodes={nn: nr}, quality=parameter)
        inpw, inpr = _inp(units, wnw), _inp(units, wnr)
        inpw.fields["mass_units"] = inpr.fields["mass_units"] = mass
        cx.target(_roundtrip_call, InpFile._write_quality, InpFile._read_quality, "[QUALITY]", inpw, inpr, wnw)

        def post(out):
            if not out.returned:
                return []
            toks = inpr.fields["sections"]["[QUALITY]"][0][1].tokens() if out.value == 1 else []
            posts = [("one_line_per_node_with_an_initial_quality", out.value == 1),
                     ("initial_quality_round_trips_under_the_model_s_quality_parameter", _eqn(nr.fields["_initial_quality"], q) if nr.fields["_initial_quality"] is not None else False)]
            if toks:
                par = {"CHEMICAL": QualParam.Concentration, "AGE": QualParam.WaterAge}.get(parameter)
                k = qual_spec(par, units, mass, 1)[0] if par is not None else 1.0
                posts.append(("written_value_is_in_the_file_s_unit_for_the_quality_parameter", _within(Rr(toks[1]) * real_val(k), Rr(q), 1e-9)))
            return posts
        cx.ensure(post)
    return Case("%s,%s,%s" % (units.name, parameter, mass.name), build, crosscheck=False)


def _mixing_case(model):
    def build(cx):
        from wntr.network.elements import MixType
        tn, fr = cx.name("tank"), cx.real("mixing_fraction")
        tw = SymObj(Tank, dict(_name=tn, _mixing_model=model, _mixing_fraction=fr))
        tr = SymObj(Tank, dict(_name=tn, _mixing_model=None, _mixing_fraction=None))
        wnw, wnr = _WnQ(nodes={tn: tw}, tanks=[tn]), _WnQ(nodes={tn: tr}, tanks=[tn])
        cx.target(_roundtrip_call, InpFile._write_mixing, InpFile._read_mixing, "[MIXING]", _inp(FlowUnits.SI, wnw), _inp(FlowUnits.SI, wnr), wnw)

        def post(out):
            if not out.returned:
                return []
            same = {MixType.Mix1: (MixType.Mix1, MixType.Mixed), MixType.Mix2: (MixType.Mix2, MixType.TwoComp)}.get(model, (model,))
            posts = [("one_line_per_tank_with_a_mixing_model", out.value == 1),
                     ("mixing_model_round_trips", tr.fields["_mixing_model"] in same)]
            if model in (MixType.Mix2, MixType.TwoComp):
                posts.append(("two_compartment_fraction_round_trips", _eqn(tr.fields["_mixing_fraction"], fr) if tr.fields["_mixing_fraction"] is not None else False))
            return posts
        cx.ensure(post)
    return Case(str(model), build, crosscheck=False)


def _status_case(kind):
    """[STATUS]: kind in pump_closed / pump_speed / valve_open / valve_closed"""
    def build(cx):
        from wntr.network.elements import PowerPump
        ln = cx.name("link")
        if kind.startswith("pump"):
            speed = cx.real("speed")
            if kind == "pump_speed":
                cx.assume(cx.t(speed) != 1)         # speed 1 is the default: no line
            st = LinkStatus.Closed if kind == "pump_closed" else LinkStatus.Open
            lw = SymObj(PowerPump, dict(_link_name=ln, _initial_status=st, _initial_setting=speed, _user_status=st))
            lr = SymObj(PowerPump, dict(_link_name=ln, _initial_status=LinkStatus.Open, _initial_setting=1.0, _user_status=LinkStatus.Open))
            wnw, wnr = _WnQ(links={ln: lw}, pumps=[ln]), _WnQ(links={ln: lr}, pumps=[ln])
        else:
            st = LinkStatus.Open if kind == "valve_open" else LinkStatus.Closed
            S = cx.real("initial_setting")
            lw = SymObj(PRValve, dict(_link_name=ln, _initial_status=st, _initial_setting=S, _user_status=st))
            lr = SymObj(PRValve, dict(_link_name=ln, _initial_status=LinkStatus.Active, _initial_setting=S, _user_status=LinkStatus.Active))
            wnw, wnr = _WnQ(links={ln: lw}, valves=[ln]), _WnQ(links={ln: lr}, valves=[ln])
        cx.target(_roundtrip_call, InpFile._write_status, InpFile._read_status, "[STATUS]", _inp(FlowUnits.SI, wnw), _inp(FlowUnits.SI, wnr), wnw)

        def post(out):
            if not out.returned:
                return []
            posts = [("one_line_for_a_link_off_its_default_state", out.value == 1),
                     ("initial_status_round_trips", lr.fields["_initial_status"] is st),
                     ("the_status_in_force_at_time_zero_is_the_initial_status", lr.fields["_user_status"] is st)]
            if kind == "pump_speed":
                posts.append(("pump_speed_round_trips", _eqn(lr.fields["_initial_setting"], speed)))
            if kind.startswith("valve"):
                posts.append(("valve_setting_left_to_the_valves_section", lr.fields["_initial_setting"] is S))
            return posts
        cx.ensure(post)
    return Case(kind, build, crosscheck=False)


class _DemandList(NativeModel):
    """the demand list of a junction as the [DEMANDS] writer and reader use it: len, iteration, index, del [-1], append((base, pattern, category))"""

    def __init__(self, items):
        self.items = list(items)

    def __len__(self):
        return len(self.items)

    def __iter__(self):
        return iter(self.items)

    def __getitem__(self, i):
        return self.items[i]

    def __delitem__(self, i):
        del self.items[i]

    def append(self, x):
        self.items.append(x)


def _demands_case(units, n, with_pattern, with_category):
    def build(cx):
        jn = cx.name("junction")
        pats = [cx.name("pattern%d" % i) for i in range(n)]
        cats = [cx.name("category%d" % i) for i in range(n)]
        bases = [cx.real("base%d" % i) for i in range(n)]
        ds = [_Bag(base_value=bases[i], pattern_name=(pats[i] if with_pattern else None), category=(cats[i] if with_category else None)) for i in range(n)]
        from pyvc.values import NameSort, name_const
        low = z3.Function("lower_case", NameSort, NameSort)
        for c_ in cats:
            cx.assume(cx.t(c_) != name_const(""))                  # requires: a category is a non-empty text (an empty one is "no category")
            cx.assume(low(cx.t(c_)) != name_const("none"))          # requires: no category is literally the text 'none' (the writer's spelling of "no category")
        jw = SymObj(Junction, dict(_name=jn, _demand_timeseries_list=_DemandList(ds)))
        stale = _Bag(base_value=cx.real("demand_from_the_junctions_section"), pattern_name=None, category=None)
        lst = _DemandList([stale])
        jr = SymObj(Junction, dict(_name=jn, _demand_timeseries_list=lst))
        wnw = _WnQ(nodes={jn: jw}, junctions=[jn], patterns=(pats if with_pattern else []))
        wnr = _WnQ(nodes={jn: jr}, junctions=[jn])
        inpr = _inp(units, wnr)
        cx.target(_roundtrip_call, InpFile._write_demands, InpFile._read_demands, "[DEMANDS]", _inp(units, wnw), inpr, wnw)

        def post(out):
            if not out.returned:
                return []
            got = lst.items
            posts = [("one_line_per_demand_entry", out.value == n),
                     ("the_demands_section_replaces_the_entry_of_the_junctions_section_and_keeps_the_order", len(got) == n and all(isinstance(g, tuple) and len(g) == 3 for g in got))]
            if not (len(got) == n and all(isinstance(g, tuple) and len(g) == 3 for g in got)):
                return posts
            from contracts.c17_units import hyd_spec
            from wntr.epanet.util import HydParam
            kq = hyd_spec(HydParam.Flow, units, False)[0]
            lines = [ln[1].tokens() for ln in inpr.fields["sections"]["[DEMANDS]"]]
            for i, g in enumerate(got):
                posts.append(("demand_%d_base_value_round_trips" % i, _eqn(g[0], bases[i])))
                posts.append(("demand_%d_written_as_a_flow_in_the_file_s_flow_unit" % i, _within(Rr(lines[i][1]) * real_val(kq), Rr(bases[i]), 1e-6) if len(lines) == n else False))
                posts.append(("demand_%d_pattern_kept" % i, (getattr(g[1], "name", None) is not None and g[1].name.t.eq(pats[i].t)) if with_pattern else g[1] is None))
                if with_category:
                    c = g[2]
                    toks = c.tokens() if isinstance(c, SymStr) else [c]
                    posts.append(("demand_%d_category_kept" % i, len(toks) == 1 and isinstance(toks[0], SV) and toks[0].t.eq(cats[i].t)))
                else:
                    posts.append(("demand_%d_has_no_category" % i, g[2] is None))
            return posts
        cx.ensure(post)
    return Case("%s,%d entries,pattern=%s,category=%s" % (units.name, n, with_pattern, with_category), build, crosscheck=False)


class _PieceFile(NativeModel):
    """a file written in pieces (the [PATTERNS] writer starts each line with '\\n' and appends the further multipliers): lines are assembled from the
    pieces' tokens; a piece whose text starts with a newline starts a new line"""

    def __init__(self):
        self.lines = []

    def write(self, x):
        if isinstance(x, SymStr):
            starts_line = isinstance(x.fmt, str) and x.fmt.startswith("\n")
            toks = x.tokens()
            if starts_line or not self.lines:
                self.lines.append(list(toks))
            else:
                self.lines[-1].extend(toks)
        else:
            t = x.decode() if isinstance(x, bytes) else x
            if t.strip() and not t.lstrip().startswith(("[", ";")):
                raise Unsupported("an unexpected concrete data line in [PATTERNS]: %r" % t)
            if t.endswith("\n") and self.lines and self.lines[-1]:
                self.lines.append([])            # the line is closed


    def numbered_lines(self):
        return [(i + 1, SymStr((), tokens=t)) for i, t in enumerate(t for t in self.lines if t)]

    def every_line_starts_with_a_name(self):
        return all(isinstance(t[0], SV) and t[0].k == "name" and all(isinstance(x, SV) and x.k in ("real", "int") for x in t[1:]) for t in self.lines if t)

    def line_lengths(self):
        return [len(t) for t in self.lines if t]


def _patterns_roundtrip(inpw, inpr, wnw):
    f = _PieceFile()
    InpFile._write_patterns(inpw, f, wnw)
    if not f.every_line_starts_with_a_name():
        return None                      # the writer's own postcondition fails: nothing to hand to the reader
    inpr.sections["[PATTERNS]"] = f.numbered_lines()
    InpFile._read_patterns(inpr)
    return f.line_lengths()


def _patterns_case(k):
    def build(cx):
        pn = cx.name("pattern")
        from pyvc.values import name_const
        cx.assume(cx.t(pn) != name_const("1"))
        mult = [cx.real("multiplier%d" % i) for i in range(k)]
        pat = _Bag(multipliers=list(mult), name=pn)
        wnw = _Bag(pattern_name_list=[pn], get_pattern=lambda n: pat)
        wnr = WnR(pattern=None)
        cx.target(_patterns_roundtrip, _inp(FlowUnits.SI, wnw), _inp(FlowUnits.SI, wnr), wnw)

        def post(out):
            if not out.returned:
                return []
            want_lines = [1 + min(6, k - 6 * j) for j in range((k + 5) // 6)]
            if out.value is None:
                return [("every_line_is_the_pattern_name_followed_by_multipliers", False)]
            posts = [("six_multipliers_per_line_each_line_starting_with_the_pattern_name", out.value == want_lines),
                     ("one_pattern_read", len(wnr.calls) == 1 and wnr.calls[0][0] == "add_pattern")]
            if len(wnr.calls) != 1:
                return posts
            a_ = wnr.calls[0][1]
            posts.append(("pattern_name_kept", isinstance(a_[0], SV) and a_[0].t.eq(pn.t)))
            posts.append(("as_many_multipliers_as_written", len(a_[1]) == k))
            if len(a_[1]) == k:
                posts.append(("multipliers_round_trip_in_order", z3.And(*[_eqn(a_[1][i], mult[i]) for i in range(k)])))
            posts.append(("no_default_pattern_invented", wnr.options.hydraulic.pattern is None))
            return posts
        cx.ensure(post)
    return Case("%d multipliers" % k, build, crosscheck=False)


# ---------------------------------------------------------------------------- [OPTIONS]

_OPT_FLOATS_H = ("specific_gravity", "viscosity", "accuracy", "checkfreq", "maxcheck", "headerror", "flowchange", "damplimit", "demand_multiplier",
                 "pressure_exponent", "emitter_exponent")
_OPT_FLOATS_Q = ("diffusivity", "tolerance")


def _options_roundtrip(inpw, inpr, wnw, version):
    f = FileStub()
    InpFile._write_options(inpw, f, wnw, version)
    inpr.sections["[OPTIONS]"] = [(i + 1, ln) for i, ln in enumerate(f.lines)]
    InpFile._read_options(inpr)
    return len(f.lines)


def _options_case(units, version, demand_model, unbalanced, quality):
    def build(cx):
        from contracts.c17_units import hyd_spec
        from wntr.epanet.util import HydParam
        hv = {k: cx.real(k) for k in _OPT_FLOATS_H}
        qv = {k: cx.real(k) for k in _OPT_FLOATS_Q}
        trials = cx.int("trials")
        pmin, preq = cx.real("minimum_pressure"), cx.real("required_pressure")
        pat = cx.name("default_pattern")
        ub, ubv = unbalanced
        qpar, qextra = quality
        hw = _Bag(headloss="H-W", trials=trials, unbalanced=ub, unbalanced_value=ubv, pattern=pat, demand_model=demand_model, minimum_pressure=pmin,
                  required_pressure=preq, inpfile_pressure_units=None, hydraulics=None, hydraulics_filename=None, inpfile_units=units.name, **hv)
        qw = _Bag(parameter=qpar, trace_node=(cx.name("trace_node") if qpar == "TRACE" else None), chemical_name=(cx.name("chemical") if qpar == "CHEMICAL" else "CHEMICAL"),
                  inpfile_units=(qextra or "mg/L"), **qv)
        if qpar == "CHEMICAL":
            from pyvc.values import NameSort, name_const
            up = z3.Function("upper_case", NameSort, NameSort)
            for kw_ in ("NONE", "AGE", "TRACE"):          # requires: the chemical is not named like a quality mode (the INP syntax cannot tell them apart)
                cx.assume(up(cx.t(qw.chemical_name)) != name_const(kw_))
        # the reader's model starts from the defaults of a new WaterNetworkModel
        hr = _Bag(headloss=None, trials=None, unbalanced=None, unbalanced_value=None, pattern=None, demand_model="DDA", minimum_pressure=0.0, required_pressure=0.07,
                  inpfile_pressure_units=None, hydraulics=None, hydraulics_filename=None, inpfile_units=None, **{k: (0 if k in ("headerror", "flowchange", "damplimit") else None) for k in _OPT_FLOATS_H})
        hr.pressure_exponent = 0.5
        qr = _Bag(parameter="NONE", trace_node=None, chemical_name="CHEMICAL", inpfile_units="mg/L", **{k: None for k in _OPT_FLOATS_Q})
        tm = _Bag(report_timestep=3600, hydraulic_timestep=3600)
        wnw = _Bag(options=_Bag(hydraulic=hw, quality=qw, time=tm, graphics=_Bag(map_filename=None)))
        wnr = _Bag(options=_Bag(hydraulic=hr, quality=qr, time=tm, graphics=_Bag(map_filename=None)))
        inpw, inpr = _inp(units, wnw), _inp(FlowUnits.SI if units is not FlowUnits.SI else FlowUnits.GPM, wnr)     # the reader learns the unit from the UNITS line
        inpr.fields["mass_units"] = None
        cx.target(_options_roundtrip, inpw, inpr, wnw, version)

        def post(out):
            if not out.returned:
                return []
            kp = hyd_spec(HydParam.Pressure, units, False)[0]
            posts = [("flow_unit_of_the_file_announced_and_read_back", inpr.fields["flow_units"] is units and hr.inpfile_units == units.name),
                     ("headloss_formula_kept", hr.headloss == "H-W"),
                     ("trials_round_trip", _eqn(hr.trials, trials) if hr.trials is not None else False),
                     ("unbalanced_policy_round_trips", hr.unbalanced == ub and (hr.unbalanced_value == ubv)),
                     ("default_pattern_kept", isinstance(hr.pattern, SV) and hr.pattern.t.eq(pat.t))]
            lost_in_20 = ("headerror", "flowchange") if version == 2.0 else ()
            pda = demand_model in ("PDA", "PDD")
            for k in _OPT_FLOATS_H:
                if k in lost_in_20 or (k == "pressure_exponent" and not (pda and version != 2.0)):
                    continue
                got = getattr(hr, k)
                if k in ("headerror", "flowchange", "damplimit"):
                    posts.append(("%s_round_trips_zero_meaning_not_written" % k, _eqn(got, hv[k])))
                else:
                    posts.append(("%s_round_trips" % k, _eqn(got, hv[k]) if got is not None else False))
            for k in _OPT_FLOATS_Q:
                got = getattr(qr, k)
                posts.append(("%s_round_trips" % k, _eqn(got, qv[k]) if got is not None else False))
            if pda and version != 2.0:
                posts.append(("demand_model_kept", hr.demand_model == demand_model))
                posts.append(("minimum_pressure_round_trips_as_a_pressure", _eqn(hr.minimum_pressure, pmin)))
                lim = real_val(0.1) * real_val(kp)
                posts.append(("required_pressure_round_trips_as_a_pressure_clamped_to_epanet_s_lower_limit",
                              z3.If(Rr(preq) >= lim, Rr(hr.required_pressure) == Rr(preq), _within(Rr(hr.required_pressure), lim, 1e-9))))
                toks = [ln[1].tokens() for ln in inpr.fields["sections"]["[OPTIONS]"] if isinstance(ln[1], SymStr)]
                mp = [t for t in toks if t[:2] == ["MINIMUM", "PRESSURE"]]
                posts.append(("minimum_pressure_written_in_psi_or_metres", _within(Rr(mp[0][2]) * real_val(kp), Rr(pmin), 1e-6) if len(mp) == 1 else False))
            else:
                posts.append(("demand_driven_model_left_alone", hr.demand_model == "DDA"))
            if qpar == "TRACE":
                posts.append(("trace_node_kept", qr.parameter == "TRACE" and isinstance(qr.trace_node, SV) and qr.trace_node.t.eq(qw.trace_node.t)))
            elif qpar == "CHEMICAL":
                posts.append(("chemical_name_and_mass_unit_kept", qr.parameter == "CHEMICAL" and isinstance(qr.chemical_name, SV) and qr.chemical_name.t.eq(qw.chemical_name.t)
                              and inpr.fields["mass_units"] is (MassUnits.ug if "ug" in qw.inpfile_units else MassUnits.mg) and qr.inpfile_units == qw.inpfile_units))
            else:
                posts.append(("quality_parameter_kept", qr.parameter == qpar))
            return posts
        cx.ensure(post)
    return Case("%s,%s,%s,unbalanced=%s,%s" % (units.name, version, demand_model, unbalanced[0], "/".join(str(x) for x in quality if x)), build, crosscheck=False)


# ---------------------------------------------------------------------------- simple controls: [CONTROLS] lines

def _token_models():
    m = library.build_models()

    def upper(interp, args, kw):
        v = args[0]
        if v.k in ("int", "real"):
            return v
        from pyvc.values import NameSort
        return SV(z3.Function("upper_case", NameSort, NameSort)(v.t), "name")
    m.register("sym:SV.upper", upper, trusted="token model: upper() of a numeric token is the token; of a name some name")

    def lower(interp, args, kw):
        v = args[0]
        if v.k in ("int", "real"):
            return v
        from pyvc.values import NameSort
        return SV(z3.Function("lower_case", NameSort, NameSort)(v.t), "name")
    m.register("sym:SV.lower", lower, trusted="token model: lower() of a name is some name")
    return m


def _control_models():
    import wntr.network.controls as ctl
    m = library.build_models()

    def upper(interp, args, kw):
        v = args[0]
        if v.k in ("int", "real"):
            return v                  # token model: a numeric token has no letters
        from pyvc.values import NameSort
        f = z3.Function("upper_case", NameSort, NameSort)
        return SV(f(v.t), "name")     # a name in upper case is some (possibly different) name
    m.register("sym:SV.upper", upper, trusted="token model: upper() of a numeric token is the token")
    m.register(ctl.ControlAction, lambda interp, args, kw: ("ControlAction", tuple(args)), verified_by="ControlAction.__init__ (contracts/c05_conditions.py)")
    m.register(ctl.Control._conditional_control, lambda interp, args, kw: ("conditional", tuple(args)), verified_by="Control._conditional_control stores its arguments (C05)")
    m.register(ctl.Control._time_control, lambda interp, args, kw: ("time", tuple(args)), verified_by="Control._time_control (contracts/c04_time.py)")
    return m


class _CtlModel(NativeModel):
    def __init__(self, ctl, elems):
        self.ctl, self.elems = ctl, elems
        self.added = []
        self.control_name_list = []
        self.name = "net"

    def controls(self):
        return [("c1", self.ctl)]

    def _find(self, name):
        for n, e in self.elems:
            if isinstance(n, SV) and isinstance(name, SV) and n.t.eq(name.t):
                return e
        raise KeyError(name)

    get_link = _find
    get_node = _find

    def add_control(self, name, obj):
        self.added.append((name, obj))


def _control_case(units, src_kind, relation_below, target_cls, attribute, strict=True):
    def build(cx):
        import numpy as _np
        import wntr.network.controls as ctl
        from wntr.network.elements import HeadPump
        tn, sn = cx.name("link"), cx.name("node")
        cx.assume(cx.t(tn) != cx.t(sn))
        # requires: element names are not keywords of the [CONTROLS] syntax (the reader looks for them among the upper-cased words of the line)
        from pyvc.values import NameSort, name_const
        up = z3.Function("upper_case", NameSort, NameSort)
        for kw in ("TIME", "CLOCKTIME", "IF", "AT", "ABOVE", "BELOW", "OPEN", "OPENED", "CLOSED", "ACTIVE", "JUNCTION", "TRUE", "FALSE", "AM", "PM"):
            cx.assume(up(cx.t(tn)) != name_const(kw), up(cx.t(sn)) != name_const(kw), cx.t(tn) != name_const(kw), cx.t(sn) != name_const(kw))
        tcls = HeadPump if target_cls == "pump" else target_cls
        target = SymObj(tcls, dict(_link_name=tn))
        src = SymObj(Tank if src_kind == "Tank" else Junction, dict(_name=sn))
        thr = cx.real("threshold")
        val = cx.real("value") if attribute != "status" else LinkStatus.Closed
        act = SymObj(ctl.ControlAction, dict(_target_obj=target, _attribute=attribute, _value=val))
        cond = SymObj(ctl.ValueCondition, dict(_source_obj=src, _source_attr=("level" if src_kind == "Tank" else "pressure"),
                                              _relation=((ctl.Comparison.lt if strict else ctl.Comparison.le) if relation_below else
                                                         (ctl.Comparison.gt if strict else ctl.Comparison.ge)), _threshold=thr))
        control = SymObj(ctl.Control, dict(_condition=cond, _then_actions=[act], _else_actions=[], _control_type=ctl._ControlType.postsolve, _name="c1"))
        wnw = _CtlModel(control, [(tn, target), (sn, src)])
        wnr = _CtlModel(None, [(tn, target), (sn, src)])
        inpr = _inp(units, wnr)
        cx.target(_roundtrip_call, InpFile._write_controls, InpFile._read_controls, "[CONTROLS]", _inp(units, wnw), inpr, wnw)

        def post(out):
            if not out.returned:
                return []
            posts = [("one_line_written_one_control_read", out.value == 1 and len(wnr.added) == 1)]
            if len(wnr.added) != 1 or wnr.added[0][1][0] != "conditional":
                return posts + [("read_back_as_a_conditional_control", False)]
            node, attr, oper, threshold, action = wnr.added[0][1][1][:5]
            a_args = action[1]
            # what EPANET is told (the syntax of [CONTROLS]: tank level in ft / m, junction pressure in psi / m, valve settings in the unit of the valve type)
            from contracts.c17_units import hyd_spec
            from wntr.epanet.util import HydParam
            toks = inpr.fields["sections"]["[CONTROLS]"][0][1].tokens()
            k_thr, _ = hyd_spec(HydParam.HydraulicHead if src_kind == "Tank" else HydParam.Pressure, units, False)
            posts.append(("written_threshold_is_in_the_unit_the_controls_syntax_prescribes", _within(Rr(toks[7]) * real_val(k_thr), Rr(thr))))
            if attribute == "setting":
                par = {"PRValve": HydParam.Pressure, "PSValve": HydParam.Pressure, "PBValve": HydParam.Pressure, "FCValve": HydParam.Flow}.get(tcls.__name__)
                k_set = hyd_spec(par, units, False)[0] if par is not None else 1.0
                posts.append(("written_setting_is_in_the_unit_of_its_valve_type", _within(Rr(toks[2]) * real_val(k_set), Rr(val))))
            posts += [("condition_node_and_attribute_kept", node is src and attr == ("level" if src_kind == "Tank" else "pressure")),
                      ("above_below_kept", oper is (_np.less if relation_below else _np.greater)),
                      ("threshold_round_trips_as_head_for_tanks_and_pressure_for_junctions", _eqn(threshold, thr)),
                      ("action_target_and_attribute_kept", a_args[0] is target and a_args[1] == attribute),
                      ("action_value_round_trips_in_the_unit_of_its_element_type",
                       _eqn(a_args[2], val) if attribute != "status" else (a_args[2] == LinkStatus.Closed.value))]
            return posts
        cx.ensure(post)
    nm = target_cls if isinstance(target_cls, str) else target_cls.__name__
    return Case("%s,if_%s_%s%s,%s_%s" % (units.name, src_kind, "below" if relation_below else "above", "" if strict else "_or_equal", nm, attribute), build, crosscheck=False)


_CTL_KINDS = [("Tank", False, Pipe, "status"), ("Junction", True, Pipe, "status"), ("Junction", False, PRValve, "setting"), ("Tank", True, PSValve, "setting"),
              ("Junction", True, PBValve, "setting"), ("Tank", False, FCValve, "setting"), ("Junction", False, TCValve, "setting"), ("Tank", True, "pump", "base_speed")]

_U = [getattr(FlowUnits, u) for u in UNITS]
_pair_trust = ["token model: float(format(v)) == v for the 11/12-significant-digit formats, names contain no blanks",
               "to_si / from_si are exact inverses with the right parameter (C17, proved)",
               "the [SECTION] splitter of InpFile.read hands each data line to the section reader (bounded by C12.round_trip)"]
from wntr.network.elements import MixType as _MixType

CONTRACTS = [
    Contract("wntr.epanet.io:InpFile._write_pipes/_read_pipes", P, [_pipe_case(u, hl, st, cv) for u in _U for hl in ("H-W", "D-W")
                                                                      for (st, cv) in ((LinkStatus.Open, False), (LinkStatus.Closed, False), (LinkStatus.Open, True))],
             interpret_always=(_roundtrip_call,), trusted=_pair_trust),
    Contract("wntr.epanet.io:InpFile._write_junctions/_read_junctions", P, [_junction_case(u, p_) for u in _U for p_ in (False, True)],
             interpret_always=(_roundtrip_call,), trusted=_pair_trust),
    Contract("wntr.epanet.io:InpFile._write_reservoirs/_read_reservoirs", P, [_reservoir_case(u, p_) for u in _U for p_ in (False, True)],
             interpret_always=(_roundtrip_call,), trusted=_pair_trust),
    Contract("wntr.epanet.io:InpFile._write_tanks/_read_tanks", P, [_tank_case(u, o) for u in _U for o in (False, True)],
             interpret_always=(_roundtrip_call,), trusted=_pair_trust),
    Contract("wntr.epanet.io:InpFile._write_pumps/_read_pumps", P + ["C03"],
             [_pump_case(u, k, s1, hp) for u in _U for (k, s1, hp) in (("POWER", True, False), ("POWER", False, True), ("HEAD", True, True), ("HEAD", False, False))],
             interpret_always=(_roundtrip_call,), trusted=_pair_trust + ["the head curve itself is read through [CURVES] (bounded round trip)"]),
    Contract("wntr.epanet.io:_EpanetRule.add_control_condition/add_action_on_true/add_action_on_false/generate_control", P + ["C03", "C13"],
             [_rule_case(u, ck, _ACT_KINDS[ck % 6], _ACT_KINDS[(ck + 2) % 6]) for u in _U for ck in range(len(_COND_KINDS))],
             models=_rule_models, interpret_always=(_rule_pair,),
             trusted=_pair_trust + ["text splitting of the [RULES] section into clauses (parse_rules_lines): bounded round trip"]),
    Contract("wntr.epanet.io:_EpanetRule.generate_control (premises joined by AND / OR)", P + ["C03", "C13"], [_rule_premises_case(o) for o in _premise_ops()],
             models=_rule_models, interpret_always=(_premise_pair,),
             trusted=_pair_trust + ["EPANET's premise evaluation (rules.c, evalpremises) as stated in the contract; differential: C03.wntr_vs_epanet (rules_mixing_and_or_text)"]),
    Contract("wntr.epanet.io:InpFile._write_controls/_read_controls/_read_control_line", P + ["C03", "C13"],
             [_control_case(u, *k) for u in _U for k in _CTL_KINDS] +
             [_control_case(u, *k, strict=False) for u in (FlowUnits.GPM, FlowUnits.LPS) for k in _CTL_KINDS[:4]], models=_control_models, interpret_always=(_roundtrip_call,),
             note="conditional simple controls (tank level / junction pressure, above / below) with a status, valve setting or pump speed action; "
                  "time and clock-time controls are in the bounded round trip",
             trusted=_pair_trust),
    Contract("wntr.epanet.io:InpFile._write_emitters/_read_emitters", P + ["C03"], [_emitter_case(u) for u in _U], interpret_always=(_roundtrip_call,), trusted=_pair_trust),
    Contract("wntr.epanet.io:InpFile._write_energy/_read_energy", P, [_energy_case(u) for u in _U], interpret_always=(_roundtrip_call,),
             note="global price / efficiency / demand charge and one pump with its own price; efficiency curves and patterns are in the bounded round trip", trusted=_pair_trust),
    Contract("wntr.epanet.io:InpFile._write_reactions/_read_reactions", P, [_reaction_case(u, b, w) for u in _U for (b, w) in ((1, 1), (2, 0), (0, 1), (2, 1))] +
             [_reaction_case(u, b, w, t) for u in (FlowUnits.GPM, FlowUnits.LPS) for (b, w, t) in ((1, 1, 2), (2, 1, 1), (0, 0, 1))],
             models=_token_models, interpret_always=(_roundtrip_call,),
             note="one pipe, one tank, global coefficients; the ORDER lines follow the coefficients in the written text", trusted=_pair_trust),
    Contract("wntr.epanet.io:InpFile._write_sources/_read_sources", P, [_source_case(u, t, hp) for u in _U for (t, hp) in (("MASS", False), ("CONCEN", True), ("SETPOINT", False), ("FLOWPACED", True), ("mass", True), ("Mass", False), ("concen", False))],
             models=_token_models, interpret_always=(_roundtrip_call,), trusted=_pair_trust),
    Contract("wntr.epanet.io:InpFile._write_curves", P + ["C03"], [_curve_case(u, t) for u in _U for t in ("HEAD", "VOLUME", "EFFICIENCY", "HEADLOSS", None)],
             interpret_always=(_write_only,),
             note="pump head curves: flow / head; tank volume curves: depth / volume; efficiency curves: flow / percent; GPV head loss curves: flow / head loss "
                  "in feet or metres (EPANET manual); untyped curves are written as they are",
             trusted=_pair_trust),
    Contract("wntr.epanet.io:InpFile._write_patterns/_read_patterns", P + ["C20"], [_patterns_case(k_) for k_ in (1, 5, 6, 7, 12, 13)],
             interpret_always=(_patterns_roundtrip,), models=_token_models,
             trusted=_pair_trust + ["token model applied to '{:f}' (six decimals): the text round-off of multipliers is decided in the bounded layer only"]),
    Contract("wntr.epanet.io:InpFile._write_options/_read_options", P + ["C03", "C07"],
             [_options_case(u, v_, dm, ub_, q_) for u in _U for (v_, dm, ub_, q_) in ((2.2, "PDA", ("STOP", None), ("NONE", None)), (2.2, "DDA", ("CONTINUE", 10), ("CHEMICAL", "ug/L")),
                                                                                (2.0, "PDA", ("STOP", None), ("AGE", None)), (2.2, "PDD", ("CONTINUE", 10), ("TRACE", None)),
                                                                                (2.0, "DDA", ("STOP", None), ("CHEMICAL", "mg/L")))],
             interpret_always=(_options_roundtrip,), models=_token_models,
             trusted=_pair_trust + ["token model applied to '{:.2f}' (minimum / required pressure): the text round-off is decided in the bounded layer only"]),
    Contract("wntr.epanet.io:InpFile._write_quality/_read_quality", P, [_quality_case(u, par, mu) for u in (FlowUnits.GPM, FlowUnits.LPS, FlowUnits.CMH)
                                                                        for par in ("CHEMICAL", "AGE", "TRACE", "NONE") for mu in (MassUnits.mg, MassUnits.ug)],
             interpret_always=(_roundtrip_call,), trusted=_pair_trust),
    Contract("wntr.epanet.io:InpFile._write_mixing/_read_mixing", P, [_mixing_case(m_) for m_ in (_MixType.Mix1, _MixType.Mix2, _MixType.FIFO, _MixType.LIFO)],
             interpret_always=(_roundtrip_call,), trusted=_pair_trust),
    Contract("wntr.epanet.io:InpFile._write_status/_read_status", P + ["C02", "C03"], [_status_case(k_) for k_ in ("pump_closed", "pump_speed", "valve_open", "valve_closed")],
             interpret_always=(_roundtrip_call,), models=_token_models, trusted=_pair_trust),
    Contract("wntr.epanet.io:InpFile._write_demands/_read_demands", P + ["C01"], [_demands_case(u, n_, wp, wc) for u in _U for (n_, wp, wc) in ((2, True, True), (2, False, False), (1, True, True), (3, True, False))],
             interpret_always=(_roundtrip_call,), models=_token_models, trusted=_pair_trust),
    Contract("wntr.epanet.io:InpFile._write_curves/_read_curves + the section that uses the curve", P + ["C03"],
             [_curve_pair_case(u, t) for u in _U for t in ("HEAD", "VOLUME", "HEADLOSS", "EFFICIENCY")], interpret_always=(_curve_pair_call,), models=_token_models,
             trusted=_pair_trust + ["token model applied to '{:12f}' (six decimals of curve points): text round-off is decided in the bounded layer only"]),
    Contract("wntr.epanet.io:InpFile._write_valves/_read_valves", P, [_valve_case(u, c) for u in _U for c in (PRValve, PSValve, PBValve, FCValve, TCValve)],
             interpret_always=(_roundtrip_call,), trusted=_pair_trust),
]
