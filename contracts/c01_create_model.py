"""hydraulics.create_hydraulic_model: which definitions the hydraulic model consists of (C01, C02, C07, C08).

The real function is executed against recording stubs of every constants / param / var / constraint builder.  Obligations,
per demand model (DD, DDA, PDD, PDA) and Hazen-Williams form: the mass balance of the demand model, exactly one head-loss
builder for pipes and one for each pump and valve type the simulator supports, the leak constraint and - in the
pressure-dependent modes - the demand curve are built, each once, with the model, the network and the *same* updater; every
parameter and variable builder a constraint depends on runs before any constraint builder; PBV / GPV valves, C-M / D-W head
loss and unknown modes are refused (NotImplementedError / ValueError) rather than silently ignored.
"""
import types

import z3

from pyvc.core import Contract, Case
from pyvc.values import NativeModel
from pyvc import library

import wntr.sim.hydraulics as hyd
from wntr.sim import aml
from wntr.sim.models import constants, var, param, constraint
from wntr.sim.models.utils import ModelUpdater

P = ["C01", "C02", "C07", "C08", "C09"]

CONSTANTS = ["hazen_williams_constants", "head_pump_constants", "leak_constants", "pdd_constants"]
PARAMS_ALWAYS = ["leak_coeff_param", "leak_area_param", "leak_poly_coeffs_param", "elevation_param", "hw_resistance_param", "minor_loss_param",
                 "tcv_resistance_param", "pump_power_param", "valve_setting_param"]
PARAMS_PDD = ["pmin_param", "pnom_param", "pdd_poly_coeffs_param"]
PARAM_FUNCS = ["source_head_param", "expected_demand_param"]
VARS_ALWAYS = ["flow_var", "head_var", "leak_rate_var"]
CONS_ALWAYS = ["head_pump_headloss_constraint", "power_pump_headloss_constraint", "prv_headloss_constraint", "psv_headloss_constraint",
               "tcv_headloss_constraint", "fcv_headloss_constraint", "leak_constraint"]


def _models(log):
    def build():
        m = library.build_models()
        m.register(aml.Model, lambda interp, args, kw: "model")
        m.register(ModelUpdater, lambda interp, args, kw: "updater")
        for nm in CONSTANTS:
            m.register(getattr(constants, nm), (lambda n: lambda interp, args, kw: log.append(("constants", n, tuple(args))))(nm), verified_by="contracts/builders.py, params.py")
        for nm in PARAM_FUNCS:
            m.register(getattr(param, nm), (lambda n: lambda interp, args, kw: log.append(("param", n, tuple(args))))(nm), verified_by="contracts/params.py, c01_results.py")
        for nm in dir(param):
            c = getattr(param, nm)
            if isinstance(c, type) and hasattr(c, "build") and nm.endswith("_param"):
                m.register(c.build.__func__, (lambda n: lambda interp, args, kw: log.append(("param", n, tuple(args[1:]), dict(kw))))(nm), verified_by="contracts/params.py")
        for nm in dir(var):
            f = getattr(var, nm)
            if isinstance(f, types.FunctionType) and nm.endswith("_var"):
                m.register(f, (lambda n: lambda interp, args, kw: log.append(("var", n, tuple(args), dict(kw))))(nm), verified_by="contracts/builders.py")
        for nm in dir(constraint):
            c = getattr(constraint, nm)
            if isinstance(c, type) and hasattr(c, "build") and nm.endswith("_constraint"):
                m.register(c.build.__func__, (lambda n: lambda interp, args, kw: log.append(("constraint", n, tuple(args[1:]), dict(kw))))(nm), verified_by="contracts/builders.py")
        return m
    return build


def _case(mode, hw, pbv=0, gpv=0, headloss="H-W"):
    log = []

    def build(cx):
        del log[:]
        # two junctions (one without demand), so that code which singles out elements by their attributes runs instead of tripping over the stub
        juncs = [("J0", types.SimpleNamespace(name="J0", base_demand=0.0, demand_timeseries_list=[], leak_status=False)),
                 ("J1", types.SimpleNamespace(name="J1", base_demand=0.01, demand_timeseries_list=[1], leak_status=False))]
        wn = types.SimpleNamespace(options=types.SimpleNamespace(hydraulic=types.SimpleNamespace(demand_model=mode, headloss=headloss)),
                                   pbv_name_list=["v"] * pbv, gpv_name_list=["g"] * gpv,
                                   junctions=lambda: list(juncs), junction_name_list=[n for n, _ in juncs], nodes=lambda *a: list(juncs), node_name_list=[n for n, _ in juncs],
                                   tanks=lambda: [], reservoirs=lambda: [], links=lambda *a: [], pipes=lambda: [], pumps=lambda: [], valves=lambda: [],
                                   num_junctions=2, num_nodes=2)
        refuse = pbv or gpv or headloss in ("C-M", "D-W")
        cx.allow_raise(NotImplementedError, bool(refuse))
        cx.allow_raise(ValueError, mode not in ("DD", "DDA", "PDD", "PDA") or hw not in ("default", "piecewise"))
        cx.target(hyd.create_hydraulic_model, wn, hw)

        def post(out):
            if out.kind == "raise":
                return [("refused_only_for_what_the_simulator_does_not_support", bool(refuse) or mode not in ("DD", "DDA", "PDD", "PDA") or hw not in ("default", "piecewise"))]
            pdd = mode in ("PDD", "PDA")
            cons = [e[1] for e in log if e[0] == "constraint"]
            pars = [e[1] for e in log if e[0] == "param"]
            vars_ = [e[1] for e in log if e[0] == "var"]
            want_cons = set(CONS_ALWAYS) | {"approx_hazen_williams_headloss_constraint" if hw == "default" else "piecewise_hazen_williams_headloss_constraint"} | \
                ({"pdd_mass_balance_constraint", "pdd_constraint"} if pdd else {"mass_balance_constraint"})
            want_pars = set(PARAMS_ALWAYS) | set(PARAM_FUNCS) | (set(PARAMS_PDD) if pdd else set())
            want_vars = set(VARS_ALWAYS) | ({"demand_var"} if pdd else set())
            first_con = min([i for i, e in enumerate(log) if e[0] == "constraint"] or [len(log)])
            args_ok = all(e[2] == ("model", wn, "updater") for e in log if e[0] == "constraint" or (e[0] == "param" and e[1] not in PARAM_FUNCS)) and \
                all(e[2] == ("model", wn) for e in log if e[0] == "var" or (e[0] == "param" and e[1] in PARAM_FUNCS)) and \
                all(e[2] == ("model",) for e in log if e[0] == "constants")
            whole = all(not any(v is not None for v in e[3].values()) for e in log if len(e) > 3)
            return [("refusal_cases_do_not_return", not refuse),
                    ("every_definition_is_built_over_the_whole_network_no_element_is_singled_out", whole),
                    ("mass_balance_of_the_demand_model_one_head_loss_law_per_link_type_leaks_and_demand_curve_each_built_once", sorted(cons) == sorted(want_cons)),
                    ("every_parameter_family_built_once", sorted(pars) == sorted(want_pars)),
                    ("every_variable_family_built_once", sorted(vars_) == sorted(want_vars)),
                    ("all_constants_defined", sorted(e[1] for e in log if e[0] == "constants") == sorted(CONSTANTS)),
                    ("constants_parameters_and_variables_before_any_constraint", all(e[0] == "constraint" for e in log[first_con:])),
                    ("every_builder_gets_the_model_the_network_and_the_one_updater", args_ok),
                    ("model_and_updater_returned", out.value == ("model", "updater"))]
        cx.ensure(post)
    return Case("mode=%s,HW=%s,pbv=%d,gpv=%d,headloss=%s" % (mode, hw, pbv, gpv, headloss), build, crosscheck=False), log


CONTRACTS = []
for _args in [(m_, h_) for m_ in ("DD", "DDA", "PDD", "PDA") for h_ in ("default", "piecewise")] + [("DD", "default", 1, 0), ("PDD", "default", 0, 1), ("DD", "default", 0, 0, "D-W"),
                                                                                                    ("DD", "default", 0, 0, "C-M"), ("XYZ", "default"), ("DD", "other")]:
    _c, _log = _case(*_args)
    CONTRACTS.append(Contract("wntr.sim.hydraulics:create_hydraulic_model", P, [_c], models=_models(_log), interpret_always=(hyd.create_hydraulic_model,),
                              trusted=["each builder's own contract (contracts/builders.py, params.py)"]))
