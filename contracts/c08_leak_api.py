"""C08 — add_leak / remove_leak on Junction and Tank (wntr.network.elements)."""
import z3

from pyvc.core import Contract, Case
from pyvc.values import SV
from wntr.network.elements import Junction, Tank
from wntr.network.controls import Control, SimTimeCondition, ControlAction, Comparison, _ControlType
from contracts._net import WN, mk_node

P = ["C08"]


def _add_leak_case(cls, with_start, with_end):
    def build(cx):
        area, cd = cx.real("area"), cx.real("cd")
        st = cx.int("start") if with_start else None
        en = cx.int("end") if with_end else None
        cx.assume(cx.t(area) >= 0, cx.t(cd) >= 0)
        if with_start:
            cx.assume(cx.t(st) >= 0)
        if with_end:
            cx.assume(cx.t(en) >= 0)
        node = mk_node(cx, cls, "N1", _leak_start_control_name="startctl", _leak_end_control_name="endctl")
        # the model the leak is added to: whatever its duration, clock and step options are at that moment (they may be changed before the run)
        import types
        topt = types.SimpleNamespace(duration=cx.int("duration_when_the_leak_is_added"), hydraulic_timestep=cx.int("hydraulic_timestep"), start_clocktime=cx.int("start_clocktime"),
                                     report_timestep=cx.int("report_timestep"), pattern_timestep=cx.int("pattern_timestep"), rule_timestep=cx.int("rule_timestep"), pattern_start=0)
        wn = WN(options=types.SimpleNamespace(time=topt))
        wn.sim_time = cx.int("sim_time_when_the_leak_is_added")
        cx.assume(cx.t(topt.duration) >= 0, cx.t(wn.sim_time) >= 0, cx.t(topt.hydraulic_timestep) > 0)
        cx.target(cls.add_leak, node, wn, area, cd, st, en)

        def post(out):
            if not out.returned:
                return []
            f = node.fields
            posts = [("leak_parameters_stored", z3.And(cx.t(f["_leak_area"]) == cx.t(area), cx.t(f["_leak_discharge_coeff"]) == cx.t(cd))),
                     ("leak_flagged", f["_leak"] is True),
                     ("status_unchanged_until_start", f["_leak_status"] is False)]
            names = [n for n, c in wn.controls_added]
            posts.append(("controls_exactly_for_given_times", names == (["startctl"] if with_start else []) + (["endctl"] if with_end else [])))
            for (nm, ctl) in wn.controls_added:
                when, val = (st, True) if nm == "startctl" else (en, False)
                cond = ctl.fields["_condition"]
                acts = ctl.fields["_then_actions"]
                ok_shape = (cond.cls is SimTimeCondition and cond.fields["_relation"] is Comparison.eq and
                            cond.fields["_repeat"] is False and len(acts) == 1 and
                            acts[0].fields["_target_obj"] is node and acts[0].fields["_private_attribute"] == "_leak_status" and
                            acts[0].fields["_value"] is val and cond.fields["_model"] is wn and
                            ctl.fields["_control_type"] is _ControlType.presolve)
                posts.append(("%s_is_time_control_setting_leak_status_%s" % (nm, val), ok_shape))
                th = cond.fields["_threshold"]
                posts.append(("%s_fires_at_given_time" % nm, cx.eq(cx.t(th) if isinstance(th, SV) else th, cx.t(when))))
            return posts
        cx.ensure(post)
    return Case("%s,start=%s,end=%s" % (cls.__name__, with_start, with_end), build, crosscheck=False)


def _remove_leak_case(cls, active):
    def build(cx):
        node = mk_node(cx, cls, "N1", _leak_start_control_name="startctl", _leak_end_control_name="endctl",
                       _leak=True, _leak_status=active, _leak_area=cx.real("area"), _leak_discharge_coeff=cx.real("cd"))
        wn = WN()
        cx.target(cls.remove_leak, node, wn)

        def post(out):
            if not out.returned:
                return []
            f = node.fields
            return [("leak_inactive_afterwards", f["_leak_status"] is False),
                    ("leak_flag_cleared", f["_leak"] is False),
                    ("both_controls_discarded", sorted(wn.controls_discarded) == ["endctl", "startctl"])]
        cx.ensure(post)
    return Case("%s,active=%s" % (cls.__name__, active), build, crosscheck=False)


CONTRACTS = [
    Contract("wntr.network.elements:Junction/Tank.add_leak", P,
             [_add_leak_case(c, s, e) for c in (Junction, Tank) for s in (True, False) for e in (True, False)],
             trusted=["WaterNetworkModel.add_control/_discard_control register/remove the control under the given name (C14)"]),
    Contract("wntr.network.elements:Junction/Tank.remove_leak", P,
             [_remove_leak_case(c, a) for c in (Junction, Tank) for a in (True, False)]),
]


# ---------------------------------------------------------------------------- bounded: the pressure-demand curve (C07) and the leak law (C08) on real runs

from pyvc.runner import Bounded


def _runs(which, i, n):
    def run(tier, seed):
        import sys, os
        sys.path.insert(0, os.path.dirname(os.path.dirname(os.path.abspath(__file__))))
        from bounded import c07_c08_runs
        return getattr(c07_c08_runs, which)(tier, seed, i, n)
    return run


BOUNDED = [Bounded("C07.curve_on_runs[%d/2]" % i, ["C07"], _runs("run_c07", i, 2), kind="real simulator on generated networks (not exhaustive)") for i in range(2)] + \
          [Bounded("C08.leaks_on_runs[%d/2]" % i, ["C08"], _runs("run_c08", i, 2), kind="real simulator on generated networks (not exhaustive)") for i in range(2)]
