"""C04 — time / clock-time conditions (wntr.network.controls). Sidecar contracts; /repo untouched.

Times are modelled as integers (seconds); the simulator refuses sub-second steps. The condition objects
are symbolic instances of the real classes with a stub model carrying the two time fields they read.
"""
import types

import z3

from pyvc.core import Contract, Case
from pyvc.runner import Lemma, Bounded
from wntr.network.controls import (SimTimeCondition, TimeOfDayCondition, Comparison)

P = ["C04"]
DAY = 86400


def _rel(rel, a, b):
    return {Comparison.gt: a > b, Comparison.ge: a >= b, Comparison.lt: a < b, Comparison.le: a <= b,
            Comparison.eq: a == b}[rel]


# ------------------------------------------------------------------------------------------------
# SimTimeCondition.evaluate

def _simtime_case(rel, repeat):
    """repeat: None (no repeat) | int r>0 (concrete period) | 'sym' (symbolic period)."""

    def build(cx):
        p, c, th = cx.int("p"), cx.int("c"), cx.int("th")
        cx.assume(cx.t(p) < cx.t(c), cx.t(th) >= 0, cx.t(p) >= -1)
        if repeat is None:
            r = False
        elif repeat == "sym":
            r = cx.int("r")
            cx.assume(cx.t(r) > 0)
        else:
            r = repeat
        model = cx.obj(types.SimpleNamespace, sim_time=c, _prev_sim_time=p)
        self_ = cx.obj(SimTimeCondition, _model=model, _threshold=th, _relation=rel, _repeat=r, _backtrack=0,
                       _first_time=0)
        cx.target(SimTimeCondition.evaluate, self_)
        cx.region("le_landing_step", z3.And(cx.t(p) < cx.t(th), cx.t(th) < cx.t(c)) if cx.mode == "symbolic" else (p < th < c))

        def post(out):
            if not out.returned:
                return []
            res = out.value
            bt = cx.interp.getattr(self_, "_backtrack") if cx.mode == "symbolic" else self_._backtrack
            P_, C_, TH = cx.t(p), cx.t(c), cx.t(th)
            resz = res.t if hasattr(res, "t") else z3.BoolVal(bool(res))
            if bt is None:
                return [("backtrack_is_a_number", z3.BoolVal(False))]
            B = bt.t if hasattr(bt, "t") else z3.IntVal(int(bt))
            if isinstance(B, z3.ArithRef) and B.is_real():
                B = z3.ToInt(B)
            posts = []
            if rel is Comparison.eq:
                if repeat is None:
                    fires = z3.And(P_ < TH, TH <= C_)
                    posts.append(("fires_iff_instant_in_step", resz == fires))
                    posts.append(("backtrack_to_instant", z3.Implies(resz, B == C_ - TH)))
                else:
                    R = cx.t(r) if repeat == "sym" else z3.IntVal(repeat)
                    k = z3.Int("k")  # free: universally quantified by validity
                    posts.append(("fires_at_every_instant", z3.Implies(z3.And(k >= 0, P_ < TH + k * R, TH + k * R <= C_), resz)))
                    posts.append(("fires_only_at_instant", z3.Implies(resz, z3.And(
                        (C_ - B - TH) % R == 0, C_ - B >= TH, P_ < C_ - B, C_ - B <= C_))))
            else:
                posts.append(("true_when_relation_holds_now", z3.Implies(_rel(rel, C_, TH), resz)))
                posts.append(("true_only_where_relation_holds", z3.Implies(resz, _rel(rel, C_ - B, TH))))
                if rel is Comparison.ge:
                    posts.append(("partial_step_to_threshold", z3.Implies(z3.And(P_ < TH, TH <= C_), B == C_ - TH)))
                if rel in (Comparison.gt, Comparison.lt):
                    posts.append(("exact_interval", resz == _rel(rel, C_, TH)))
                if rel in (Comparison.ge, Comparison.le):
                    # rules ignore the backtrack: what a rule sees is the value at its evaluation time
                    posts.append(("rule_sees_relation_at_evaluation_time", resz == _rel(rel, C_, TH)))
            posts.append(("backtrack_within_step", z3.And(B >= 0, z3.Implies(resz, B < C_ - P_))))
            return posts
        cx.ensure(post)
    nm = "rel=%s,repeat=%s" % (rel.name, repeat)
    # add_leak's start/end controls are non-repeating '=' conditions: only that case carries C08
    return Case(nm, build, properties=(P + ["C08"]) if (rel is Comparison.eq and repeat is None) else P)


_sim_cases = [_simtime_case(rel, None) for rel in (Comparison.eq, Comparison.gt, Comparison.ge, Comparison.lt, Comparison.le)]
_sim_cases += [_simtime_case(Comparison.eq, r) for r in (DAY, 3600, 7, "sym")]


# ------------------------------------------------------------------------------------------------
# TimeOfDayCondition.evaluate

def _tod_case(rel, repeat, first_day_mode):
    def build(cx):
        p, c, th, s = cx.int("p"), cx.int("c"), cx.int("th"), cx.int("s")
        cx.assume(cx.t(p) < cx.t(c), cx.t(th) >= 0, cx.t(th) < DAY, cx.t(p) >= -1, cx.t(s) >= 0, cx.t(s) < DAY,
                  cx.t(c) - cx.t(p) <= DAY)
        if first_day_mode == "zero":
            fd = 0
        else:
            fd = cx.int("fd")
            cx.assume(cx.t(fd) >= 0)
        if cx.mode == "symbolic":
            ps = cx.interp.binop(__import__("ast").Add, p, s)
            cs = cx.interp.binop(__import__("ast").Add, c, s)
        else:
            ps, cs = p + s, c + s
        model = cx.obj(types.SimpleNamespace, _shifted_time=cs, _prev_shifted_time=ps)
        self_ = cx.obj(TimeOfDayCondition, _model=model, _threshold=th, _relation=rel, _repeat=repeat, _backtrack=0,
                       _first_day=fd)
        cx.target(TimeOfDayCondition.evaluate, self_)

        def post(out):
            if not out.returned:
                return []
            res = out.value
            bt = cx.interp.getattr(self_, "_backtrack") if cx.mode == "symbolic" else self_._backtrack
            resz = res.t if hasattr(res, "t") else z3.BoolVal(bool(res))
            PS, CS, TH = cx.t(p) + cx.t(s), cx.t(c) + cx.t(s), cx.t(th)
            FD = cx.t(fd) if first_day_mode != "zero" else z3.IntVal(0)
            if bt is None:
                return [("backtrack_is_a_number", z3.BoolVal(False))]
            B = bt.t if hasattr(bt, "t") else z3.IntVal(int(bt))
            if isinstance(B, z3.ArithRef) and B.is_real():
                B = z3.ToInt(B)
            posts = [("backtrack_is_a_number", z3.BoolVal(True))]
            started = CS >= FD * DAY
            if repeat:
                tau = z3.Int("tau")
                if rel is Comparison.eq:
                    # tau is free: universally quantified by validity
                    posts.append(("fires_at_every_instant", z3.Implies(
                        z3.And(started, PS < tau, tau <= CS, tau % DAY == TH), resz)))
                    posts.append(("fires_only_at_instant", z3.Implies(resz, z3.And(
                        started, (CS - B) % DAY == TH, PS < CS - B, CS - B <= CS))))
                elif rel in (Comparison.gt, Comparison.ge):
                    posts.append(("after_true_exactly_from_threshold_to_midnight", resz == z3.And(started, CS % DAY >= TH)))
                    # the step in which the clock time passed: the control acts AT the instant (a partial step back to it), not at the end of the step
                    posts.append(("after_backtracks_to_the_instant_it_became_true_within_the_step",
                                  z3.Implies(z3.And(resz, (CS - TH) % DAY < CS - PS), B == (CS - TH) % DAY)))
                elif rel is Comparison.lt:
                    posts.append(("before_true_exactly_from_midnight_to_threshold", resz == z3.And(started, CS % DAY < TH)))
                elif rel is Comparison.le:
                    posts.append(("at_or_before_true_exactly_from_midnight_through_threshold", resz == z3.And(started, CS % DAY <= TH)))
            else:
                P2, C2 = PS - FD * DAY, CS - FD * DAY
                if rel is Comparison.eq:
                    posts.append(("fires_iff_instant_in_step", resz == z3.And(started, P2 < TH, TH <= C2)))
                    posts.append(("backtrack_to_instant", z3.Implies(resz, B == C2 - TH)))
                elif rel in (Comparison.gt, Comparison.ge):
                    posts.append(("after_true_from_threshold_on", resz == z3.And(started, C2 >= TH)))
                    posts.append(("after_backtracks_to_the_instant_it_became_true_within_the_step", z3.Implies(z3.And(resz, P2 < TH, TH <= C2), B == C2 - TH)))
                elif rel is Comparison.lt:
                    posts.append(("before_true_until_threshold", resz == z3.And(started, C2 < TH)))
                elif rel is Comparison.le:
                    posts.append(("at_or_before_true_through_threshold", resz == z3.And(started, C2 <= TH)))
            posts.append(("backtrack_within_step", z3.And(B >= 0, z3.Implies(resz, B < CS - PS))))
            return posts
        cx.ensure(post)
    return Case("rel=%s,repeat=%s,first_day=%s" % (rel.name, repeat, first_day_mode), build)


_tod_cases = [_tod_case(rel, rep, fdm) for rel in (Comparison.eq, Comparison.gt, Comparison.lt, Comparison.ge, Comparison.le)
              for rep in (True, False) for fdm in ("zero", "sym")]

def _tod_init_case(repeat, given_first_day):
    """what the constructor hands to evaluate: a daily (repeating) condition keeps the first day it was given - it holds on the start day too, whatever the
    start clock time; only a one-off condition whose clock time has already passed when the simulation starts waits for the next day"""
    def build(cx):
        th, s = cx.int("threshold_seconds"), cx.int("start_clocktime")
        cx.assume(cx.t(th) >= 0, cx.t(th) < DAY, cx.t(s) >= 0, cx.t(s) < DAY)
        model = cx.obj(types.SimpleNamespace, options=cx.obj(types.SimpleNamespace, time=cx.obj(types.SimpleNamespace, start_clocktime=s)))

        def make(m, rel, t, rep, fd):
            return TimeOfDayCondition(m, rel, t, rep, fd)
        cx.interp.interpret_always = tuple(cx.interp.interpret_always) + (make, TimeOfDayCondition)
        cx.target(make, model, Comparison.ge, th, repeat, given_first_day)

        def post(out):
            if not out.returned:
                return []
            c = out.value
            g = lambda a: cx.interp.getattr(c, a)
            fd = g("_first_day")
            FD = fd.t if hasattr(fd, "t") else z3.IntVal(int(fd))
            already_passed = z3.And(z3.BoolVal(not repeat), cx.t(th) < cx.t(s), z3.BoolVal(given_first_day < 1))
            from pyvc import library
            return [("threshold_relation_and_repeat_kept", z3.And(library.as_real(g("_threshold")) == z3.ToReal(cx.t(th)), z3.BoolVal(g("_relation") is Comparison.ge and g("_repeat") is repeat))),
                    ("a_daily_condition_starts_on_the_day_given_a_one_off_condition_already_passed_waits_a_day", FD == z3.If(already_passed, z3.IntVal(1), z3.IntVal(given_first_day))),
                    ("no_backtrack_pending", g("_backtrack") == 0)]
        cx.ensure(post)
    return Case("repeat=%s,first_day=%d" % (repeat, given_first_day), build, crosscheck=False)


CONTRACTS = [
    Contract("wntr.network.controls:SimTimeCondition.evaluate", P, _sim_cases,
             note="times are integers (seconds)"),
    Contract("wntr.network.controls:TimeOfDayCondition.__init__", P, [_tod_init_case(r, f) for r in (True, False) for f in (0, 1)],
             note="numeric threshold (seconds); clock-time texts go through _parse_value (bounded: C12.time_texts)"),
    Contract("wntr.network.controls:TimeOfDayCondition.evaluate", P, _tod_cases,
             note="times are integers; step length <= 1 day; shifted = sim + start_clocktime"),
]


# ---------------------------------------------------------------------------- the clock the time conditions read

def _clock_case(first_step):
    """WaterNetworkModel._shifted_time / _prev_shifted_time / _clock_time / _clock_day: seconds since 12 AM of the first day at the current and at the
    previously solved time (the sentinel -1 before the first solve, so that an instant equal to the start clock time lies in (prev, now])."""
    def build(cx):
        from wntr.network.model import WaterNetworkModel
        from pyvc import library
        st, sc = cx.int("sim_time"), cx.int("start_clocktime")
        pv = -1 if first_step else cx.int("prev_sim_time")
        cx.assume(cx.t(st) >= 0, cx.t(sc) >= 0, cx.t(sc) < 86400)
        if first_step:
            cx.assume(cx.t(st) == 0)
        else:
            cx.assume(cx.t(pv) >= 0, cx.t(pv) < cx.t(st))
        wn = cx.obj(WaterNetworkModel, sim_time=st, _prev_sim_time=pv, _options=types.SimpleNamespace(time=types.SimpleNamespace(start_clocktime=sc)))
        cx.target(_clock_views, wn)

        def post(out):
            if not out.returned:
                return []
            sh, psh, ct, cd = [library.as_int(v) for v in out.value]
            PV = z3.IntVal(-1) if first_step else cx.t(pv)
            return [("shifted_time_is_simulation_time_plus_start_clock_time", sh == cx.t(st) + cx.t(sc)),
                    ("previous_shifted_time_is_the_last_solved_time_plus_start_clock_time_and_lies_before_now", z3.And(psh == PV + cx.t(sc), psh < sh)),
                    ("clock_time_is_the_time_of_day", z3.And(ct >= 0, ct < 86400, (sh - ct) % 86400 == 0)),
                    ("clock_day_counts_whole_days_since_midnight_of_the_first_day", z3.And(cd * 86400 <= sh, sh < (cd + 1) * 86400))]
        cx.ensure(post)
    return Case("first_step=%s" % first_step, build, crosscheck=False)


def _clock_views(wn):
    # harness text: the four read-only views in one call
    return (wn._shifted_time, wn._prev_shifted_time, wn._clock_time, wn._clock_day)


CONTRACTS.append(Contract("wntr.network.model:WaterNetworkModel._shifted_time/_prev_shifted_time/_clock_time/_clock_day", P + ["C03"], [_clock_case(False), _clock_case(True)],
                          interpret_always=(_clock_views,), note="what TimeOfDayCondition.evaluate reads as (prev, now]; integer seconds"))


# ---------------------------------------------------------------------------- bounded: schedules on the real simulator

from pyvc.runner import Bounded


def _instants(i, n):
    def run(tier, seed):
        import sys, os
        sys.path.insert(0, os.path.dirname(os.path.dirname(os.path.abspath(__file__))))
        from bounded import c04_instants
        return c04_instants.run(tier, seed, i, n)
    return run


def _times_notations(tier, seed):
    from bounded import c04_instants as B
    return B.times_section_notations(tier, seed)


def _line_times(tier, seed):
    from bounded import c04_instants as B
    return B.control_line_times(tier, seed)


BOUNDED = [Bounded("C04.control_instants[%d/4]" % i, ["C04", "C05"], _instants(i, 4), kind="random schedules on the real simulator (not exhaustive)") for i in range(4)] + \
          [Bounded("C04.control_line_times", ["C04", "C12"], _line_times, kind="enumerated time notations of [CONTROLS] lines, run-time contract"),
           Bounded("C04.times_section_notations", ["C04", "C12", "C03"], _times_notations, kind="enumerated time notations of the [TIMES] section, run-time contract")]
