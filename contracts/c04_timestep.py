"""C04 / C10 / C16 — WNTRSimulator._compute_next_timestep_and_run_presolve_controls_and_rules.

The function is executed symbolically from the real source against *contract stubs* of its collaborators
(ControlChecker.check, control/rule run_control_action, ControlChangeTracker, update_tank_heads); the stubs carry
ghost state and emit the protocol obligations at the moment of each call. The main `while` loop is cut by an
inductive invariant (no bound on the number of rule instants in the step); the number of due presolve controls
(K = 2) and rules (R = 2) is fixed, their backtracks / priorities / outcomes are symbolic, and the two list sorts
are executed exactly (stable insertion sort forking on the comparisons).

Requires (SimInv, established by run_sim): prev < cur, rule_timestep > 0, rule_iter >= 1, rule_iter*rts > prev,
every backtrack b satisfies 0 <= b < cur - prev (ensures of the time / tank-level conditions).
"""
import types

import z3

from pyvc.core import Contract, Case
from pyvc.values import SV, SymObj, NativeModel
from pyvc import library
from pyvc.loops import while_invariant

import wntr.sim.hydraulics as hyd
from wntr.sim.core import WNTRSimulator

P = ["C04", "C05", "C06", "C10", "C16", "C08"]     # C06: the tank min / max level controls are presolve controls - their partial step is taken here
K, R = 2, 2
QN = "wntr.sim.core:WNTRSimulator._compute_next_timestep_and_run_presolve_controls_and_rules"
RDO = z3.Function("rule_condition_true", z3.IntSort(), z3.IntSort(), z3.BoolSort())     # rule j at time t
RCHG = z3.Function("rule_changes_something", z3.IntSort(), z3.IntSort(), z3.BoolSort())


def ival(v):
    return library.as_int(v)


class Ghost(NativeModel):
    """ghost state of the protocol: how many due controls ran, whether anything changed, time of the latest event."""

    def __init__(self, path, cur, prev):
        self.path, self.cur, self.prev = path, cur, prev
        self.nran = 0          # controls run so far (= list positions 0..nran-1)
        self.changed = False   # some action changed a tracked attribute since the 'presolve' reference point
        self.last = prev       # time of the latest control action / rule evaluation
        self.last_back = 0     # backtrack / priority of the last control that ran (meaningful iff nran > 0)
        self.last_prio = 0
        self.batch_prio = None  # priority of the last rule run in the current rule batch
        self.ref_set = False
        self.ref_removed = False
        self.tank_time = None  # sim_time at the last update_tank_heads call

    def ob(self, name, goal):
        self.path.oblige(name, goal, kind="protocol")


class Wn(NativeModel):
    def __init__(self, cur, prev, rts):
        self.sim_time = cur
        self._prev_sim_time = prev
        self.options = types.SimpleNamespace(time=types.SimpleNamespace(rule_timestep=rts))


class PCtl(NativeModel):
    def __init__(self, g, wn, sim, i, do, back, prio, chg, order):
        self.g, self.wn, self.sim, self.i, self.do, self.back, self._priority, self.chg, self.order = g, wn, sim, i, do, back, prio, chg, order

    def run_control_action(self):
        g = self.g
        lst = self.sim.sorted_list()
        pos = [c for c, b in lst].index(self)               # position in the sorted list of due controls
        back = lst[pos][1]                                   # the backtrack the function works with (0 on the first step)
        act_time = ival(g.cur) - ival(back)
        rts = ival(self.wn.options.time.rule_timestep)
        g.ob("due_controls_run_once_each_in_list_order", ival(g.nran) == pos)
        g.ob("controls_run_in_time_order_then_ascending_priority_highest_last",
             z3.Implies(ival(g.nran) > 0, z3.Or(ival(g.last_back) > ival(back),
                                                 z3.And(ival(g.last_back) == ival(back), ival(g.last_prio) <= ival(self._priority)))))
        g.ob("control_acts_no_earlier_than_everything_before_it", act_time >= ival(g.last))
        g.ob("every_rule_instant_up_to_the_control_instant_was_evaluated_first", ival(self.sim.fields["_rule_iter"]) * rts > act_time)
        g.nran = SV(ival(g.nran) + 1, "int")
        g.changed = SV(z3.Or(library.truth(g.changed) if not isinstance(g.changed, bool) else z3.BoolVal(g.changed), self.chg.t), "bool")
        g.last = SV(act_time, "int")
        g.last_back, g.last_prio = back, self._priority


class Rule(NativeModel):
    def __init__(self, g, wn, j, prio):
        self.g, self.wn, self.j, self._priority = g, wn, j, prio

    def run_control_action(self):
        g = self.g
        t = ival(self.wn.sim_time)
        if g.batch_prio is not None:
            g.ob("rules_due_at_one_instant_run_in_ascending_priority_highest_last", ival(g.batch_prio) <= ival(self._priority))
        g.batch_prio = self._priority
        chg = RCHG(z3.IntVal(self.j), t)
        g.changed = SV(z3.Or(library.truth(g.changed) if not isinstance(g.changed, bool) else z3.BoolVal(g.changed), chg), "bool")


class RuleChecker(NativeModel):
    def __init__(self, g, wn, sim, rules, first_step):
        self.g, self.wn, self.sim, self.rules, self.first_step = g, wn, sim, rules, first_step

    def check(self):
        g = self.g
        t = ival(self.wn.sim_time)
        rts = ival(self.wn.options.time.rule_timestep)
        k = ival(self.sim.fields["_rule_iter"]) - 1        # the instant being evaluated (rule_iter already advanced)
        g.ob("rules_evaluated_with_sim_time_at_a_rule_instant", t == k * rts)
        g.ob("rule_instants_are_positive_multiples_of_the_rule_timestep", k >= 1)
        g.ob("rule_instant_lies_in_the_current_step", z3.And(t > ival(g.prev), t <= ival(g.cur)))
        g.ob("rule_instants_evaluated_in_increasing_time_order_after_earlier_controls", t >= ival(g.last))
        if not self.first_step:
            g.ob("tank_levels_projected_to_the_rule_instant_before_rules_are_evaluated",
                 z3.BoolVal(False) if g.tank_time is None else ival(g.tank_time) == t)
        g.last = SV(t, "int")
        g.batch_prio = None
        out = []
        for r in self.rules:
            if g.path.branch(RDO(z3.IntVal(r.j), t)):
                out.append((r, 0))
        return out


class PreChecker(NativeModel):
    def __init__(self, g, ctls):
        self.g, self.ctls = g, ctls

    def check(self):
        return [(c, c.back) for c in self.ctls if self.g.path.branch(c.do.t)]


class Tracker(NativeModel):
    def __init__(self, g):
        self.g = g

    def set_reference_point(self, key):
        self.g.ob("reference_point_is_presolve", key == "presolve")
        self.g.ref_set = True

    def changes_made(self, ref_point=None):
        self.g.ob("changes_measured_against_presolve_reference", ref_point == "presolve" and self.g.ref_set)
        c = self.g.changed
        return c if isinstance(c, SV) else bool(c)

    def remove_reference_point(self, key=None):
        self.g.ref_removed = True

    def get_changes(self, ref_point=None):
        return []


def _models(gref):
    def build():
        m = library.build_models()

        def tank_heads(interp, args, kw):
            wn = args[0]
            wn.ghost.tank_time = wn.sim_time
            return None
        m.register(hyd.update_tank_heads, tank_heads, verified_by="wntr.sim.hydraulics:update_tank_heads (C06)")
        return m
    return build


def _b_at(lst, pos, what):
    """z3 term: backtrack / priority of the control at symbolic position pos of the concrete sorted list."""
    t = z3.IntVal(0)
    for i in reversed(range(len(lst))):
        c = lst[i][0]
        v = ival(lst[i][1]) if what == "back" else ival(c._priority)
        t = z3.If(pos == i, v, t)
    return t


def _inv(interp, env):
    sim = env.locals["self"]
    wn = sim.fields["_wn"]
    g = wn.ghost
    cnt = ival(env.locals["cnt"])
    lst = env.locals["presolve_controls_to_run"]
    n = len(lst)
    rts = ival(wn.options.time.rule_timestep)
    ri = ival(sim.fields["_rule_iter"])
    ch = library.truth(g.changed) if not isinstance(g.changed, bool) else z3.BoolVal(g.changed)
    inv = [("cnt_counts_the_controls_that_ran", z3.And(cnt >= 0, cnt <= n, ival(g.nran) == cnt)),
           ("nothing_changed_so_far", z3.Not(ch)),
           ("sim_time_restored_to_end_of_step", ival(wn.sim_time) == ival(g.cur)),
           ("next_rule_instant_after_latest_event", z3.And(ri >= 1, ri * rts > ival(g.last), ival(g.last) >= ival(g.prev), ival(g.last) <= ival(g.cur))),
           ("no_rule_instant_skipped_so_far", (ri - 1) * rts <= z3.If(ival(g.last) >= 0, ival(g.last), 0)),
           ("next_due_control_not_earlier_than_latest_event", z3.Implies(cnt < n, ival(g.last) <= ival(g.cur) - _b_at(lst, cnt, "back")))]
    if env.locals["first_step"] is True:
        inv.append(("initial_tank_levels_untouched_on_the_first_step", z3.BoolVal(g.tank_time is None)))
    if n > 0:
        inv.append(("last_run_control_is_the_previous_list_entry",
                    z3.Implies(cnt > 0, z3.And(ival(g.last_back) == _b_at(lst, cnt - 1, "back"), ival(g.last_prio) == _b_at(lst, cnt - 1, "prio")))))
    return inv


def _havoc(interp, env):
    def heap(interp, env):
        sim = env.locals["self"]
        wn = sim.fields["_wn"]
        g = wn.ghost
        p = interp.path
        sim.fields["_rule_iter"] = p.fresh("rule_iter", "int")
        wn.sim_time = p.fresh("sim_time", "int")
        g.nran, g.changed, g.last = p.fresh("nran", "int"), p.fresh("changed", "bool"), p.fresh("last", "int")
        g.last_back, g.last_prio = p.fresh("last_back", "int"), p.fresh("last_prio", "int")
        g.tank_time = None if env.locals["first_step"] is True else p.fresh("tank_time", "int")
        g.batch_prio = None
    return ["cnt", heap]


def _variant(interp, env):
    sim = env.locals["self"]
    wn = sim.fields["_wn"]
    g = wn.ghost
    n = len(env.locals["presolve_controls_to_run"])
    rts = ival(wn.options.time.rule_timestep)
    ri = ival(sim.fields["_rule_iter"])
    left = ival(g.cur) / rts - ri + 1          # rule instants still to evaluate in this step
    return (n - ival(env.locals["cnt"])) + z3.If(left > 0, left, 0)


def _case(first_step):
    def build(cx):
        cur, prev, rts, r0 = cx.int("cur"), cx.int("prev"), cx.int("rule_timestep"), cx.int("rule_iter")
        cx.assume(cx.t(prev) < cx.t(cur), cx.t(rts) > 0, cx.t(r0) >= 1, cx.t(r0) * cx.t(rts) > cx.t(prev), cx.t(prev) >= -1)
        cx.assume((cx.t(r0) - 1) * cx.t(rts) <= z3.If(cx.t(prev) >= 0, cx.t(prev), 0))      # requires: the next rule instant is the first one after the last solved time
        if first_step:   # run_sim: first_step iff sim_time == 0, and then _prev_sim_time = -1
            cx.assume(cx.t(cur) == 0, cx.t(prev) == -1)
        g = Ghost(cx.path, cur, prev)
        wn = Wn(cur, prev, rts)
        wn.ghost = g
        sim = cx.obj(WNTRSimulator, _wn=wn, _rule_iter=r0)
        ctls = []
        for i in range(K):
            do, back, prio, chg = cx.bool("due%d" % i), cx.int("back%d" % i), cx.int("prio%d" % i), cx.bool("chg%d" % i)
            cx.assume(cx.t(back) >= 0, cx.t(back) < cx.t(cur) - cx.t(prev), cx.t(prio) >= 0, cx.t(prio) <= 6)
            ctls.append(PCtl(g, wn, sim, i, do, back, prio, chg, order=None))
        rules = []
        for j in range(R):
            pr = cx.int("rule_prio%d" % j)
            cx.assume(cx.t(pr) >= 0, cx.t(pr) <= 6)
            rules.append(Rule(g, wn, j, pr))
        sim.fields["_presolve_controls"] = PreChecker(g, ctls)
        sim.fields["_rules"] = RuleChecker(g, wn, sim, rules, first_step)
        sim.fields["_change_tracker"] = Tracker(g)
        cx.sim, cx.g, cx.wn = sim, g, wn
        cx.target(WNTRSimulator._compute_next_timestep_and_run_presolve_controls_and_rules, sim, first_step)

        def post(out):
            if not out.returned:
                return []
            CUR, PREV, RTS = cx.t(cur), cx.t(prev), cx.t(rts)
            t2 = ival(wn.sim_time)
            ri = ival(sim.fields["_rule_iter"])
            ch = library.truth(g.changed) if not isinstance(g.changed, bool) else z3.BoolVal(g.changed)
            n_due = len(sim.sorted_list())
            return [("never_revisits_earlier_times_nor_passes_the_step_end", z3.And(t2 > PREV, t2 <= CUR)),
                    ("stops_exactly_at_the_instant_of_the_first_change", z3.Implies(ch, t2 == ival(g.last))),
                    ("without_a_change_the_whole_step_is_taken_and_everything_due_was_handled",
                     z3.Implies(z3.Not(ch), z3.And(t2 == CUR, ival(g.nran) == n_due, ri * RTS > CUR))),
                    ("next_rule_instant_lies_after_the_accepted_time", z3.And(ri >= 1, ri * RTS > t2)),
                    ("and_is_the_first_one_after_it_no_rule_instant_is_skipped", (ri - 1) * RTS <= z3.If(t2 >= 0, t2, 0)),
                    ("presolve_reference_point_removed", g.ref_set and g.ref_removed)] + (
                       [("initial_tank_levels_untouched_on_the_first_step", g.tank_time is None)] if first_step else [])
        cx.ensure(post)
    return Case("first_step=%s" % first_step, build, crosscheck=False)


def _sorted_list_hook():
    """the sorted list is a local of the function; the stubs reach it through the environment of the running call."""


class _SimCls:
    pass


def _loop_specs():
    def spec(interp, s, env):
        # expose the function's local list to the stubs (order of the due controls after the two sorts)
        sim = env.locals["self"]
        lst = env.locals["presolve_controls_to_run"]
        object.__setattr__(sim, "sorted_list", lambda: lst)
        return while_invariant(_inv, variant=_variant, havoc=_havoc)(interp, s, env)
    return {(QN, "test:cnt < len(presolve_controls_to_run) or"): spec}


CONTRACTS = [
    Contract(QN, P, [_case(False), _case(True)], models=_models(None), loop_specs=_loop_specs(),
             note="K=2 due presolve controls, R=2 rules (counts fixed, all values symbolic); the rule grid is unbounded (loop invariant + variant)",
             trusted=["ControlChecker.check returns the due controls with their backtracks in registration order (own contract, C05)",
                      "ControlChangeTracker.changes_made(ref) iff some tracked attribute differs from its value at the reference point (own contract, C05)",
                      "list.sort is a stable sort (executed exactly for the fixed K, R)"]),
]
