"""C18 — valve segmentation (bounded only; level 'exploration').

valve_segments / valve_segment_attributes are pandas + networkx code whose specification is graph reachability; no
inductive invariant over DataFrame operations is within pyvc's reach and transitive closure is not SMT material, so
no obligation is claimed as proved. The real functions are run behind a run-time contract over EVERY multigraph /
valve layer of a stated small scope (exhaustive), against a 15-line union-find reference.
"""
import itertools

from pyvc.runner import Bounded

P = ["C18"]


def _reference(nodes, links, valves):
    """partition induced by the valve layer: link l and its end node n are joined unless a valve sits at (l, n)."""
    parent = {("N", n): ("N", n) for n in nodes}
    parent.update({("L", l): ("L", l) for l, a, b in links})

    def find(x):
        while parent[x] != x:
            parent[x] = parent[parent[x]]
            x = parent[x]
        return x
    for l, a, b in links:
        for n in {a, b}:
            if (l, n) not in valves:
                parent[find(("L", l))] = find(("N", n))
    return {x: find(x) for x in parent}


def _run(shard, nshards):
    def run(tier, seed):
        import warnings
        import networkx as nx
        import numpy as np
        import pandas as pd
        import wntr
        warnings.simplefilter("ignore")
        evals, distinct, failures, samples = 0, set(), [], []
        max_nodes, max_links = (4, 3) if tier == "quick" else (4, 5)
        idx = 0
        for nn in range(2, max_nodes + 1):
            # names that contain the prefixes the function uses internally ('N_' + node, 'L_' + link), at the start and in the middle
            nodes = [("N_%d", "MAIN_%d", "n%d", "xL_%d")[i % 4] % i for i in range(nn)]
            pairs = list(itertools.combinations(nodes, 2))
            for nl in range(1, max_links + 1):
                for combo in itertools.combinations_with_replacement(pairs, nl):       # multisets of node pairs: parallel links included
                    links = [(("L_%d", "WELL_%d", "l%d", "N_%d", "xN_L_%d")[i % 5] % i, a, b) for i, (a, b) in enumerate(combo)]
                    inc = [(l, n) for l, a, b in links for n in (a, b)]
                    for mask in range(1 << len(inc)):
                        idx += 1
                        if idx % nshards != shard:
                            continue
                        valves = [inc[i] for i in range(len(inc)) if mask >> i & 1]
                        G = nx.MultiDiGraph()
                        G.add_nodes_from(nodes)
                        for l, a, b in links:
                            G.add_edge(a, b, key=l)
                        vl = pd.DataFrame(valves, columns=["link", "node"])
                        try:
                            ns, ls, sizes = wntr.metrics.valve_segments(G, vl.copy())
                        except Exception as e:
                            failures.append(dict(nodes=nodes, links=links, valves=valves, raised=repr(e)[:200]))
                            continue
                        evals += 1
                        distinct.add((nn, combo, mask))
                        ref = _reference(nodes, links, set(valves))
                        try:
                            lab = {("N", n): int(ns[n]) for n in nodes}
                            lab.update({("L", l): int(ls[l]) for l, a, b in links})
                        except KeyError as e:
                            failures.append(dict(nodes=nodes, links=links, valves=valves, problem="the result is not indexed by the node / link names: %r is missing" % (e.args[0],),
                                                 node_index=list(ns.index), link_index=list(ls.index)))
                            if len(failures) > 20:
                                break
                            continue
                        ok = all(v >= 1 for v in lab.values())
                        elems = list(lab)
                        for x, y in itertools.combinations(elems, 2):
                            if (lab[x] == lab[y]) != (ref[x] == ref[y]):
                                ok = False
                        for seg in set(lab.values()):
                            cn = sum(1 for k, v in lab.items() if v == seg and k[0] == "N")
                            cl = sum(1 for k, v in lab.items() if v == seg and k[0] == "L")
                            try:
                                if int(sizes.loc[seg, "node"]) != cn or int(sizes.loc[seg, "link"]) != cl:
                                    ok = False
                            except (KeyError, ValueError, TypeError):
                                ok = False            # the size table has no (or no usable) row for a segment that has members
                        if set(sizes.index) != set(lab.values()):
                            ok = False                # ... and no row for a segment without members
                        # the layer is a set of valves: a row listed twice and another row order describe the same layer
                        if ok and valves and idx % 3 == 0:
                            vl2 = pd.DataFrame([valves[0]] + valves[::-1], columns=["link", "node"])
                            try:
                                ns2, ls2, sizes2 = wntr.metrics.valve_segments(G, vl2)
                                lab2 = {("N", n): int(ns2[n]) for n in nodes}
                                lab2.update({("L", l): int(ls2[l]) for l, a, b in links})
                                same = all(v >= 1 for v in lab2.values()) and all((lab2[x] == lab2[y]) == (ref[x] == ref[y]) for x, y in itertools.combinations(elems, 2)) and \
                                    all(int(sizes2.loc[seg, "node"]) == sum(1 for k, v in lab2.items() if v == seg and k[0] == "N") and
                                        int(sizes2.loc[seg, "link"]) == sum(1 for k, v in lab2.items() if v == seg and k[0] == "L") for seg in set(lab2.values())) and \
                                    set(sizes2.index) == set(lab2.values())
                            except Exception as e:
                                same = False
                            if not same:
                                ok = False
                                failures.append(dict(nodes=nodes, links=links, valves=[valves[0]] + valves[::-1], duplicated_row_or_row_order_changes_the_segments=True))
                        # an UNDIRECTED multigraph of the same network (wn.to_graph().to_undirected()) gives the same segments, and the caller's graph
                        # is left as it was (it is reused for the next call)
                        if ok and idx % 3 == 2:
                            G2 = G.to_undirected()
                            before_edges = sorted((min(u, v), max(u, v), k) for u, v, k in G2.edges(keys=True))
                            try:
                                ns4, ls4, sizes4 = wntr.metrics.valve_segments(G2, vl.copy())
                                lab4 = {("N", n): int(ns4[n]) for n in nodes}
                                lab4.update({("L", l): int(ls4[l]) for l, a, b in links})
                                same = all(v >= 1 for v in lab4.values()) and all((lab4[x] == lab4[y]) == (ref[x] == ref[y]) for x, y in itertools.combinations(elems, 2))
                                same = same and sorted((min(u, v), max(u, v), k) for u, v, k in G2.edges(keys=True)) == before_edges and \
                                    sorted((min(u, v), max(u, v), k) for u, v, k in G.edges(keys=True)) == before_edges
                            except Exception as e:
                                same = False
                            if not same:
                                ok = False
                                failures.append(dict(nodes=nodes, links=links, valves=valves, undirected_input_gives_other_segments_or_is_modified=True))
                        # the layer is a table with NAMED columns: their order and further columns (wntr.gis.snap adds some) do not matter
                        if ok and valves and idx % 3 == 1:
                            vl3 = pd.DataFrame({"snap_distance": [0.5] * len(valves), "node": [v[1] for v in valves], "link": [v[0] for v in valves]})
                            try:
                                ns3, ls3, sizes3 = wntr.metrics.valve_segments(G, vl3)
                                lab3 = {("N", n): int(ns3[n]) for n in nodes}
                                lab3.update({("L", l): int(ls3[l]) for l, a, b in links})
                                same = all(v >= 1 for v in lab3.values()) and all((lab3[x] == lab3[y]) == (ref[x] == ref[y]) for x, y in itertools.combinations(elems, 2)) and \
                                    set(sizes3.index) == set(lab3.values())
                            except Exception as e:
                                same = False
                            if not same:
                                ok = False
                                failures.append(dict(nodes=nodes, links=links, valves=valves, columns=list(vl3.columns), column_order_or_an_extra_column_changes_the_segments=True))
                        # valve_segment_attributes
                        if ok and valves:
                            demand = pd.Series({n: float(i + 1) for i, n in enumerate(nodes)})
                            length = pd.Series({l: (0.0 if i % 2 == 1 else 10.0 * (i + 1)) for i, (l, a, b) in enumerate(links)})     # pumps and valves have no length
                            want_all = []
                            for vi, (l, n) in enumerate(valves):
                                s_l, s_n = lab[("L", l)], lab[("N", n)]
                                if s_l == s_n:
                                    want = (0, 0.0, 0.0)
                                else:
                                    members = [k for k, v in lab.items() if v in (s_l, s_n)]
                                    bound = set()
                                    for wi, (l2, n2) in enumerate(valves):
                                        if ("L", l2) in members or ("N", n2) in members:
                                            bound.add(wi)
                                    dn = sum(demand[k[1]] for k, v in lab.items() if v == s_n and k[0] == "N")
                                    dl = sum(demand[k[1]] for k, v in lab.items() if v == s_l and k[0] == "N")
                                    ln_ = sum(length[k[1]] for k, v in lab.items() if v == s_n and k[0] == "L")
                                    ll = sum(length[k[1]] for k, v in lab.items() if v == s_l and k[0] == "L")
                                    want = (len(bound) - 1, 0.0 if dn == 0 and dl == 0 else (dn + dl) / max(dn, dl) - 1,
                                            0.0 if ln_ == 0 and ll == 0 else (ln_ + ll) / max(ln_, ll) - 1)
                                want_all.append(want)
                            # the attributes are RELATIVE gains keyed by the valve number (the layer's index label): the same for demands / lengths in
                            # other units (a factor 1e-9, 1e6) and for the layer's rows listed in another order with their numbers attached
                            variants = [("as given", vl, 1.0, 1.0)]
                            if idx % 2 == 0:
                                variants.append(("rows in reverse order, numbers attached; demands x 1e-9, lengths x 1e6", vl.iloc[::-1], 1e-9, 1e6))
                            for vname, vlv, fd, fl in variants:
                                try:
                                    attr = wntr.metrics.valve_segment_attributes(vlv, ns, ls, demand=demand * fd, length=length * fl)
                                except Exception as e:
                                    ok = False
                                    failures.append(dict(nodes=nodes, links=links, valves=valves, variant=vname, raised=repr(e)[:200]))
                                    break
                                for vi, (l, n) in enumerate(valves):
                                    want = want_all[vi]
                                    got = (int(attr.loc[vi, "num_surround"]), float(attr.loc[vi, "demand_increase"]), float(attr.loc[vi, "length_increase"]))
                                    if got[0] != want[0] or not (abs(got[1] - want[1]) <= 1e-9) or not (abs(got[2] - want[2]) <= 1e-9):      # (NaN must not pass)
                                        ok = False
                                        failures.append(dict(nodes=nodes, links=links, valves=valves, valve=vi, variant=vname, attributes=got, expected=want))
                                        break
                                if not ok:
                                    break
                        elif not ok:
                            failures.append(dict(nodes=nodes, links=links, valves=valves, node_segments=ns.to_dict(), link_segments=ls.to_dict()))
                        if len(samples) < 3 and valves and len(links) > 1:
                            samples.append(dict(links=links, valves=valves, node_segments=ns.to_dict(), link_segments=ls.to_dict()))
                        if len(failures) > 20:
                            break
        return dict(evaluations=evals, distinct_nontrivial=len(distinct), failures=failures[:10], samples=samples, exhaustive=True,
                    scope="shard %d/%d of ALL multigraphs with 2..%d nodes and 1..%d links (parallel links included) x ALL valve layers (any subset of the "
                          "2 x links link-end incidences): labels positive, same label iff joined without passing a valve (union-find reference), segment "
                          "sizes count members, a duplicated row / reversed row order (every third case) and another column order with an extra column (every third case) give the same segments, an undirected input graph (every third case) gives the same segments and is not modified, valve_segment_attributes (other bounding valves, relative demand / length gained, 0 when both sides equal; every second case also with the rows reversed under their own numbers and demands / lengths in other units)"
                          % (shard, nshards, max_nodes, max_links))
    return run


NSH = 8
BOUNDED = [Bounded("C18.segments[%d/%d]" % (i, NSH), P, _run(i, NSH), kind="exhaustive-small-scope, run-time contract") for i in range(NSH)]
