"""C16 / C01 — wntr.sim.solvers.NewtonSolver.solve and wntr.sim.core._solver_helper.

Vectors are opaque terms of an uninterpreted sort; the aml model is a contract stub with the ghost field `loaded`
(the vector currently held by the model's variables). R(x) is the (uninterpreted) residual function of the model,
norm(v) the infinity norm. Contract: status `converged` is returned only if norm(R(loaded)) < tol (or the model has
no variables); every other exit returns `error`; both loops are bounded by maxiter / bt_maxiter.
"""
import types

import z3

from pyvc.core import Contract, Case
from pyvc.values import SV, SymObj, NativeModel, real_val
from pyvc import library
from pyvc.loops import for_seq_invariant

import scipy.sparse as sp
import scipy.sparse.linalg
from wntr.sim.solvers import NewtonSolver, SolverStatus
import wntr.sim.core as core

P = ["C16", "C01", "C02", "C07", "C08"]      # every law of the hydraulic model holds at a reported step only because "converged" means the loaded residual is below tol
V = z3.DeclareSort("Vec")
RES = z3.Function("R", V, V)                       # residual vector of the model at x
NORM = z3.Function("norm_inf", V, z3.RealSort())   # max(abs(v))
AXPY = z3.Function("axpy", V, z3.RealSort(), V, V)  # x + a*d
NEG = z3.Function("neg", V, V)
ABSV = z3.Function("absv", V, V)
LEN = z3.Function("len", V, z3.IntSort())
_n = [0]


class Vec(NativeModel):
    def __init__(self, t, scale=None):
        self.t = t

    def havoc(self, path):
        _n[0] += 1
        return Vec(z3.Const("vec!%d" % _n[0], V))

    def sym_len(self):
        return SV(LEN(self.t), "int")

    def sym_abs(self):
        return AbsVec(self.t)

    def __neg__(self):
        return Vec(NEG(self.t))

    def __add__(self, other):
        if isinstance(other, Scaled):
            return Vec(AXPY(self.t, other.a, other.v))
        if isinstance(other, Vec):
            return Vec(AXPY(self.t, z3.RealVal(1), other.t))
        return NotImplemented

    __iadd__ = __add__

    def __rmul__(self, a):
        return Scaled(library.as_real(a), self.t)


class Scaled(NativeModel):
    def __init__(self, a, v):
        self.a, self.v = a, v


class AbsVec(NativeModel):
    def __init__(self, t):
        self.t = t

    def sym_max(self):
        return SV(NORM(self.t), "real")


class Model(NativeModel):
    """contract stub of aml.Model: get_x / load_var_values_from_x / evaluate_residuals / evaluate_jacobian."""

    def __init__(self, x0):
        self.loaded = x0
        self.structure_set = False
        self.loads = 0

    def get_x(self):
        return Vec(self.loaded)

    def load_var_values_from_x(self, x):
        self.loaded = x.t
        self.loads += 1

    def evaluate_residuals(self):
        return Vec(RES(self.loaded))

    def evaluate_jacobian(self, x=None):
        return "J"

    def set_structure(self):
        self.structure_set = True


def _models():
    m = library.build_models()

    def spsolve(interp, args, kw):
        p = interp.path
        if p.branch(p.fresh("singular", "bool").t):
            raise library.PyRaise(sp.linalg.MatrixRankWarning("singular"))
        _n[0] += 1
        return Vec(z3.Const("step!%d" % _n[0], V))
    m.register(sp.linalg.spsolve, spsolve, trusted="scipy.sparse.linalg.spsolve returns some vector or raises MatrixRankWarning")
    return m


QS = "wntr.sim.solvers:NewtonSolver.solve"


def _outer_inv(loc, k, seq):
    model = loc["model"]
    x = loc["x"]
    inv = [("x_is_the_vector_loaded_in_the_model", x.t == model.loaded)]
    u = loc["use_r_"]
    ut = library.truth(u) if isinstance(u, SV) else z3.BoolVal(bool(u))
    if "r_" in loc and "new_norm" in loc:
        inv.append(("cached_residual_is_the_residual_of_the_loaded_vector",
                    z3.Implies(ut, z3.And(loc["r_"].t == RES(model.loaded), library.as_real(loc["new_norm"]) == NORM(RES(model.loaded))))))
    else:
        inv.append(("no_cached_residual_before_the_first_line_search", z3.Not(ut)))
    me = loc["self"]
    bt = me.fields["bt"]
    inv.append(("residual_cached_only_once_the_line_search_is_in_use",
                z3.Implies(ut, z3.And(z3.BoolVal(bool(bt)), k > library.as_int(me.fields["bt_start_iter"])))))
    return inv


def _outer_declare(path):
    _n[0] += 1
    return dict(r_=Vec(z3.Const("r_!%d" % _n[0], V)), new_norm=path.fresh("new_norm", "real"))


def _outer_havoc_model(loc):
    pass


def _inner_inv(loc, k, seq):
    # the line search never changes x (it is only rebound on acceptance, which breaks out)
    return [("alpha_positive", library.as_real(loc["alpha"]) > 0)]


def _solve_case(bt, has_ostream):
    def build(cx):
        maxiter, btmax, tol, rho = cx.int("maxiter"), cx.int("bt_maxiter"), cx.real("tol"), cx.real("rho")
        start = cx.int("bt_start_iter")
        cx.assume(cx.t(maxiter) >= 1, cx.t(btmax) >= 1, cx.t(tol) > 0, cx.t(rho) > 0, cx.t(rho) < 1, cx.t(start) >= 0)
        model = Model(z3.Const("x0", V))
        cx.assume(LEN(z3.Const("x0", V)) >= 0)
        solver = cx.obj(NewtonSolver, maxiter=maxiter, bt_maxiter=btmax, tol=tol, rho=rho, bt=bt, bt_start_iter=start,
                        time_limit=cx.real("time_limit"), log_progress=False, log_level=10)
        cx.model = model
        cx.target(_solve_havocking, solver, model)

        def post(out):
            if not out.returned:
                return []
            status, msg, it = out.value
            conv = status is SolverStatus.converged
            posts = [("status_is_converged_or_error", status in (SolverStatus.converged, SolverStatus.error)),
                     ("iteration_count_is_a_number_within_maxiter", z3.And(library.as_int(it) >= 0, library.as_int(it) <= cx.t(maxiter)))]
            if conv:
                posts.append(("converged_only_if_loaded_residual_below_tolerance_or_no_variables",
                              z3.Or(LEN(z3.Const("x0", V)) == 0, NORM(RES(model.loaded)) < cx.t(tol))))
            return posts
        cx.ensure(post)
    return Case("backtracking=%s" % bt, build, crosscheck=False)


def _solve_havocking(solver, model):
    return solver.solve(model)


def _loop_specs():
    # outer loop: model.loaded is heap state of the stub -> havoc it together with the locals
    outer = for_seq_invariant(_outer_inv, havoc=["x", "use_r_", "r_", "new_norm", "r", "r_norm", "d", "alpha", "x_", "J", "iter_bt"],
                              declare=_outer_declare)

    def outer_spec(interp, s, env, it):
        model = env.locals["model"]
        orig = outer

        # havoc of the model's loaded vector must happen together with the locals: wrap
        def inv(loc, k, seq):
            return _outer_inv(loc, k, seq)
        res = None
        # entry check, then havoc (locals by the rule; the heap field here)
        _n[0] += 1
        fresh_loaded = z3.Const("loaded!%d" % _n[0], V)
        state = {"first": True}

        def declare(path):
            model.loaded = fresh_loaded
            return _outer_declare(path)
        rule = for_seq_invariant(_outer_inv, havoc=["x", "use_r_", "r", "r_norm", "d", "alpha", "x_", "J", "iter_bt"], declare=declare)
        return rule(interp, s, env, it)
    inner = for_seq_invariant(_inner_inv, havoc=["alpha", "x_", "r_", "new_norm"], allow_break=True)

    def inner_spec(interp, s, env, it):
        # x_ / r_ / new_norm and the model's loaded vector are rewritten by every line-search iteration
        model = env.locals["model"]
        _n[0] += 1
        fresh = z3.Const("loaded_ls!%d" % _n[0], V)

        def declare(path):
            model.loaded = fresh
            return {}
        rule = for_seq_invariant(_inner_inv, havoc=["alpha", "x_", "r_", "new_norm"], allow_break=True, declare=declare)
        return rule(interp, s, env, it)
    return {(QS, 1): outer_spec, (QS, 2): inner_spec}


# ---------------------------------------------------------------------------- _solver_helper

class FakeNewton(NativeModel):
    pass


def _helper_models(status_sv):
    def build():
        m = library.build_models()

        def solve(interp, args, kw):
            return (status_sv[0], "msg", 3)
        m.register(NewtonSolver.solve, solve, verified_by=QS)
        return m
    return build


def _helper_case(kind):
    holder = [None]

    def build(cx):
        st = cx.bool("solver_converged")
        model = Model(z3.Const("x0", V))
        cx.model = model
        holder[0] = st
        if kind == "newton":
            cx.target(core._solver_helper, model, NewtonSolver, {})
        elif kind == "fsolve":
            import scipy.optimize
            cx.target(core._solver_helper, model, scipy.optimize.fsolve, {"full_output": True})
        elif kind == "krylov":
            import scipy.optimize
            cx.target(core._solver_helper, model, scipy.optimize.newton_krylov, {})
        else:
            cx.target(core._solver_helper, model, "not a solver", {})
            cx.allow_raise(ValueError, True)

        def post(out):
            if kind == "unknown":
                return [("unknown_solver_is_refused", out.kind == "raise")]
            if not out.returned:
                return []
            status, msg, it = out.value
            if kind in ("fsolve", "krylov"):
                # scipy solvers: converged exactly when scipy says so, and then the model holds scipy's solution; no iteration count is reported
                said_ok = model.scipy_ok
                return [("structure_set_before_solving", model.structure_set),
                        ("converged_exactly_when_scipy_reports_success", (status is SolverStatus.converged) == bool(said_ok) and status in (SolverStatus.converged, SolverStatus.error)),
                        ("on_success_the_model_holds_scipy_s_solution", (model.loaded is model.scipy_x) if said_ok else True),
                        ("no_iteration_count_for_scipy_solvers", it is None)]
            return [("status_passed_through_unchanged", status is model.last_status), ("structure_set_before_solving", model.structure_set),
                    ("iteration_count_passed_through", it == 3)]
        cx.ensure(post)
    return Case(kind, build, crosscheck=False)


_STATUS = [None]


def _helper_models2():
    m = library.build_models()

    def solve(interp, args, kw):
        p = interp.path
        s = SolverStatus.converged if p.branch(p.fresh("converged", "bool").t) else SolverStatus.error
        args[1].last_status = s
        return (s, "msg", 3)
    m.register(NewtonSolver.solve, solve, verified_by=QS)
    import scipy.optimize

    def fsolve(interp, args, kw):
        p = interp.path
        model = args[0].__self__
        _n[0] += 1
        x = z3.Const("scipy_x!%d" % _n[0], V)
        ok = p.branch(p.fresh("scipy_reports_success", "bool").t)
        model.scipy_ok, model.scipy_x = ok, x
        ier = 1 if ok else (2 + (1 if p.branch(p.fresh("other_failure_code", "bool").t) else 0))
        return (Vec(x), {}, ier, "mesg")
    m.register(scipy.optimize.fsolve, fsolve, trusted="scipy.optimize.fsolve(full_output=True) returns (x, info, ier, mesg) with ier == 1 exactly on success")

    def krylov(interp, args, kw):
        p = interp.path
        model = args[0].__self__
        _n[0] += 1
        x = z3.Const("scipy_x!%d" % _n[0], V)
        ok = p.branch(p.fresh("scipy_reports_success", "bool").t)
        model.scipy_ok, model.scipy_x = ok, x
        if not ok:
            from scipy.optimize._nonlin import NoConvergence
            raise library.PyRaise(NoConvergence("no convergence"))
        return Vec(x)
    m.register(scipy.optimize.newton_krylov, krylov, trusted="scipy.optimize.newton_krylov returns the solution or raises NoConvergence")
    return m


CONTRACTS = [
    Contract(QS, P, [_solve_case(True, False), _solve_case(False, False)], models=_models, loop_specs=_loop_specs(),
             interpret_always=(_solve_havocking,),
             trusted=["aml.Model.get_x/load_var_values_from_x/evaluate_residuals: the residual returned is R(vector loaded last) (C15: Python half proved, C++ half bounded)",
                      "numpy: np.max(abs(r)) is the infinity norm; x + alpha*d is a vector",
                      "scipy.sparse.linalg.spsolve returns some vector or raises MatrixRankWarning"],
             note="requires maxiter >= 1 and bt_maxiter >= 1 (with 0 the final return / the line-search check read an unbound loop variable)"),
    Contract("wntr.sim.core:_solver_helper", ["C16", "C01"], [_helper_case("newton"), _helper_case("fsolve"), _helper_case("krylov"), _helper_case("unknown")], models=_helper_models2,
             interpret_always=(NewtonSolver,)),
]
