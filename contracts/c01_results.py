"""C01 / C08 / C09 / C16 — wntr.sim.hydraulics.store_results_in_network and save_results.

Each loop body is verified for an arbitrary element of its kind (independent-iteration rule, see
contracts/_net.py:WN2); the frame obligation says the body writes only that element's own fields.
Cases are replayable (`replay="model"`): the counter-model is turned into real wntr objects.
"""
import math
import types

import z3

from pyvc.core import Contract, Case
from pyvc.runner import Lemma
from pyvc.values import SV, SymObj, SymSeq, SymMap, NativeModel, Leaf, NameSort, real_val
from pyvc import library, amlmodel
from pyvc.library import PrefixSum
from pyvc.amlmodel import ModelStub

import wntr.sim.hydraulics as hyd
from wntr.network import LinkStatus
from wntr.network.base import Link
from wntr.network.elements import (Junction, Tank, Reservoir, Pipe, HeadPump, PowerPump, PRValve, PSValve, FCValve, TCValve)
from contracts._net import (WN2, mk_node, mk_link, fn, R, B, IS_J, IS_T, IS_R, IS_L)

I = z3.IntSort()
P = ["C01", "C09"]
FLOWFIELD = fn("stored_flow", NameSort, R)        # link._flow after the links loop of store_results
INL = fn("inlet_link", NameSort, I, NameSort)
OUTL = fn("outlet_link", NameSort, I, NameSort)
IS_V = fn("is_valve", NameSort, B)
RES_HEAD = fn("reservoir_head_at", NameSort, I, R)
MF = {k: fn(k, NameSort, R) for k in ("flow", "valve_setting", "head", "demand", "expected_demand", "leak_rate")}


def _generic_link(cx):
    def gen(name):
        return cx.obj(Pipe, _link_name=name, _flow=cx.fval(FLOWFIELD, name))
    return gen


def _model(cx):
    JT = lambda k: z3.Or(IS_J(k), IS_T(k))
    doms = dict(flow=IS_L, valve_setting=IS_V, head=IS_J, demand=IS_J, expected_demand=IS_J, leak_rate=JT)
    return cx.obj(ModelStub if cx.is_symbolic() else types.SimpleNamespace,
                  **{k: cx.map(MF[k], dom=doms[k], leaf=True, label=k) for k in MF})


def _opts(cx, mode):
    ps = cx.int("pattern_start")
    cx.assume(cx.t(ps) >= 0)
    return cx.obj(types.SimpleNamespace, hydraulic=cx.obj(types.SimpleNamespace, demand_model=mode), time=cx.obj(types.SimpleNamespace, pattern_start=ps))


def _val(name, n, cx):
    return MF[name](cx.t(n))


def _only_own_fields(path, obj):
    return all(o is obj for (o, a, v) in path.writes if not isinstance(o, SymMap)) and \
        not any(isinstance(o, SymMap) for (o, a, v) in path.writes)


class HeadTS(NativeModel):
    def __init__(self, cx, n):
        self.cx, self.n = cx, n

    def at(self, t):
        return self.cx.fval(RES_HEAD, self.n, t)


# ---------------------------------------------------------------------------- store_results_in_network

def _store_link_case(cls, isolated):
    def build(cx):
        l = cx.name("l")
        cx.assume(IS_L(cx.t(l)), IS_V(cx.t(l)) == (cls is PRValve))
        old_setting = cx.real("old_setting")
        link = mk_link(cx, cls, l, None, None, _is_isolated=isolated, _flow=cx.real("old_flow"), _setting=old_setting)
        wn = WN2(options=_opts(cx, "DD"))
        wn.declare_link(l, link)
        m = _model(cx)
        cx.target(hyd.store_results_in_network, wn, m)

        def post(out):
            if not out.returned:
                return []
            posts = [("flow_is_zero_if_isolated_else_solved_flow",
                      cx.num(cx.field(link, "_flow")) == (z3.RealVal(0) if isolated else _val("flow", l, cx))),
                     ("frame_only_own_fields", _only_own_fields(cx.path, link))]
            if cls is PRValve:
                posts.append(("valve_setting_is_model_value", cx.num(cx.field(link, "_setting")) == _val("valve_setting", l, cx)))
            else:
                posts.append(("non_valve_setting_untouched", cx.num(cx.field(link, "_setting")) == cx.t(old_setting)))
            return posts
        cx.ensure(post)
    return Case("link:%s,isolated=%s" % (cls.__name__, isolated), build, crosscheck=False, replay="model")


def _store_junction_case(mode, isolated, leak):
    def build(cx):
        n = cx.name("n")
        cx.assume(IS_J(cx.t(n)), z3.Not(IS_T(cx.t(n))))
        elev = cx.real("elev")
        node = mk_node(cx, Junction, n, _is_isolated=isolated, _leak_status=leak, _elevation=elev)
        wn = WN2(options=_opts(cx, mode))
        wn.declare_node(n, node)
        m = _model(cx)
        cx.target(hyd.store_results_in_network, wn, m)

        def post(out):
            if not out.returned:
                return []
            raw = {k: cx.field(node, k) for k in ("_head", "_demand", "_pressure", "_leak_demand")}
            missing = [k for k, v in raw.items() if v is None]
            if missing:       # a result left at None ends up as a non-number in the tables
                return [("every_stored_result_is_a_number", False)]
            f = {k: cx.num(v) for k, v in raw.items()}
            if isolated:
                want = dict(_head=0, _demand=0, _pressure=0, _leak_demand=0)
            else:
                want = dict(_head=_val("head", n, cx), _pressure=_val("head", n, cx) - cx.t(elev),
                            _demand=_val("demand", n, cx) if mode in ("PDD", "PDA") else _val("expected_demand", n, cx),
                            _leak_demand=_val("leak_rate", n, cx) if leak else 0)
            nm = {"_head": "head_is_solved_head_or_zero_if_isolated", "_pressure": "pressure_is_head_minus_elevation_or_zero_if_isolated",
                  "_demand": "demand_is_delivered_demand_or_zero_if_isolated", "_leak_demand": "leak_demand_is_leak_rate_iff_active_and_connected"}
            posts = [("every_stored_result_is_a_number", True)] + [(nm[k], f[k] == want[k]) for k in want]
            posts.append(("frame_only_own_fields", _only_own_fields(cx.path, node)))
            return posts
        cx.ensure(post)
    return Case("junction:mode=%s,isolated=%s,leak=%s" % (mode, isolated, leak), build, crosscheck=False, replay="model")


def _in_sum(nt):
    return PrefixSum("stored_inflow_prefix", lambda i: FLOWFIELD(INL(nt, i)))


def _out_sum(nt):
    return PrefixSum("stored_outflow_prefix", lambda i: FLOWFIELD(OUTL(nt, i)))


def _native_sum(cx, ps, n):
    """value of a prefix-sum spec function at n under the replay model: its defining recurrence unrolled."""
    return sum((ps.summand(z3.IntVal(i)) for i in range(int(n))), z3.RealVal(0))


def _store_source_case(cls, leak):
    def build(cx):
        n = cx.name("n")
        nin, nout, st = cx.int("n_in"), cx.int("n_out"), cx.int("sim_time")
        cx.assume(cx.t(nin) >= 0, cx.t(nout) >= 0, cx.t(st) >= 0,
                  IS_T(cx.t(n)) == (cls is Tank), z3.Not(IS_J(cx.t(n))), IS_R(cx.t(n)) == (cls is Reservoir))
        cx.hint(cx.t(nin) <= 4, cx.t(nout) <= 4)
        old_head = cx.real("old_head")
        extra = dict(_head_timeseries=HeadTS(cx, n)) if cls is Reservoir else dict(_leak_status=leak)
        node = mk_node(cx, cls, n, _head=old_head, **extra)
        wn = WN2(options=_opts(cx, "DD"), sim_time=st, generic_link=_generic_link(cx))
        wn.declare_node(n, node)
        wn.set_links_for_node(n, inlet=cx.seq(nin, INL, n, label="inlet", facts=lambda i: [IS_L(INL(cx.t(n), i))]),
                              outlet=cx.seq(nout, OUTL, n, label="outlet", facts=lambda i: [IS_L(OUTL(cx.t(n), i))]))
        m = _model(cx)
        if cx.is_symbolic():
            # sampling hints (used when models of the precondition are run on the real code): at least one link on either side, unequal non-zero flows
            nt_ = cx.t(n)
            cx.hint(cx.t(nin) >= 1, cx.t(nout) >= 1, _in_sum(nt_).summand(z3.IntVal(0)) == real_val(0.013), _out_sum(nt_).summand(z3.IntVal(0)) == real_val(0.007))
        cx.target(hyd.store_results_in_network, wn, m)

        def post(out):
            if not out.returned:
                return []
            nt = cx.t(n)
            lk = (_val("leak_rate", n, cx) if leak else z3.RealVal(0)) if cls is Tank else z3.RealVal(0)
            if cx.is_symbolic():
                sin, sout = _in_sum(nt).at(cx.t(nin)), _out_sum(nt).at(cx.t(nout))
            else:
                sin, sout = _native_sum(cx, _in_sum(nt), nin), _native_sum(cx, _out_sum(nt), nout)
            posts = [("demand_is_net_inflow_minus_leak", cx.num(cx.field(node, "_demand")) == sin - sout - lk),
                     ("leak_demand_is_leak_rate_iff_active", cx.num(cx.field(node, "_leak_demand")) == lk),
                     ("frame_only_own_fields", _only_own_fields(cx.path, node))]
            if cls is Reservoir:
                # head patterns, like demand patterns, start at the pattern start time (EPANET applies PATTERN START to every time pattern)
                posts.append(("reservoir_head_is_its_head_pattern_at_simulation_time_plus_pattern_start",
                              cx.num(cx.field(node, "_head")) == RES_HEAD(nt, cx.t(st) + cx.t(cx.inputs["pattern_start"]))))
            else:
                posts.append(("tank_head_untouched", cx.num(cx.field(node, "_head")) == cx.t(old_head)))
            return posts
        cx.ensure(post)
    return Case("%s,leak=%s" % (cls.__name__, leak), build, crosscheck=False, replay="model")


_q = "wntr.sim.hydraulics:store_results_in_network"
_N = z3.Const("n", NameSort)
_store_sum_specs = {(_q, 1): lambda loc: _in_sum(_N), (_q, 2): lambda loc: _out_sum(_N),
                    (_q, 3): lambda loc: _in_sum(_N), (_q, 4): lambda loc: _out_sum(_N)}

_store_cases = ([_store_link_case(c, iso) for c in (Pipe, HeadPump, PRValve) for iso in (False, True)] +
                [_store_junction_case(md, iso, lk) for md in ("DD", "PDD", "PDA") for iso in (False, True) for lk in (False, True)] +
                [_store_source_case(Tank, lk) for lk in (False, True)] + [_store_source_case(Reservoir, False)])


# ---------------------------------------------------------------------------- save_results

class _Lists:
    """node_res[key] / link_res[key]: name -> list, in both modes."""

    def __init__(self, cx, label):
        self.cache = {}
        self.cx = cx
        if cx.is_symbolic():
            def get(k):
                return self.cache.setdefault(WN2._k(k), [])
            self.map = SymMap(lambda k: z3.BoolVal(True), get, label=label)
        else:
            outer = self

            class D(dict):
                def __missing__(self, k):
                    return outer.cache.setdefault(str(k), [])
            self.map = D()

    def of(self, name):
        return self.cache.get(WN2._k(name), [])


def _res_maps(cx):
    nl = {k: _Lists(cx, "node_res[%s]" % k) for k in ("head", "demand", "pressure", "leak_demand")}
    ll = {k: _Lists(cx, "link_res[%s]" % k) for k in ("flowrate", "velocity", "status", "setting")}
    return nl, ll, {k: v.map for k, v in nl.items()}, {k: v.map for k, v in ll.items()}


def _one(lst, want, cx):
    """list == [want] (exactly one entry appended, equal to the stored attribute)."""
    if len(lst) != 1:
        return False
    v = lst[0]
    if isinstance(want, (LinkStatus,)):
        return v is want or v == want
    return cx.num(v) == want


def _nothing_else_appended(ls, name):
    for res in ls:
        for k, m in res.items():
            for key, lst in m.cache.items():
                if key != WN2._k(name) and lst:
                    return False
    return True


def _save_node_case(cls, isolated, mode="DD"):
    def build(cx):
        n = cx.name("n")
        h, d, ld, el = cx.real("head"), cx.real("demand"), cx.real("leak_demand"), cx.real("elev")
        node = mk_node(cx, cls, n, _is_isolated=isolated, _head=h, _demand=d, _leak_demand=ld, _elevation=el)
        if isolated:  # ensures of store_results_in_network for an isolated junction (modular precondition)
            cx.assume(cx.t(h) == 0, cx.t(d) == 0, cx.t(ld) == 0)
        wn = WN2(options=_opts(cx, mode))      # the saved values do not depend on the demand model (both modes are cases)
        wn.declare_node(n, node)
        nl, ll, nres, lres = _res_maps(cx)
        cx.target(hyd.save_results, wn, nres, lres)

        def post(out):
            if not out.returned:
                return []
            H, D, LD, EL = cx.t(h), cx.t(d), cx.t(ld), cx.t(el)
            press = z3.RealVal(0) if (cls is Reservoir or isolated) else H - EL
            leakw = z3.RealVal(0) if cls is Reservoir else LD
            return [("one_head_entry_equal_to_stored_head", _one(nl["head"].of(n), H, cx)),
                    ("one_demand_entry_equal_to_stored_demand", _one(nl["demand"].of(n), D, cx)),
                    ("one_pressure_entry_head_minus_elevation_zero_if_isolated_or_reservoir", _one(nl["pressure"].of(n), press, cx)),
                    ("one_leak_entry_equal_to_stored_leak_demand", _one(nl["leak_demand"].of(n), leakw, cx)),
                    ("no_other_list_touched", _nothing_else_appended((nl, ll), n)),
                    ("network_state_not_modified", not [w for w in cx.path.writes if not isinstance(w[0], SymMap)])]
        cx.ensure(post)
    return Case("node:%s,isolated=%s%s" % (cls.__name__, isolated, "" if mode == "DD" else ",mode=" + mode), build, crosscheck=False, replay="model")


def _coeff_model():
    m = library.build_models()

    def coeffs(interp, args, kw):
        A, Bc, C = z3.Real("pumpA"), z3.Real("pumpB"), z3.Real("pumpC")
        interp.path.assume(z3.And(A > 0, Bc >= 0, C > 0))
        return (SV(A, "real"), SV(Bc, "real"), SV(C, "real"))
    m.register(HeadPump.get_head_curve_coefficients, coeffs,
               verified_by="wntr.network.elements:HeadPump.get_head_curve_coefficients (returns A>0, B>=0, C>0 or raises)")
    return m


def _save_link_case(cls, user, internal, isolated=False):
    def build(cx):
        l = cx.name("l")
        q = cx.real("flow")
        setting = cx.real("setting")
        extra = {}
        dkey = "_diameter" if cls is Pipe else "diameter"     # Valve keeps a plain attribute
        if cls in (Pipe, PRValve):
            extra[dkey] = cx.real("diameter")
            cx.assume(cx.t(extra[dkey]) > 0)
        if cls is Pipe:
            extra["_roughness"] = cx.real("roughness")
        if cls is HeadPump:
            # replay: a real 1-point curve realising the model's (A, B, C=2) is not attempted; the pump keeps cached coefficients
            A, Bc, Cc = cx.real("pumpA"), cx.real("pumpB"), cx.real("pumpC")
            cx.assume(cx.t(A) > 0, cx.t(Bc) >= 0, cx.t(Cc) > 0)
            if not cx.is_symbolic():
                from wntr.network.elements import Curve
                curve = Curve("c", "HEAD", [(1.0, 1.0)])
                extra.update(_curve_coeffs=[float(A), float(Bc), float(Cc)], _coeffs_curve_points=curve.points,
                             _pump_curve_name="c", _curve_reg={"c": curve})
        sn = mk_node(cx, Junction, cx.name("s"), _head=cx.real("hs"))
        en = mk_node(cx, Junction, cx.name("e"), _head=cx.real("he"))
        link = mk_link(cx, cls, l, sn, en, _user_status=user, _internal_status=internal, _flow=q, _setting=setting, _is_isolated=isolated, **extra)
        wn = WN2(generic_node=lambda nm: sn if str(nm) == str(cx.field(sn, "_name")) else en)
        wn.declare_link(l, link)
        nl, ll, nres, lres = _res_maps(cx)
        cx.target(hyd.save_results, wn, nres, lres)
        from contracts.builders import spec_status
        st = spec_status(cls, user, internal)

        def post(out):
            if not out.returned:
                return []
            posts = [("one_flow_entry_equal_to_stored_flow", _one(ll["flowrate"].of(l), cx.t(q), cx)),
                     ("one_status_entry_equal_to_link_status", _one(ll["status"].of(l), st, cx)),
                     ("one_velocity_entry", len(ll["velocity"].of(l)) == 1),
                     ("one_setting_entry", len(ll["setting"].of(l)) == 1),
                     ("no_other_list_touched", _nothing_else_appended((nl, ll), l)),
                     ("network_state_not_modified", not [w for w in cx.path.writes if not isinstance(w[0], SymMap)])]
            if cls in (Pipe, PRValve):
                D = cx.t(extra[dkey])
                Q = cx.t(q)
                v = ll["velocity"].of(l)
                if len(v) == 1:
                    posts.append(("velocity_is_abs_flow_over_area", cx.num(v[0]) * (real_val(math.pi) * D * D) == z3.If(Q >= 0, Q, -Q) * 4))
            if cls is PRValve:
                posts.append(("valve_setting_entry_is_setting", _one(ll["setting"].of(l), cx.t(setting), cx)))
            return posts
        cx.ensure(post)
    return Case("link:%s,user=%s,internal=%s%s" % (cls.__name__, user.name, internal.name, ",in_an_isolated_part" if isolated else ""), build, crosscheck=False, replay="model")


_save_cases = ([_save_node_case(Junction, iso) for iso in (False, True)] + [_save_node_case(Junction, False, "PDD")] + [_save_node_case(Tank, False), _save_node_case(Reservoir, False)] +
               [_save_link_case(c, u, i) for c in (Pipe, HeadPump, PowerPump, PRValve)
                for (u, i) in ((LinkStatus.Open, LinkStatus.Active), (LinkStatus.Closed, LinkStatus.Active), (LinkStatus.Open, LinkStatus.Closed))] +
               # a link in a part cut off from every source keeps the status it has (isolation is not a status)
               [_save_link_case(c, LinkStatus.Open, LinkStatus.Active, True) for c in (Pipe, HeadPump, PowerPump, PRValve)])

class _NamesView(NativeModel):
    """the model as initialize_results_dict sees it: nodes() and links() as (name, element) pairs"""

    def __init__(self, nodes, links):
        self._n, self._l = nodes, links

    def nodes(self):
        return [(n, None) for n in self._n]

    def links(self):
        return [(n, None) for n in self._l]


def _init_results_case():
    def build(cx):
        # names chosen so that neither alphabetical nor kind-wise order equals the registration order
        nodes, links = ["n3", "tank", "a_junction", "R"], ["pump_b", "pipe_a", "valve", "pump_a", "zz"]
        cx.target(hyd.initialize_results_dict, _NamesView(nodes, links))

        def post(out):
            if not out.returned:
                return []
            nr, lr = out.value
            ok_keys = list(nr) == ["head", "demand", "pressure", "leak_demand"] and list(lr) == ["flowrate", "velocity", "status", "setting"]
            ok_n = all(list(nr[k]) == nodes and all(v == [] for v in nr[k].values()) for k in nr)
            ok_l = all(list(lr[k]) == links and all(v == [] for v in lr[k].values()) for k in lr)
            lists = [v for d_ in list(nr.values()) + list(lr.values()) for v in d_.values()]
            return [("the_tables_of_the_results_object_exist", ok_keys),
                    ("every_node_has_one_empty_list_per_node_table_in_registration_order", ok_n),
                    ("every_link_has_one_empty_list_per_link_table_in_registration_order", ok_l),
                    ("no_two_entries_share_a_list", len({id(v) for v in lists}) == len(lists))]
        cx.ensure(post)
    return Case("four_nodes_five_links", build, crosscheck=False)


CONTRACTS = [
    Contract(_q, P + ["C08", "C05", "C06", "C02", "C07", "C16"], _store_cases, models=amlmodel.build_models, sum_specs=_store_sum_specs,
             trusted=["aml Var/Param .value is the solved value loaded into the model (DESIGN 2.5, C15)",
                      "RegInv (C14): wn.links()/junctions()/tanks()/reservoirs()/valves() enumerate exactly the registered elements; "
                      "get_links_for_node enumerates in(n)/out(n) exactly once"]),
    Contract("wntr.sim.hydraulics:save_results", P + ["C06", "C08", "C16", "C02", "C05", "C07"], _save_cases, models=_coeff_model,
             trusted=["RegInv (C14): typed iterators enumerate exactly the registered elements",
                      "HeadPump.get_head_curve_coefficients returns A>0, B>=0, C>0 (its own contract, C02)"]),
    Contract("wntr.sim.hydraulics:initialize_results_dict", P + ["C16"], [_init_results_case()]),
]


def _c01_store_lemma():
    """store_results + mass-balance row => reported balance (junction) / identity (tank, reservoir)."""
    D, sin, sout, leak, tol, r = z3.Reals("D sin sout leak tol r")
    dem, lk = z3.Reals("reported_demand reported_leak")
    return [("junction_reported_flows_balance_within_tolerance",
             [r == D - sin + sout + leak, r < tol, r > -tol, dem == D, lk == leak],
             z3.And(sin - sout - dem - lk < tol, sin - sout - dem - lk > -tol)),
            ("tank_reported_demand_plus_leak_is_net_inflow", [dem == sin - sout - lk], dem + lk == sin - sout)]


LEMMAS = [Lemma("C01.reported_balance", ["C01"], _c01_store_lemma,
                uses=["store_results_in_network#junction:*", "store_results_in_network#Tank*", "mass_balance_constraint.build#row_is_demand_minus_inflow_plus_outflow_plus_leak"])]


# ---------------------------------------------------------------------------- bounded: the reported results of real runs balance at every node

from pyvc.runner import Bounded


def _balance(i, n):
    def run(tier, seed):
        import sys, os
        sys.path.insert(0, os.path.dirname(os.path.dirname(os.path.abspath(__file__))))
        from bounded import c01_balance
        return c01_balance.run(tier, seed, i, n)
    return run


BOUNDED = [Bounded("C01.balance_on_runs[%d/4]" % i, ["C01", "C09", "C08"], _balance(i, 4), kind="real simulator on listed / generated networks (not exhaustive)") for i in range(4)]
