"""C01 / C08 / C09 / C16 — wntr.sim.hydraulics.store_results_in_network and save_results.

Each loop body is verified for an arbitrary element of its kind (independent-iteration rule, see
contracts/_net.py:WN2); the frame obligation says the body writes only that element's own fields.
"""
import math
import types

import z3

from pyvc.core import Contract, Case
from pyvc.runner import Lemma
from pyvc.values import SV, SymObj, SymSeq, SymMap, NativeModel, Leaf, NameSort, real_val
from pyvc import library, amlmodel
from pyvc.library import PrefixSum
from pyvc.amlmodel import ModelStub

import wntr.sim.hydraulics as hyd
from wntr.network import LinkStatus
from wntr.network.base import Link
from wntr.network.elements import (Junction, Tank, Reservoir, Pipe, HeadPump, PowerPump, PRValve, PSValve, FCValve, TCValve)
from contracts._net import (WN2, mk_node, mk_link, leaf_pmap, list_map, fn, R, B, IS_J, IS_T, IS_R, IS_L)

I = z3.IntSort()
P = ["C01", "C09"]
FLOWFIELD = fn("stored_flow", NameSort, R)        # link._flow after the links loop of store_results
INL = fn("inlet_link", NameSort, I, NameSort)
OUTL = fn("outlet_link", NameSort, I, NameSort)
IS_V = fn("is_valve", NameSort, B)
RES_HEAD = fn("reservoir_head_at", NameSort, I, R)


def _generic_link(name):
    return SymObj(Link, dict(_link_name=name, _flow=SV(FLOWFIELD(name.t), "real")), label="registered link")


def _model(cx):
    JT = lambda k: z3.Or(IS_J(k), IS_T(k))
    return cx.obj(ModelStub, flow=leaf_pmap("flow", IS_L), valve_setting=leaf_pmap("valve_setting", IS_V),
                  head=leaf_pmap("head", IS_J), demand=leaf_pmap("demand", IS_J),
                  expected_demand=leaf_pmap("expected_demand", IS_J), leak_rate=leaf_pmap("leak_rate", JT))


def _opts(cx, mode):
    return cx.obj(types.SimpleNamespace, hydraulic=cx.obj(types.SimpleNamespace, demand_model=mode))


def _val(name, n):
    return fn(name, NameSort, R)(n.t)


def _only_own_fields(path, obj):
    return all(o is obj for (o, a, v) in path.writes if not isinstance(o, SymMap)) and \
        not any(isinstance(o, SymMap) for (o, a, v) in path.writes)


class HeadTS(NativeModel):
    def __init__(self, n):
        self.n = n

    def at(self, t):
        return SV(RES_HEAD(self.n.t, library.as_int(t)), "real")


# ---------------------------------------------------------------------------- store_results_in_network

def _store_link_case(cls, isolated):
    def build(cx):
        l = cx.name("l")
        cx.assume(IS_L(cx.t(l)), IS_V(cx.t(l)) == (cls is PRValve))
        link = mk_link(cx, cls, l, None, None, _is_isolated=isolated, _flow=cx.real("old_flow"), _setting=cx.real("old_setting"))
        wn = WN2(options=_opts(cx, "DD"))
        wn.declare_link(l, link)
        m = _model(cx)
        cx.target(hyd.store_results_in_network, wn, m)

        def post(out):
            if not out.returned:
                return []
            f = link.fields
            posts = [("flow_is_zero_if_isolated_else_solved_flow",
                      library.as_real(f["_flow"]) == (z3.RealVal(0) if isolated else _val("flow", l))),
                     ("frame_only_own_fields", _only_own_fields(cx.path, link))]
            if cls is PRValve:
                posts.append(("valve_setting_is_model_value", library.as_real(f["_setting"]) == _val("valve_setting", l)))
            else:
                posts.append(("non_valve_setting_untouched", library.as_real(f["_setting"]) == cx.t(cx.inputs["old_setting"])))
            return posts
        cx.ensure(post)
    return Case("link:%s,isolated=%s" % (cls.__name__, isolated), build, crosscheck=False)


def _store_junction_case(mode, isolated, leak):
    def build(cx):
        n = cx.name("n")
        cx.assume(IS_J(cx.t(n)), z3.Not(IS_T(cx.t(n))))
        node = mk_node(cx, Junction, n, _is_isolated=isolated, _leak_status=leak, _elevation=cx.real("elev"))
        wn = WN2(options=_opts(cx, mode))
        wn.declare_node(n, node)
        m = _model(cx)
        cx.target(hyd.store_results_in_network, wn, m)

        def post(out):
            if not out.returned:
                return []
            f = {k: library.as_real(v) for k, v in node.fields.items() if k in ("_head", "_demand", "_pressure", "_leak_demand")}
            if isolated:
                want = dict(_head=0, _demand=0, _pressure=0, _leak_demand=0)
            else:
                want = dict(_head=_val("head", n), _pressure=_val("head", n) - cx.t(cx.inputs["elev"]),
                            _demand=_val("demand", n) if mode in ("PDD", "PDA") else _val("expected_demand", n),
                            _leak_demand=_val("leak_rate", n) if leak else 0)
            nm = {"_head": "head_is_solved_head_or_zero_if_isolated", "_pressure": "pressure_is_head_minus_elevation_or_zero_if_isolated",
                  "_demand": "demand_is_delivered_demand_or_zero_if_isolated", "_leak_demand": "leak_demand_is_leak_rate_iff_active_and_connected"}
            posts = [(nm[k], f[k] == want[k]) for k in want]
            posts.append(("frame_only_own_fields", _only_own_fields(cx.path, node)))
            return posts
        cx.ensure(post)
    return Case("junction:mode=%s,isolated=%s,leak=%s" % (mode, isolated, leak), build, crosscheck=False)


def _in_sum():
    return PrefixSum("stored_inflow_prefix", lambda i: FLOWFIELD(INL(z3.Const("n", NameSort), i)))


def _out_sum():
    return PrefixSum("stored_outflow_prefix", lambda i: FLOWFIELD(OUTL(z3.Const("n", NameSort), i)))


def _store_source_case(cls, leak):
    def build(cx):
        n = cx.name("n")
        nin, nout, st = cx.int("n_in"), cx.int("n_out"), cx.int("sim_time")
        cx.assume(cx.t(nin) >= 0, cx.t(nout) >= 0, cx.t(st) >= 0,
                  IS_T(cx.t(n)) == (cls is Tank), z3.Not(IS_J(cx.t(n))), IS_R(cx.t(n)) == (cls is Reservoir))
        extra = dict(_head_timeseries=HeadTS(n)) if cls is Reservoir else dict(_leak_status=leak)
        node = mk_node(cx, cls, n, _head=cx.real("old_head"), **extra)
        wn = WN2(options=_opts(cx, "DD"), sim_time=st, generic_link=_generic_link)
        wn.declare_node(n, node)
        wn.inlet[n.t.get_id()] = SymSeq(nin, lambda i: SV(INL(n.t, i), "name"), label="inlet", facts=lambda i: [IS_L(INL(n.t, i))])
        wn.outlet[n.t.get_id()] = SymSeq(nout, lambda i: SV(OUTL(n.t, i), "name"), label="outlet", facts=lambda i: [IS_L(OUTL(n.t, i))])
        m = _model(cx)
        cx.target(hyd.store_results_in_network, wn, m)

        def post(out):
            if not out.returned:
                return []
            f = node.fields
            lk = (_val("leak_rate", n) if leak else z3.RealVal(0)) if cls is Tank else z3.RealVal(0)
            posts = [("demand_is_net_inflow_minus_leak",
                      library.as_real(f["_demand"]) == _in_sum().at(cx.t(nin)) - _out_sum().at(cx.t(nout)) - lk),
                     ("leak_demand_is_leak_rate_iff_active", library.as_real(f["_leak_demand"]) == lk),
                     ("frame_only_own_fields", _only_own_fields(cx.path, node))]
            if cls is Reservoir:
                posts.append(("reservoir_head_is_head_timeseries_now", library.as_real(f["_head"]) == RES_HEAD(n.t, cx.t(st))))
            else:
                posts.append(("tank_head_untouched", library.as_real(f["_head"]) == cx.t(cx.inputs["old_head"])))
            return posts
        cx.ensure(post)
    return Case("%s,leak=%s" % (cls.__name__, leak), build, crosscheck=False)


_q = "wntr.sim.hydraulics:store_results_in_network"
_store_sum_specs = {(_q, 1): lambda loc: _in_sum(), (_q, 2): lambda loc: _out_sum(),
                    (_q, 3): lambda loc: _in_sum(), (_q, 4): lambda loc: _out_sum()}

_store_cases = ([_store_link_case(c, iso) for c in (Pipe, HeadPump, PRValve) for iso in (False, True)] +
                [_store_junction_case(md, iso, lk) for md in ("DD", "PDD", "PDA") for iso in (False, True) for lk in (False, True)] +
                [_store_source_case(Tank, lk) for lk in (False, True)] + [_store_source_case(Reservoir, False)])


# ---------------------------------------------------------------------------- save_results

def _res_maps():
    node_res = {k: list_map("node_res[%s]" % k) for k in ("head", "demand", "pressure", "leak_demand")}
    link_res = {k: list_map("link_res[%s]" % k) for k in ("flowrate", "velocity", "status", "setting")}
    return node_res, link_res


def _lst(res, key, name):
    return res[key].cache.get(name.t.get_id(), [])


def _one(lst, want, cx):
    """list == [want] (exactly one entry appended, equal to the stored attribute)."""
    if len(lst) != 1:
        return False
    v = lst[0]
    if isinstance(want, (LinkStatus,)):
        return v is want
    return library.as_real(v) == want


def _nothing_else_appended(res_n, res_l, name):
    for res in (res_n, res_l):
        for k, m in res.items():
            for key, lst in m.cache.items():
                if key != name.t.get_id() and lst:
                    return False
    return True


def _save_node_case(cls, isolated):
    def build(cx):
        n = cx.name("n")
        h, d, ld, el = cx.real("head"), cx.real("demand"), cx.real("leak_demand"), cx.real("elev")
        node = mk_node(cx, cls, n, _is_isolated=isolated, _head=h, _demand=d, _leak_demand=ld, _elevation=el)
        if isolated:  # ensures of store_results_in_network for an isolated junction (modular precondition)
            cx.assume(cx.t(h) == 0, cx.t(d) == 0, cx.t(ld) == 0)
        wn = WN2()
        wn.declare_node(n, node)
        nres, lres = _res_maps()
        cx.target(hyd.save_results, wn, nres, lres)

        def post(out):
            if not out.returned:
                return []
            H, D, LD, EL = cx.t(h), cx.t(d), cx.t(ld), cx.t(el)
            press = z3.RealVal(0) if (cls is Reservoir or isolated) else H - EL
            leakw = z3.RealVal(0) if cls is Reservoir else LD
            return [("one_head_entry_equal_to_stored_head", _one(_lst(nres, "head", n), H, cx)),
                    ("one_demand_entry_equal_to_stored_demand", _one(_lst(nres, "demand", n), D, cx)),
                    ("one_pressure_entry_head_minus_elevation_zero_if_isolated_or_reservoir", _one(_lst(nres, "pressure", n), press, cx)),
                    ("one_leak_entry_equal_to_stored_leak_demand", _one(_lst(nres, "leak_demand", n), leakw, cx)),
                    ("no_other_list_touched", _nothing_else_appended(nres, lres, n)),
                    ("network_state_not_modified", not [w for w in cx.path.writes if not isinstance(w[0], SymMap)])]
        cx.ensure(post)
    return Case("node:%s,isolated=%s" % (cls.__name__, isolated), build, crosscheck=False)


def _coeff_model():
    m = library.build_models()

    def coeffs(interp, args, kw):
        A, Bc, C = z3.Real("pumpA"), z3.Real("pumpB"), z3.Real("pumpC")
        interp.path.assume(z3.And(A > 0, Bc >= 0, C > 0))
        return (SV(A, "real"), SV(Bc, "real"), SV(C, "real"))
    m.register(HeadPump.get_head_curve_coefficients, coeffs,
               verified_by="wntr.network.elements:HeadPump.get_head_curve_coefficients (returns A>0, B>=0, C>0 or raises)")
    return m


def _save_link_case(cls, user, internal):
    def build(cx):
        l = cx.name("l")
        q = cx.real("flow")
        extra = {}
        dkey = "_diameter" if cls is Pipe else "diameter"     # Valve keeps a plain attribute
        if cls in (Pipe, PRValve):
            extra[dkey] = cx.real("diameter")
            cx.assume(cx.t(extra[dkey]) > 0)
        if cls is Pipe:
            extra["_roughness"] = cx.real("roughness")
        sn = mk_node(cx, Junction, cx.name("s"), _head=cx.real("hs"))
        en = mk_node(cx, Junction, cx.name("e"), _head=cx.real("he"))
        link = mk_link(cx, cls, l, sn, en, _user_status=user, _internal_status=internal, _flow=q, _setting=cx.real("setting"), **extra)
        wn = WN2(generic_node=lambda nm: sn if nm.t.eq(sn.fields["_name"].t) else en)
        wn.declare_link(l, link)
        nres, lres = _res_maps()
        cx.target(hyd.save_results, wn, nres, lres)
        from contracts.builders import spec_status
        st = spec_status(cls, user, internal)

        def post(out):
            if not out.returned:
                return []
            posts = [("one_flow_entry_equal_to_stored_flow", _one(_lst(lres, "flowrate", l), cx.t(q), cx)),
                     ("one_status_entry_equal_to_link_status", _one(_lst(lres, "status", l), st, cx)),
                     ("one_velocity_entry", len(_lst(lres, "velocity", l)) == 1),
                     ("one_setting_entry", len(_lst(lres, "setting", l)) == 1),
                     ("no_other_list_touched", _nothing_else_appended(nres, lres, l)),
                     ("network_state_not_modified", not [w for w in cx.path.writes if not isinstance(w[0], SymMap)])]
            if cls in (Pipe, PRValve):
                D = cx.t(extra[dkey])
                Q = cx.t(q)
                v = _lst(lres, "velocity", l)
                if len(v) == 1:
                    posts.append(("velocity_is_abs_flow_over_area", library.as_real(v[0]) * (real_val(math.pi) * D * D) == z3.If(Q >= 0, Q, -Q) * 4))
            if cls is PRValve:
                posts.append(("valve_setting_entry_is_setting", _one(_lst(lres, "setting", l), cx.t(cx.inputs["setting"]), cx)))
            return posts
        cx.ensure(post)
    return Case("link:%s,user=%s,internal=%s" % (cls.__name__, user.name, internal.name), build, crosscheck=False)


_save_cases = ([_save_node_case(Junction, iso) for iso in (False, True)] + [_save_node_case(Tank, False), _save_node_case(Reservoir, False)] +
               [_save_link_case(c, u, i) for c in (Pipe, HeadPump, PowerPump, PRValve)
                for (u, i) in ((LinkStatus.Open, LinkStatus.Active), (LinkStatus.Closed, LinkStatus.Active), (LinkStatus.Open, LinkStatus.Closed))])

CONTRACTS = [
    Contract(_q, P + ["C08"], _store_cases, models=amlmodel.build_models, sum_specs=_store_sum_specs,
             trusted=["aml Var/Param .value is the solved value loaded into the model (DESIGN 2.5, C15)",
                      "RegInv (C14): wn.links()/junctions()/tanks()/reservoirs()/valves() enumerate exactly the registered elements; "
                      "get_links_for_node enumerates in(n)/out(n) exactly once"]),
    Contract("wntr.sim.hydraulics:save_results", P + ["C08", "C16"], _save_cases, models=_coeff_model,
             trusted=["RegInv (C14): typed iterators enumerate exactly the registered elements",
                      "HeadPump.get_head_curve_coefficients returns A>0, B>=0, C>0 (its own contract, C02)"]),
]


def _c01_store_lemma():
    """store_results + mass-balance row => reported balance (junction) / identity (tank, reservoir)."""
    D, sin, sout, leak, tol, r = z3.Reals("D sin sout leak tol r")
    dem, lk = z3.Reals("reported_demand reported_leak")
    return [("junction_reported_flows_balance_within_tolerance",
             [r == D - sin + sout + leak, r < tol, r > -tol, dem == D, lk == leak],
             z3.And(sin - sout - dem - lk < tol, sin - sout - dem - lk > -tol)),
            ("tank_reported_demand_plus_leak_is_net_inflow", [dem == sin - sout - lk], dem + lk == sin - sout)]


LEMMAS = [Lemma("C01.reported_balance", ["C01"], _c01_store_lemma,
                uses=["store_results_in_network#junction:*", "store_results_in_network#Tank*", "mass_balance_constraint.build#row_is_demand_minus_inflow_plus_outflow_plus_leak"])]
