"""C05 / C06 — value conditions, tank-level conditions (partial-step backtrack), relative and composite
conditions, control actions, Rule action selection, ControlChecker and ControlChangeTracker."""
import math
import types

import z3

from pyvc.core import Contract, Case
from pyvc.runner import Lemma
from pyvc.values import SV, SymObj, NativeModel, real_val
from pyvc import library

from wntr.network import LinkStatus
from wntr.network import controls as C
from wntr.network.controls import Comparison
from wntr.network.elements import Junction, Tank, Pipe, PRValve, HeadPump
from wntr.utils.ordered_set import OrderedSet
from contracts._net import mk_node, mk_link

P = ["C05"]
RELS = {Comparison.gt: lambda a, b: a > b, Comparison.ge: lambda a, b: a >= b, Comparison.lt: lambda a, b: a < b,
        Comparison.le: lambda a, b: a <= b, Comparison.eq: lambda a, b: a == b, Comparison.ne: lambda a, b: a != b}


def zb(v):
    return v.t if isinstance(v, SV) else z3.BoolVal(bool(v))


# ---------------------------------------------------------------------------- ValueCondition.evaluate

def _value_case(rel, attr):
    def build(cx):
        cur, th = cx.real("cur"), cx.real("th")
        if attr == "pressure":
            src = mk_node(cx, Junction, "J", _pressure=cur)
        elif attr == "head":
            src = mk_node(cx, Junction, "J", _head=cur)
        elif attr == "flow":
            src = mk_link(cx, Pipe, "L", None, None, _flow=cur)
        else:
            src = mk_link(cx, PRValve, "V", None, None, _setting=cur)
        cond = cx.obj(C.ValueCondition, _source_obj=src, _source_attr=attr, _relation=rel, _threshold=th, _backtrack=0)
        cx.target(C.ValueCondition.evaluate, cond)

        def post(out):
            if not out.returned:
                return []
            return [("true_iff_relation_holds_on_current_value", zb(out.value) == RELS[rel](cx.t(cur), cx.t(th))),
                    ("no_state_written", not cx.path.writes if cx.mode == "symbolic" else True)]
        cx.ensure(post)
    return Case("rel=%s,attr=%s" % (rel.name, attr), build)


_value_cases = [_value_case(r, a) for r in RELS for a in ("pressure",)] + \
               [_value_case(Comparison.lt, a) for a in ("head", "flow", "setting")]


# ---------------------------------------------------------------------------- TankLevelCondition.evaluate (cylindrical tank)

def _tank_level_case(rel, attr):
    """Precondition = ensures of update_tank_heads for a cylindrical tank: cur = last + q*dt/A (dt > 0 s)."""
    def build(cx):
        last, th, q, D, elev = cx.real("last"), cx.real("th"), cx.real("q"), cx.real("D"), cx.real("elev")
        dt = cx.int("dt")
        cx.assume(cx.t(D) > 0, cx.t(dt) > 0)
        A = real_val(math.pi) / 4 * cx.t(D) * cx.t(D) if cx.mode == "symbolic" else math.pi / 4.0 * D * D
        if cx.mode == "symbolic":
            cur = cx.real("cur")
            cx.assume((cx.t(cur) - cx.t(last)) * A == cx.t(q) * z3.ToReal(cx.t(dt)))
        else:
            cur = cx.assignment["cur"] = last + q * dt / A
        off = 0.0 if attr == "head" else elev    # the compared attribute is head (absolute) or level/pressure (head - elev)
        head = cx.interp.binop(__import__("ast").Add, cur, off) if cx.mode == "symbolic" else cur + off
        tank = mk_node(cx, Tank, "T", _head=head, _elevation=off if attr != "head" else elev, _demand=q, _diameter=D,
                       _vol_curve_name=None, _curve_reg=_NoneReg())
        cond = cx.obj(C.TankLevelCondition, _source_obj=tank, _source_attr=attr, _relation=rel, _threshold=th, _backtrack=0,
                      _last_value=last)
        cx.target(C.TankLevelCondition.evaluate, cond)

        def post(out):
            if not out.returned:
                return []
            CUR, LAST, TH, Q, DT = cx.t(cur), cx.t(last), cx.t(th), cx.t(q), cx.t(dt)
            up = rel in (Comparison.ge, Comparison.gt)
            holds = (CUR >= TH) if up else (CUR <= TH)
            held = (LAST >= TH) if up else (LAST <= TH)
            bt = cx.interp.getattr(cond, "_backtrack") if cx.mode == "symbolic" else cond._backtrack
            lv = cx.interp.getattr(cond, "_last_value") if cx.mode == "symbolic" else cond._last_value
            Bk = library.as_int(bt) if cx.mode == "symbolic" else int(bt)
            if cx.mode != "symbolic":
                A_ = math.pi / 4.0 * D * D
                crossing = bool(holds) and not bool(held) and q != 0
                landed = CUR - Bk * Q / A_
                ok = (not crossing) or (0 <= Bk < DT and (landed >= TH - 1e-9 if up else landed <= TH + 1e-9) and abs(landed - TH) < abs(Q) / A_ + 1e-9)
                return [("true_iff_threshold_reached", bool(out.value) == bool(holds)),
                        ("partial_step_lands_within_one_second_of_flow_past_threshold", ok)]
            Az = real_val(math.pi) / 4 * cx.t(D) * cx.t(D)
            crossing = z3.And(holds, z3.Not(held), Q != 0)
            landed = CUR - z3.ToReal(Bk) * Q / Az          # level at (t - backtrack)
            absq = z3.If(Q >= 0, Q, -Q)
            return [("true_iff_threshold_reached", zb(out.value) == holds),
                    ("last_value_updated", library.as_real(lv) == CUR),
                    ("no_backtrack_unless_threshold_first_reached_in_this_step", z3.Implies(z3.Not(crossing), Bk == 0)),
                    ("backtrack_within_step", z3.Implies(crossing, z3.And(Bk >= 0, Bk < DT))),
                    ("partial_step_lands_on_threshold_side", z3.Implies(crossing, (landed >= TH) if up else (landed <= TH))),
                    ("partial_step_lands_within_one_second_of_flow_past_threshold",
                     z3.Implies(crossing, z3.If(landed >= TH, landed - TH, TH - landed) * Az < absq))]
        cx.ensure(post)

    def sample(rng):
        return dict(last=rng.uniform(0, 10), th=rng.uniform(0, 10), q=rng.uniform(-0.5, 0.5), D=rng.uniform(1, 30),
                    elev=rng.uniform(0, 100), dt=rng.choice([1, 60, 3600, 7200]))
    return Case("rel=%s,attr=%s" % (rel.name, attr), build, sample=sample, crosscheck=False)


class _NoneReg(NativeModel):
    def __getitem__(self, k):
        return None


def _tank_memory_case(how, attr):
    """the crossing memory the evaluate contract presupposes (`_last_value` = the watched attribute at the last look) is what __init__ and _reset establish -
    also for the conditions the simulator builds afresh on the tank's *head* when a paused run continues"""
    def build(cx):
        head, elev, th = cx.real("head"), cx.real("elev"), cx.real("th")
        cx.assume(cx.t(elev) != 0)
        tank = mk_node(cx, Tank, "T", _head=head, _elevation=elev, _diameter=cx.real("D"), _vol_curve_name=None, _curve_reg=_NoneReg())
        if how == "init":
            holder = []

            def make(t, a, r, v):
                c = C.ValueCondition(t, a, r, v)        # the public constructor: dispatches to TankLevelCondition for a tank's level / head / pressure
                holder.append(c)
                return c
            cx.target(make, tank, attr, Comparison.le, th)
            cx.interp.interpret_always = tuple(cx.interp.interpret_always) + (make, C.TankLevelCondition, C.ValueCondition)
        else:
            cond = cx.obj(C.TankLevelCondition, _source_obj=tank, _source_attr=attr, _relation=Comparison.le, _threshold=th, _backtrack=cx.int("stale_backtrack"),
                          _last_value=cx.real("stale_last_value"))
            cx.target(C.TankLevelCondition._reset, cond)

        def post(out):
            if not out.returned:
                return []
            c = out.value if how == "init" else cond
            if how == "init" and getattr(c, "cls", type(c)) is not C.TankLevelCondition:
                return [("a_condition_on_a_tank_s_level_head_or_pressure_is_a_tank_level_condition_with_crossing_memory_and_partial_steps", False)]
            lv = cx.interp.getattr(c, "_last_value")
            want = cx.t(head) if attr == "head" else cx.t(head) - cx.t(elev)
            posts = [("crossing_memory_starts_at_the_current_value_of_the_watched_attribute", library.as_real(lv) == want)]
            if how == "init":
                posts.append(("a_condition_on_a_tank_s_level_head_or_pressure_is_a_tank_level_condition_with_crossing_memory_and_partial_steps", True))
                posts.append(("watches_what_it_was_told_to", cx.interp.getattr(c, "_source_obj") is tank and cx.interp.getattr(c, "_source_attr") == attr))
            return posts
        cx.ensure(post)
    return Case("%s,attr=%s" % (how, attr), build, crosscheck=False)


_tank_cases = [_tank_level_case(r, a) for r in (Comparison.ge, Comparison.gt, Comparison.le, Comparison.lt)
               for a in ("level", "head", "pressure")]


# ---------------------------------------------------------------------------- RelativeCondition, And/Or

def _relative_case(rel):
    def build(cx):
        a, b = cx.real("a"), cx.real("b")
        s = mk_node(cx, Junction, "A", _head=a)
        t = mk_node(cx, Junction, "B", _head=b)
        cond = cx.obj(C.RelativeCondition, _source_obj=s, _source_attr="head", _relation=rel, _threshold_obj=t,
                      _threshold_attr="head", _backtrack=0)
        cx.target(C.RelativeCondition.evaluate, cond)

        def post(out):
            if not out.returned:
                return []
            return [("true_iff_relation_between_the_two_attributes", zb(out.value) == RELS[rel](cx.t(a), cx.t(b)))]
        cx.ensure(post)
    return Case("rel=%s" % rel.name, build)


class _Cond(NativeModel):
    """sub-condition with the contract of ControlCondition: evaluate() -> E, backtrack -> b."""

    def __init__(self, e, b):
        self.e, self.backtrack, self.calls = e, b, 0

    def evaluate(self):
        self.calls += 1
        return self.e

    def __bool__(self):   # never reached natively: the interpreter dispatches truth() below
        raise AssertionError


def _sub_models():
    m = library.build_models()
    return m


def _composite_case(cls):
    def build(cx):
        e1, e2, b1, b2 = cx.bool("e1"), cx.bool("e2"), cx.int("b1"), cx.int("b2")
        cx.assume(cx.t(b1) >= 0, cx.t(b2) >= 0)
        c1 = cx.obj(C.ValueCondition, _source_obj=mk_node(cx, Junction, "A", _head=cx.real("h1")), _source_attr="head",
                    _relation=Comparison.gt, _threshold=0.0, _backtrack=b1)
        c2 = cx.obj(C.ValueCondition, _source_obj=mk_node(cx, Junction, "B", _head=cx.real("h2")), _source_attr="head",
                    _relation=Comparison.gt, _threshold=0.0, _backtrack=b2)
        cond = cx.obj(cls, _condition_1=c1, _condition_2=c2)
        which = cx.which = cx.assignment.get("_which", "evaluate") if cx.mode != "symbolic" else None
        cx.cond = cond
        cx.target(_eval_and_backtrack, cond)

        def post(out):
            if not out.returned:
                return []
            r, bt = out.value
            E1, E2 = cx.t(cx.inputs["h1"]) > 0, cx.t(cx.inputs["h2"]) > 0
            want = z3.Or(E1, E2) if cls is C.OrCondition else z3.And(E1, E2)
            B1, B2 = cx.t(b1), cx.t(b2)
            wb = z3.If(B1 >= B2, B1, B2) if cls is C.OrCondition else z3.If(B1 <= B2, B1, B2)
            return [("value_is_%s_of_parts" % ("or" if cls is C.OrCondition else "and"), zb(r) == want),
                    ("backtrack_is_%s_of_parts" % ("max" if cls is C.OrCondition else "min"), library.as_int(bt) == wb)]
        cx.ensure(post)
    return Case(cls.__name__, build, crosscheck=False)


def _eval_and_backtrack(cond):
    return cond.evaluate(), cond.backtrack


# ---------------------------------------------------------------------------- control actions

class _Obs(NativeModel):
    def __init__(self):
        self.seen = []

    def update(self, subject):
        self.seen.append(subject)


def _action_init_case(attribute, private):
    def build(cx):
        link = mk_link(cx, PRValve, "V", None, None, _user_status=LinkStatus.Open, _setting=cx.real("old"), _base_speed=1.0)
        node = mk_node(cx, Junction, "J")
        tgt = node if attribute == "leak_status" else link
        cx.target(C.ControlAction, tgt, attribute, cx.real("v") if attribute == "setting" else LinkStatus.Closed)
        cx.tgt = tgt

        def post(out):
            if not out.returned:
                return []
            a = out.value
            return [("writes_the_simulation_side_attribute_not_the_definition", a.fields["_private_attribute"] == private),
                    ("target_recorded", a.fields["_target_obj"] is tgt and a.fields["_attribute"] == attribute)]
        cx.ensure(post)
    return Case("init:%s" % attribute, build, crosscheck=False)


def _action_run_case(kind):
    def build(cx):
        old, new = cx.real("old"), cx.real("new")
        link = mk_link(cx, PRValve, "V", None, None, _user_status=LinkStatus.Open, _internal_status=LinkStatus.Active, _setting=old)
        obs = _Obs()
        os_ = OrderedSet()
        os_.add(obs)
        if kind == "setting":
            act = cx.obj(C.ControlAction, _target_obj=link, _attribute="setting", _private_attribute="_setting", _value=new, _observers=os_)
            f = C.ControlAction.run_control_action
        elif kind == "status":
            act = cx.obj(C.ControlAction, _target_obj=link, _attribute="status", _private_attribute="_user_status",
                         _value=LinkStatus.Closed, _observers=os_)
            f = C.ControlAction.run_control_action
        else:
            act = cx.obj(C._InternalControlAction, _target_obj=link, _internal_attr="_internal_status", _property_attr="status",
                         _value=LinkStatus.Closed, _observers=os_)
            f = C._InternalControlAction.run_control_action
        cx.target(f, act)

        def post(out):
            if not out.returned:
                return []
            fl = link.fields
            posts = [("observers_notified_once", len(obs.seen) == 1 and obs.seen[0] is act)]
            if kind == "setting":
                posts += [("setting_written", library.as_real(fl["_setting"]) == cx.t(new)),
                          ("nothing_else_written", fl["_user_status"] is LinkStatus.Open and fl["_internal_status"] is LinkStatus.Active)]
            elif kind == "status":
                posts += [("user_status_written", fl["_user_status"] is LinkStatus.Closed),
                          ("nothing_else_written", fl["_internal_status"] is LinkStatus.Active and library.as_real(fl["_setting"]) == cx.t(old))]
            else:
                posts += [("internal_status_written", fl["_internal_status"] is LinkStatus.Closed),
                          ("nothing_else_written", fl["_user_status"] is LinkStatus.Open and library.as_real(fl["_setting"]) == cx.t(old))]
            return posts
        cx.ensure(post)
    return Case("run:%s" % kind, build, crosscheck=False)


# ---------------------------------------------------------------------------- Rule.is_control_action_required / run_control_action

class _Act(NativeModel):
    def __init__(self, log, tag):
        self.log, self.tag = log, tag

    def run_control_action(self):
        self.log.append(self.tag)


def _rule_case(n_else):
    def build(cx):
        h, b = cx.real("h"), cx.int("b")
        cx.assume(cx.t(b) >= 0)
        cond = cx.obj(C.ValueCondition, _source_obj=mk_node(cx, Junction, "A", _head=h), _source_attr="head",
                      _relation=Comparison.gt, _threshold=0.0, _backtrack=b)
        log = []
        then = [_Act(log, "then0"), _Act(log, "then1")]
        els = [_Act(log, "else%d" % i) for i in range(n_else)] if n_else is not None else None
        rule = cx.obj(C.Rule, _condition=cond, _then_actions=then, _else_actions=els, _which=None, _priority=3)
        cx.target(_required_then_run, rule)

        def post(out):
            if not out.returned:
                return []
            (do, back), ran = out.value
            E = cx.t(h) > 0
            has_else = bool(n_else)
            posts = [("required_iff_condition_true_or_else_branch_exists", zb(do) == (z3.BoolVal(True) if has_else else E))]
            # which actions ran is path dependent: decide per path
            then_ran, else_ran = log[:2] == ["then0", "then1"] and len(log) == 2, log == ["else%d" % i for i in range(n_else or 0)] and bool(n_else)
            posts.append(("then_actions_run_once_each_in_order_iff_condition_true", z3.Implies(E, z3.BoolVal(then_ran))))
            posts.append(("else_actions_run_iff_condition_false_and_present",
                          z3.Implies(z3.Not(E), z3.BoolVal(else_ran if has_else else log == []))))
            if back is not None:
                posts.append(("backtrack_passed_through", library.as_int(back) == cx.t(b)))
            return posts
        cx.ensure(post)
    return Case("else_actions=%s" % n_else, build, crosscheck=False)


def _required_then_run(rule):
    r = rule.is_control_action_required()
    if r[0]:
        rule.run_control_action()
    return r, None


# ---------------------------------------------------------------------------- ControlChecker.check (k = 3 registered controls)

class _Ctl(NativeModel):
    def __init__(self, do, back, tag):
        self.do, self.back, self.tag = do, back, tag

    def is_control_action_required(self):
        return self.do, self.back


def _checker_case():
    def build(cx):
        ds = [cx.bool("do%d" % i) for i in range(3)]
        bs = [cx.int("back%d" % i) for i in range(3)]
        ctls = [_Ctl(d, b, i) for i, (d, b) in enumerate(zip(ds, bs))]
        os_ = OrderedSet()
        for c in ctls:
            os_.add(c)
        chk = cx.obj(C.ControlChecker, _controls=os_)
        cx.target(C.ControlChecker.check, chk)

        def post(out):
            if not out.returned:
                return []
            got = out.value
            tags = [c.tag for c, b in got]
            posts = [("registration_order_kept", tags == sorted(tags)),
                     ("each_backtrack_is_its_controls", all(b is c.back for c, b in got))]
            for i, c in enumerate(ctls):
                posts.append(("control_%d_returned_iff_required" % i, z3.BoolVal(i in tags) == cx.t(ds[i])))
            return posts
        cx.ensure(post)
    return Case("three_controls", build, crosscheck=False)


# ---------------------------------------------------------------------------- ControlChangeTracker.update / changes_made

def _tracker_case(kind):
    def build(cx):
        old_g, old_m, new = cx.real("ref_graph"), cx.real("ref_model"), cx.real("new")
        link = mk_link(cx, PRValve, "V", None, None, _user_status=LinkStatus.Open, _setting=new)
        other = mk_link(cx, PRValve, "W", None, None)
        key, okey = (link, "setting"), (other, "status")
        act = cx.obj(C.ControlAction, _target_obj=link, _attribute="setting", _private_attribute="_setting", _value=new)
        ch_g, ch_m = OrderedSet(), OrderedSet()
        if kind == "was_changed":
            ch_g.add(key)
        ch_m.add(okey)
        tr = cx.obj(C.ControlChangeTracker, _actions={}, _previous_values={"graph": {key: old_g, okey: LinkStatus.Open}, "model": {key: old_m, okey: LinkStatus.Open}},
                    _changed={"graph": ch_g, "model": ch_m})
        cx.target(_update_and_query, tr, act)

        def post(out):
            if not out.returned:
                return []
            cg, cm = out.value
            NEW = cx.t(new)
            dg, dm = NEW != cx.t(old_g), NEW != cx.t(old_m)
            return [("changed_since_graph_reference_iff_value_differs", z3.BoolVal(key in ch_g) == dg),
                    ("changed_since_model_reference_iff_value_differs", z3.BoolVal(key in ch_m) == dm),
                    ("other_tracked_changes_kept", okey in ch_m and okey not in ch_g),
                    ("changes_made_graph_iff_any_change", zb(cg) == dg),
                    ("changes_made_model_true_other_change_pending", zb(cm) == z3.BoolVal(True))]
        cx.ensure(post)
    return Case(kind, build, crosscheck=False)


def _update_and_query(tr, act):
    tr.update(act)
    return tr.changes_made("graph"), tr.changes_made("model")


CONTRACTS = [
    Contract("wntr.network.controls:ValueCondition.evaluate", P, _value_cases,
             trusted=["np.round(x, 10) is the identity (float == R)"]),
    Contract("wntr.network.controls:TankLevelCondition.evaluate", P + ["C06"], _tank_cases,
             note="cylindrical tank; precondition is the ensures of update_tank_heads (level moved by q*dt/A during the step)",
             trusted=["np.round(x, 10) is the identity (float == R)"]),
    Contract("wntr.network.controls:TankLevelCondition.__init__/_reset", P + ["C06", "C10"], [_tank_memory_case(h, a) for h in ("init", "reset") for a in ("level", "head", "pressure")],
             note="establishes the precondition of the evaluate contract (fresh model, reset, and the controls rebuilt when a paused run continues)"),
    Contract("wntr.network.controls:RelativeCondition.evaluate", P, [_relative_case(r) for r in RELS]),
    Contract("wntr.network.controls:And/OrCondition.evaluate+backtrack", P + ["C04"], [_composite_case(C.OrCondition), _composite_case(C.AndCondition)],
             interpret_always=(_eval_and_backtrack,)),
    Contract("wntr.network.controls:ControlAction.__init__", P + ["C11", "C08"],
             [_action_init_case("status", "_user_status"), _action_init_case("setting", "_setting"), _action_init_case("leak_status", "_leak_status")],
             interpret_always=(C.ControlAction,)),
    Contract("wntr.network.controls:ControlAction/_InternalControlAction.run_control_action", P + ["C04", "C11", "C08"],
             [_action_run_case(k) for k in ("setting", "status", "internal")]),
    Contract("wntr.network.controls:Rule.is_control_action_required+run_control_action", P + ["C04"],
             [_rule_case(None), _rule_case(0), _rule_case(2)], interpret_always=(_required_then_run,)),
    Contract("wntr.network.controls:ControlChecker.check", P + ["C04"], [_checker_case()],
             note="verified for 3 registered controls with symbolic outcomes (loop unrolled: bounded in the number of controls)"),
    Contract("wntr.network.controls:ControlChangeTracker.update+changes_made", P, [_tracker_case("fresh"), _tracker_case("was_changed")],
             interpret_always=(_update_and_query,)),
]
