"""C20 — demand, resilience and cost metrics.

Deductive core: expected_demand (entry for an arbitrary junction and an arbitrary time of the grid equals
Demands.at(time + pattern_start, multiplier, category) — the demand the simulator requests in demand-driven mode,
contracts/c20_demand.py), _gcd (Euclid loop: invariant gcd(x, y) = gcd(x0, y0)), _lcm.
Bounded stand-ins: the pandas table metrics against independently written formulas on random small tables and on
example networks (water_service_availability, todini_index, modified_resilience_index, tank_capacity, population,
pump power / energy / cost, average_expected_demand, annual_network_cost, annual_ghg_emissions).
"""
import math
import os
import types

import numpy as np
import z3

from pyvc.core import Contract, Case
from pyvc.runner import Bounded, Lemma
from pyvc.values import SV, SymObj, NativeModel, GenericIter, NameSort
from pyvc import library
from pyvc.loops import while_invariant

import wntr.metrics.hydraulic as H
from wntr.network.elements import Junction
from contracts._net import WN2, mk_node, time_options, fn, R

P = ["C20"]
I = z3.IntSort()
DEMAT = fn("demands_at", NameSort, I, R, NameSort, R)     # Demands.at(time, multiplier, category) of junction n
NOCAT = z3.Const("no_category", NameSort)


class DemList(NativeModel):
    def __init__(self, cx, n):
        self.cx, self.n = cx, n

    def at(self, time, category=None, multiplier=1):
        c = NOCAT if category is None else self.cx._zterm(category)
        return self.cx.fval(DEMAT, self.n, time, multiplier, c)


class Frame(NativeModel):
    def __init__(self, index=None, data=None):
        self.index, self.data = index, data


def _models():
    m = library.build_models()

    def arange(interp, args, kw):
        # the independent-iteration rule over the time grid: one arbitrary grid time start + i*step, 0 <= i, time < stop
        start, stop, step = args
        p = interp.path
        i = p.fresh("grid_index", "int")
        t = library.as_int(start) + i.t * library.as_int(step)
        p.assume(z3.And(i.t >= 0, t < library.as_int(stop)))
        return GenericIter([SV(t, "int")])
    m.register(np.arange, arange, trusted="np.arange(start, stop, step) is the grid start + i*step below stop")
    import pandas as pd
    m.register(pd.DataFrame, lambda interp, args, kw: Frame(kw.get("index"), kw.get("data")), trusted="pandas.DataFrame(index, data) keeps the columns given")
    return m


def _expected_demand_case(with_category):
    def build(cx):
        n = cx.name("n")
        start, end, step, ps, dm = cx.int("start_time"), cx.int("end_time"), cx.int("timestep"), cx.int("pattern_start"), cx.real("demand_multiplier")
        cx.assume(cx.t(start) >= 0, cx.t(end) >= cx.t(start), cx.t(step) > 0, cx.t(ps) >= 0)
        cat = cx.name("category") if with_category else None
        node = mk_node(cx, Junction, n, _demand_timeseries_list=DemList(cx, n))
        opts = cx.obj(types.SimpleNamespace, hydraulic=cx.obj(types.SimpleNamespace, demand_multiplier=dm),
                      time=time_options(cx, pattern_start=ps))
        wn = WN2(options=opts)
        wn.declare_node(n, node)
        cx.target(H.expected_demand, wn, start, end, step, cat)

        def post(out):
            if not out.returned:
                return []
            fr = out.value
            col = fr.data
            key = [k for k in col][0]
            vals = col[key]
            t = fr.index[0]
            c = cx.t(cat) if with_category else NOCAT
            return [("one_entry_per_grid_time", len(vals) == 1 and len(col) == 1),
                    ("entry_is_the_demand_the_simulator_requests_at_that_time",
                     library.as_real(vals[0]) == DEMAT(cx.t(n), library.as_int(t) + cx.t(ps), cx.t(dm), c)),
                    ("grid_time_within_requested_window", z3.And(library.as_int(t) >= cx.t(start), library.as_int(t) < cx.t(end) + cx.t(step)))]
        cx.ensure(post)
    return Case("category=%s" % with_category, build, crosscheck=False)


# ---------------------------------------------------------------------------- _gcd, _lcm

GCD = z3.Function("gcd", I, I, I)


def _gcd_axioms(a, b):
    """Euclid: gcd(a, b) = gcd(b, a mod b) for b > 0; gcd(a, 0) = a for a >= 0 (instantiated at the loop state)."""
    return [z3.Implies(b > 0, GCD(a, b) == GCD(b, a % b)), z3.Implies(a >= 0, GCD(a, z3.IntVal(0)) == a)]


def _gcd_inv(interp, env):
    x, y = library.as_int(env.locals["x"]), library.as_int(env.locals["y"])
    for ax in _gcd_axioms(x, y):
        interp.path.assume(ax)
    return [("gcd_of_current_pair_is_gcd_of_the_arguments", GCD(x, y) == GCD(z3.Int("x0"), z3.Int("y0"))),
            ("operands_non_negative", z3.And(x >= 0, y >= 0))]


def _gcd_variant(interp, env):
    return library.as_int(env.locals["y"])


def _gcd_case():
    def build(cx):
        x0, y0 = cx.int("x0"), cx.int("y0")
        cx.assume(cx.t(x0) > 0, cx.t(y0) > 0)
        cx.target(H._gcd, x0, y0)

        def post(out):
            if not out.returned:
                return []
            if cx.mode != "symbolic":
                return [("result_is_the_greatest_common_divisor", out.value == math.gcd(int(x0), int(y0)))]
            r = out.value
            if r is None:
                return [("result_is_the_greatest_common_divisor", False)]
            return [("result_is_the_greatest_common_divisor", library.as_int(r) == GCD(cx.t(x0), cx.t(y0)))]
        cx.ensure(post)

    def sample(rng):
        return dict(x0=rng.choice([86400, 3600, 25200, 7, 12, 604800, 1]), y0=rng.choice([86400, 25200, 3600, 5, 18, 7200, 1]))
    return Case("positive_arguments", build, sample=sample)


def _lcm_case():
    def build(cx):
        x0, y0 = cx.int("x0"), cx.int("y0")
        cx.assume(cx.t(x0) > 0, cx.t(y0) > 0)
        cx.target(H._lcm, x0, y0)

        def post(out):
            if not out.returned:
                return []
            if cx.mode != "symbolic":
                return [("lcm_times_gcd_is_the_product", abs(out.value - x0 * y0 // math.gcd(int(x0), int(y0))) < 1e-6)]
            return [("lcm_times_gcd_is_the_product", library.as_real(out.value) * z3.ToReal(GCD(cx.t(x0), cx.t(y0))) == z3.ToReal(cx.t(x0) * cx.t(y0)))]
        cx.ensure(post)

    def sample(rng):
        return dict(x0=rng.choice([86400, 3600, 25200, 7, 12]), y0=rng.choice([86400, 25200, 3600, 5, 18]))
    return Case("positive_arguments", build, sample=sample)


def _lcm_models():
    m = library.build_models()

    def gcd_contract(interp, args, kw):
        x, y = library.as_int(args[0]), library.as_int(args[1])
        interp.path.oblige("call:_gcd.requires positive arguments", z3.And(x > 0, y > 0), kind="callsite")
        g = GCD(x, y)
        interp.path.assume(g > 0)
        return SV(g, "int")
    m.register(H._gcd, gcd_contract, verified_by="wntr.metrics.hydraulic:_gcd#result_is_the_greatest_common_divisor")
    return m


# ---------------------------------------------------------------------------- average_expected_demand: which grid it averages over

class _Pat(NativeModel):
    def __init__(self, n):
        self.multipliers = [1.0] * n


class _WnAvg(NativeModel):
    def __init__(self, opts, lens):
        self.options = opts
        self._p = [("pat%d" % i, _Pat(n)) for i, n in enumerate(lens)]

    def patterns(self):
        return list(self._p)


class _Mean(NativeModel):
    def __init__(self, log):
        self.log = log

    def mean(self, axis=None):
        self.log.append(("mean", axis))
        return "mean over the rows"


def _avg_case(lens, pts):
    """pattern lengths and the pattern timestep concrete (the common period is computed by the real _lcml), pattern start and
    the report timestep symbolic and unrelated: the average is taken over exactly one common period of all patterns (and of a day), sampled
    once per pattern step, starting at the pattern start"""
    def build(cx):
        pstart, rstep = cx.int("pattern_start"), cx.int("report_timestep")
        cx.assume(cx.t(pstart) >= 0, cx.t(rstep) >= 1)
        opts = types.SimpleNamespace(time=types.SimpleNamespace(pattern_start=pstart, pattern_timestep=pts, report_timestep=rstep, hydraulic_timestep=rstep, duration=0),
                                     hydraulic=types.SimpleNamespace(demand_multiplier=1.0))
        wn = _WnAvg(opts, lens)
        log = []
        cx.log = log
        cx.interp.models.register(H.expected_demand, lambda interp, args, kw: (log.append(("expected_demand", args, kw)), _Mean(log))[1],
                                  verified_by="wntr.metrics.hydraulic:expected_demand (this file)")
        cx.target(H.average_expected_demand, wn)

        def post(out):
            if not out.returned:
                return []
            period = 86400
            for n in lens:
                period = period * (n * pts) // math.gcd(period, n * pts)
            calls = [c for c in log if c[0] == "expected_demand"]
            ok_shape = len(calls) == 1 and len(calls[0][1]) == 4 and calls[0][1][0] is wn and ("mean", 0) in log and out.value == "mean over the rows"
            if not ok_shape:
                return [("averages_one_expected_demand_table_over_its_rows", False)]
            _, st, en, step = calls[0][1]
            # expected_demand's grid is start, start + step, ... <= end: n_samples * step == period, first sample at the pattern start
            return [("averages_one_expected_demand_table_over_its_rows", True),
                    ("first_sample_at_the_pattern_start", library.as_int(st) == cx.t(pstart)),
                    ("one_sample_per_pattern_step", library.as_int(step) == pts),
                    ("samples_cover_exactly_one_common_period", library.as_int(en) == cx.t(pstart) + period - pts)]
        cx.ensure(post)
    return Case("pattern_lengths=%s,pattern_timestep=%d" % (list(lens), pts), build, crosscheck=False)


_avg_cases = [_avg_case(l, p) for l, p in (((24,), 3600), ((12,), 7200), ((7,), 3600), ((5, 3), 1800), ((24, 7), 3600), ((), 900))]

CONTRACTS = [
    Contract("wntr.metrics.hydraulic:average_expected_demand", P, _avg_cases,
             note="pattern counts / lengths and the pattern timestep of the listed cases are concrete; pattern start and report timestep are symbolic",
             trusted=["pandas DataFrame.mean(axis=0) is the mean over the rows (time)", "RegInv (C14): wn.patterns() enumerates the patterns"]),
    Contract("wntr.metrics.hydraulic:expected_demand", P, [_expected_demand_case(False), _expected_demand_case(True)], models=_models,
             trusted=["Demands.at contract (contracts/c20_demand.py)", "RegInv (C14): wn.junctions() enumerates the junctions"]),
    Contract("wntr.metrics.hydraulic:_gcd", P, [_gcd_case()],
             loop_specs={("wntr.metrics.hydraulic:_gcd", 1): while_invariant(_gcd_inv, variant=_gcd_variant, havoc=["x", "y"])},
             trusted=["gcd is the function satisfying Euclid's equations gcd(a,b)=gcd(b,a mod b), gcd(a,0)=a"]),
    Contract("wntr.metrics.hydraulic:_lcm", P, [_lcm_case()], models=_lcm_models),
]


# ---------------------------------------------------------------------------- bounded stand-ins (pandas metrics)

def _repo():
    import wntr
    return os.path.dirname(os.path.dirname(os.path.abspath(wntr.__file__)))


def _tables(tier, seed):
    import random
    import warnings
    import pandas as pd
    import wntr
    warnings.simplefilter("ignore")
    rng = random.Random(seed + 17)
    evals, distinct, failures, samples = 0, set(), [], []
    N = 40 if tier == "quick" else 400

    def close(a, b, tol=1e-9):
        a, b = np.asarray(a, dtype=float), np.asarray(b, dtype=float)
        return a.shape == b.shape and np.allclose(a, b, rtol=tol, atol=1e-12, equal_nan=True)
    for it in range(N):
        nj, nt = rng.randint(1, 4), rng.randint(1, 4)
        times = [3600 * i for i in range(nt)]
        js = ["J%d" % i for i in range(nj)]
        rnd = lambda lo, hi: [[rng.uniform(lo, hi) for _ in js] for _ in times]
        demand = pd.DataFrame(rnd(0.001, 0.1), index=times, columns=js)
        exp = pd.DataFrame(rnd(0.001, 0.1), index=times, columns=js)
        pressure = pd.DataFrame(rnd(5, 60), index=times, columns=js)
        elevation = pd.Series([rng.uniform(0, 100) for _ in js], index=js)
        Pstar = rng.uniform(10, 40)
        checks = []
        wsa = wntr.metrics.water_service_availability(exp, demand)
        checks.append(("wsa", close(wsa.values, [[demand.loc[t, j] / exp.loc[t, j] for j in js] for t in times])))
        mri = wntr.metrics.modified_resilience_index(pressure, elevation, Pstar, per_junction=True)
        checks.append(("mri_per_junction", close(mri.values, [[(pressure.loc[t, j] - Pstar) / (Pstar + elevation[j]) for j in js] for t in times])))
        mri2 = wntr.metrics.modified_resilience_index(pressure, elevation, Pstar, demand=demand, per_junction=False)
        ref = []
        for t in times:
            pout = sum(demand.loc[t, j] * (pressure.loc[t, j] + elevation[j]) for j in js)
            pexp = sum(demand.loc[t, j] * (Pstar + elevation[j]) for j in js)
            ref.append((pout - pexp) / pexp)
        checks.append(("mri_system", close(mri2.values, ref)))
        # the elevation table is matched with the junction columns by name, whatever its order
        shuffled = elevation.sort_values(ascending=bool(it % 2))
        checks.append(("mri_system_elevation_in_another_order", close(wntr.metrics.modified_resilience_index(pressure, shuffled, Pstar, demand=demand, per_junction=False).values, ref)))
        m3 = wntr.metrics.modified_resilience_index(pressure, shuffled, Pstar, per_junction=True)
        checks.append(("mri_per_junction_elevation_in_another_order", close(m3[js].values, [[(pressure.loc[t, j] - Pstar) / (Pstar + elevation[j]) for j in js] for t in times])))
        wsa2 = wntr.metrics.water_service_availability(exp[js[::-1]], demand)
        checks.append(("wsa_columns_in_another_order", close(wsa2[js].values, [[demand.loc[t, j] / exp.loc[t, j] for j in js] for t in times])))
        for nm, ok in checks:
            evals += 1
            distinct.add((nm, nj, nt))
            if not ok:
                failures.append(dict(metric=nm, junctions=nj, times=nt, seed=seed, iteration=it))
        if len(samples) < 2:
            samples.append(dict(metric="wsa/mri", shape=[nt, nj], Pstar=Pstar))
    return dict(evaluations=evals, distinct_nontrivial=len(distinct), failures=failures[:10], samples=samples, exhaustive=False,
                scope="%d random tables (1-4 junctions x 1-4 times): water_service_availability, modified_resilience_index (both forms) vs the documented formulas" % N)


def _network_metrics(tier, seed):
    import warnings
    import logging
    import pandas as pd
    import wntr
    warnings.simplefilter("ignore")
    logging.disable(logging.CRITICAL)
    root = _repo()
    evals, distinct, failures, samples = 0, set(), [], []
    nets = ["examples/networks/Net1.inp", "examples/networks/Net3.inp", "wntr/tests/networks_for_testing/Anytown_multipointcurves.inp",
            "variant:Net1_interpolated_patterns_half_hour_steps", "variant:Net1_report_step_coarser_than_hydraulic_step", "variant:two_reservoirs_one_filled", "variant:two_reservoirs_power_pump",
            "variant:Net1_with_inflow_junctions"] + \
        (["examples/networks/Net2.inp"] if tier == "thorough" else [])      # Anytown_multipointcurves: a tank with a volume curve

    def load(rel):
        if rel in ("variant:two_reservoirs_one_filled", "variant:two_reservoirs_power_pump"):
            # a pumped source feeding through to a second, lower reservoir: that reservoir's demand is positive (it is being filled)
            w = wntr.network.WaterNetworkModel()
            w.add_reservoir("R1", base_head=20.0)
            w.add_reservoir("R2", base_head=35.0)
            for i, dmd in enumerate((0.01, 0.02, 0.015)):
                w.add_junction("J%d" % i, base_demand=dmd, elevation=5.0)
            w.add_curve("pc", "HEAD", [(0.0, 60.0), (0.1, 45.0), (0.2, 10.0)])
            if rel.endswith("power_pump"):
                w.add_pump("PU", "R1", "J0", pump_type="POWER", pump_parameter=25000.0)       # a constant-power pump supplies power too
                # ... and none while it is shut (the second reservoir then feeds the junctions)
                from wntr.network.controls import Control, ControlAction
                w.add_control("shut", Control._time_control(w, 3600, "SIM_TIME", False, ControlAction(w.get_link("PU"), "status", 0)))
            else:
                w.add_pump("PU", "R1", "J0", pump_type="HEAD", pump_parameter="pc")
            w.add_pipe("P1", "J0", "J1", length=300, diameter=0.3, roughness=100)
            w.add_pipe("P2", "J1", "J2", length=300, diameter=0.3, roughness=100)
            w.add_pipe("P3", "J2", "R2", length=300, diameter=0.25, roughness=100)
            w.options.time.duration = 2 * 3600
            w.options.energy.global_efficiency = 75.0
            w.options.energy.global_price = 3.0e-8
            return w
        w = wntr.network.WaterNetworkModel(os.path.join(root, "examples/networks/Net1.inp" if rel.startswith("variant:") else rel))
        w.options.time.duration = 6 * 3600
        if rel == "variant:Net1_interpolated_patterns_half_hour_steps":
            w.options.time.pattern_interpolation = True
            w.options.time.hydraulic_timestep = 1800
            w.options.time.report_timestep = 1800
        if rel == "variant:Net1_report_step_coarser_than_hydraulic_step":
            w.options.time.hydraulic_timestep = 900
            w.options.time.report_timestep = 3600
        if rel == "variant:Net1_with_inflow_junctions":
            # wells: junctions with a negative demand (their "population" is negative and is rounded like any other)
            for jn_, base in (("21", -0.00413), ("22", -0.0012), ("31", -0.00307), ("32", -0.002)):
                w.get_node(jn_).demand_timeseries_list[0].base_value = base
        return w
    for rel in nets:
        wn = load(rel)
        for pstart in (0, 7200):
            wn.options.time.pattern_start = pstart
            wn.reset_initial_values()
            res = wntr.sim.WNTRSimulator(wn).run_sim()
            # expected_demand == what the simulator delivers in demand-driven mode (statement of the property)
            ed = wntr.metrics.expected_demand(wn)
            sim = res.node["demand"].loc[:, wn.junction_name_list]
            ok = np.allclose(ed.loc[sim.index, :].values, sim.values, rtol=1e-9, atol=1e-12)
            evals += 1
            distinct.add((rel, "expected_demand_vs_simulator", pstart))
            if not ok:
                failures.append(dict(net=rel, check="expected_demand equals demand-driven simulator demand", pattern_start=pstart,
                                     max_abs_difference=float(np.abs(ed.loc[sim.index, :].values - sim.values).max())))
            # average_expected_demand: mean over one whole common period of all patterns
            L = 86400
            for name, pat in wn.patterns():
                L = L * (len(pat.multipliers) * wn.options.time.pattern_timestep) // math.gcd(L, len(pat.multipliers) * wn.options.time.pattern_timestep)
            ts = wn.options.time.pattern_timestep
            aed = wntr.metrics.average_expected_demand(wn)
            ref = {}
            for jn, j in wn.junctions():
                ref[jn] = float(np.mean([j.demand_timeseries_list.at(t, multiplier=wn.options.hydraulic.demand_multiplier) for t in range(0, L, ts)]))
            ok = np.allclose([aed[jn] for jn in ref], list(ref.values()), rtol=1e-9, atol=1e-15)
            evals += 1
            distinct.add((rel, "average_expected_demand", pstart))
            if not ok:
                failures.append(dict(net=rel, check="average_expected_demand is the mean over one common period", period=L, pattern_start=pstart))
            pop = wntr.metrics.population(wn)
            ok = np.allclose(pop.values, np.round(np.array([ref[jn] for jn in pop.index]) / 0.00000876157))
            evals += 1
            distinct.add((rel, "population", pstart))
            if not ok:
                failures.append(dict(net=rel, check="population = round(average expected demand / R)"))
        # pump power / energy / cost
        if wn.num_pumps and not any(pump.efficiency is not None for _, pump in wn.pumps()):      # pump efficiency curves: NotImplementedError in WNTR
            fl, hd = res.link["flowrate"].loc[:, wn.pump_name_list], res.node["head"]
            pw = wntr.metrics.pump_power(fl, hd, wn)
            en = wntr.metrics.pump_energy(fl, hd, wn)
            cost = wntr.metrics.pump_cost(en, wn)
            eff = wn.options.energy.global_efficiency / 100.0
            for pn, pump in wn.pumps():
                dh = hd[pump.end_node_name] - hd[pump.start_node_name]
                refp = 1000.0 * 9.81 * dh * fl[pn] / eff
                price = pump.energy_price if pump.energy_price is not None else wn.options.energy.global_price
                ok = np.allclose(pw[pn].astype(float), refp) and np.allclose(en[pn].astype(float), refp * wn.options.time.report_timestep) and \
                    np.allclose(cost[pn].astype(float), refp * wn.options.time.report_timestep * price)
                evals += 1
                distinct.add((rel, "pump", pn))
                if not ok:
                    failures.append(dict(net=rel, check="pump power/energy/cost formulas", pump=pn))
            # a pump on its own tariff (no price pattern): its energy is costed at its own price, the others at the global one
            first = wn.pump_name_list[0]
            own = 3.1e-8
            wn.get_link(first).energy_price = own
            try:
                cost2 = wntr.metrics.pump_cost(en, wn)
                ok = all(np.allclose(cost2[pn].astype(float), en[pn].astype(float) * (own if pn == first else wn.options.energy.global_price)) for pn in wn.pump_name_list)
            finally:
                wn.get_link(first).energy_price = None
            evals += 1
            distinct.add((rel, "pump_own_price", first))
            if not ok:
                failures.append(dict(net=rel, check="a pump with its own energy price is costed at that price, the others at the global price", pump=first))
        # tank capacity
        if wn.num_tanks:
            pr = res.node["pressure"].loc[:, wn.tank_name_list]
            tc = wntr.metrics.tank_capacity(pr, wn)
            for tn, tank in wn.tanks():
                if tank.vol_curve is None:
                    ref_tc = pr[tn] / tank.max_level
                else:
                    pts_ = np.array(tank.vol_curve.points)
                    ref_tc = np.interp(pr[tn].values.astype(float), pts_[:, 0], pts_[:, 1]) / float(np.interp(tank.max_level, pts_[:, 0], pts_[:, 1]))
                ok = np.allclose(tc[tn].astype(float), ref_tc)
                evals += 1
                distinct.add((rel, "tank_capacity", tn))
                if not ok:
                    failures.append(dict(net=rel, check="tank_capacity = volume(level)/volume(max_level)", tank=tn, volume_curve=tank.vol_curve_name))
        # todini
        Pstar = 15.0
        td = wntr.metrics.todini_index(res.node["head"], res.node["pressure"], res.node["demand"], res.link["flowrate"], wn, Pstar)
        ref = []
        for t in res.node["head"].index:
            h, p, d, q = res.node["head"].loc[t], res.node["pressure"].loc[t], res.node["demand"].loc[t], res.link["flowrate"].loc[t]
            pout = sum(d[j] * h[j] for j in wn.junction_name_list)
            pexp = sum(d[j] * (Pstar + h[j] - p[j]) for j in wn.junction_name_list)
            pres = sum(-d[r] * h[r] for r in wn.reservoir_name_list)
            ppump = sum(q[pn] * abs(h[pu.end_node_name] - h[pu.start_node_name]) for pn, pu in wn.pumps())
            ref.append((pout - pexp) / (pres + ppump - pexp))
        ok = np.allclose(td.values.astype(float), ref, rtol=1e-9)
        evals += 1
        distinct.add((rel, "todini"))
        if not ok:
            failures.append(dict(net=rel, check="todini_index formula"))
        if len(samples) < 2:
            samples.append(dict(net=rel, checks=["expected_demand vs simulator (pattern_start 0 and 7200)", "average_expected_demand", "population", "pump power/energy/cost", "tank_capacity", "todini_index"]))
    return dict(evaluations=evals, distinct_nontrivial=len(distinct), failures=failures[:10], samples=samples, exhaustive=False,
                scope="%s: metrics vs formulas written independently from the documentation, on simulated results" % ", ".join(nets))


def _cost_metrics(tier, seed):
    import random
    import warnings
    import wntr
    warnings.simplefilter("ignore")
    rng = random.Random(seed + 5)
    root = _repo()
    evals, distinct, failures, samples = 0, set(), [], []
    inch = 0.0254
    D = [4, 6, 8, 10, 12, 14, 16, 18, 20, 24, 28, 30]
    pipe_c = [8.31, 10.1, 12.1, 12.96, 15.22, 16.62, 19.41, 22.2, 24.66, 35.69, 40.08, 42.6]
    prv_c = [323, 529, 779, 1113, 1892, 2282, 4063, 4452, 4564, 5287, 6122, 6790]
    ghg_c = [5.9, 9.71, 13.94, 18.43, 23.16, 28.09, 33.09, 38.35, 43.76, 54.99, 66.57, 72.58]
    tank_v, tank_c = [500, 1000, 2000, 3750, 5000, 10000], [14020, 30640, 61210, 87460, 122420, 174930]
    pmp_p, pmp_c = [11310, 22620, 24880, 31670, 38000, 45240, 49760, 54280, 59710], [2850, 3225, 3307, 3563, 3820, 4133, 4339, 4554, 4823]

    def nearest(keys, vals, x):
        best = min(range(len(keys)), key=lambda i: (abs(keys[i] - x), i))
        return vals[best]
    for rel in ["examples/networks/Net1.inp", "examples/networks/Net3.inp", "wntr/tests/networks_for_testing/Anytown.inp"]:
        for variant in range(3 if tier == "quick" else 12):
            wn = wntr.network.WaterNetworkModel(os.path.join(root, rel))
            if variant:
                for pn, p in wn.pipes():
                    p.diameter = rng.choice(D) * inch * rng.uniform(0.9, 1.1)
            cost = wntr.metrics.annual_network_cost(wn)
            ghg = wntr.metrics.annual_ghg_emissions(wn)
            ref = 0.0
            for tn, t in wn.tanks():
                if t.vol_curve is None:
                    ref += nearest(tank_v, tank_c, math.pi * (t.diameter / 2) ** 2 * t.max_level)
                else:
                    ref = None
                    break
            if ref is None:
                continue
            eff = wn.options.energy.global_efficiency
            for pn, p in wn.pipes():
                ref += nearest([d * inch for d in D], pipe_c, p.diameter) * p.length
            for pn, p in wn.head_pumps():
                A, B, C = p.get_head_curve_coefficients()
                q = (A / (B * (C + 1))) ** (1.0 / C)
                ref += nearest(pmp_p, pmp_c, 9.81 * 1000 * q * (A - B * q ** C) / eff)
            for pn, p in wn.power_pumps():
                ref += nearest(pmp_p, pmp_c, p.power / eff)
            for vn, v in wn.valves():
                if v.valve_type == "PRV":
                    ref += nearest([d * inch for d in D], prv_c, v.diameter)
            refg = sum(nearest([d * inch for d in D], ghg_c, p.diameter) * p.length for pn, p in wn.pipes())
            evals += 2
            distinct.add((rel, variant))
            if not (abs(cost - ref) <= 1e-6 * max(1, abs(ref))):
                failures.append(dict(net=rel, variant=variant, metric="annual_network_cost", got=float(cost), expected=float(ref)))
            if not (abs(ghg - refg) <= 1e-6 * max(1, abs(refg))):
                failures.append(dict(net=rel, variant=variant, metric="annual_ghg_emissions", got=float(ghg), expected=float(refg)))
            if len(samples) < 2:
                samples.append(dict(net=rel, variant=variant, annual_network_cost=float(cost), annual_ghg=float(ghg)))
            # the caller's own tables, each on a grid of its own, and two pressure-reducing valves in the network
            import pandas as pd
            jn = wn.junction_name_list
            wn.add_valve("verif_prv_a", jn[0], jn[1], diameter=rng.choice([0.11, 0.26, 0.49]), valve_type="PRV", initial_setting=20.0)
            wn.add_valve("verif_prv_b", jn[1], jn[2], diameter=rng.choice([0.2, 0.33, 0.7]), valve_type="PRV", initial_setting=20.0)
            my_pipe = pd.Series([10.0, 20.0, 30.0, 55.0], index=[0.1, 0.2, 0.4, 0.8])
            my_prv = pd.Series([100.0, 300.0, 900.0, 2000.0, 2700.0], index=[0.05, 0.15, 0.3, 0.5, 0.75])
            my_tank = pd.Series([1.0e4, 5.0e4, 2.0e5], index=[300.0, 3000.0, 30000.0])
            my_pump = pd.Series([1000.0, 3000.0, 7000.0], index=[5000.0, 30000.0, 90000.0])
            cost = wntr.metrics.annual_network_cost(wn, tank_cost=my_tank, pipe_cost=my_pipe, prv_cost=my_prv, pump_cost=my_pump)
            ref = 0.0
            for tn, t in wn.tanks():
                ref += nearest(list(my_tank.index), list(my_tank.values), math.pi * (t.diameter / 2) ** 2 * t.max_level)
            for pn, p in wn.pipes():
                ref += nearest(list(my_pipe.index), list(my_pipe.values), p.diameter) * p.length
            for pn, p in wn.head_pumps():
                A, B, C = p.get_head_curve_coefficients()
                q = (A / (B * (C + 1))) ** (1.0 / C)
                ref += nearest(list(my_pump.index), list(my_pump.values), 9.81 * 1000 * q * (A - B * q ** C) / eff)
            for pn, p in wn.power_pumps():
                ref += nearest(list(my_pump.index), list(my_pump.values), p.power / eff)
            for vn, v in wn.valves():
                if v.valve_type == "PRV":
                    ref += nearest(list(my_prv.index), list(my_prv.values), v.diameter)
            evals += 1
            if not (abs(cost - ref) <= 1e-6 * max(1, abs(ref))):
                failures.append(dict(net=rel, variant=variant, metric="annual_network_cost with the caller's tables and two PRVs", got=float(cost), expected=float(ref)))
    return dict(evaluations=evals, distinct_nontrivial=len(distinct), failures=failures[:10], samples=samples, exhaustive=False,
                scope="Net1, Net3, Anytown with original and randomly re-sized pipes: annual_network_cost / annual_ghg_emissions vs the documented lookup tables (nearest entry) and the documented maximum-pump-power formula (efficiency as passed by the code: options.energy.global_efficiency); again with the caller's own tables, each on its own grid, and two PRVs added")


BOUNDED = [Bounded("C20.cost_metrics", P, _cost_metrics, kind="example networks vs documented tables"), Bounded("C20.table_metrics", P, _tables, kind="random tables vs documented formulas"),
           Bounded("C20.network_metrics", P, _network_metrics, kind="example networks vs documented formulas")]
