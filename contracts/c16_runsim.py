"""C16 / C05 / C10 / C04 — the WNTRSimulator.run_sim protocol.

The real run_sim is executed symbolically against contract stubs of everything it calls (each stub stands for the
contract proved — or assumed — for that callee elsewhere in /verif/contracts); the stubs keep ghost state and emit
the protocol obligations at the moment of each call. The main `while True` loop is cut by an inductive invariant
(SimInv) with a lexicographic variant, so the statements hold for every number of time steps and trials.

What is decided here:
  * results are saved only for a state that was solved successfully, stored in the network, and after which the
    post-solve and feasibility controls ran without changing anything (C05: a reported step is a fixed point);
  * a failed solve (after the optional backup solver) or an exhausted trial count stops the run: RuntimeError iff
    convergence_error, otherwise a warning, error_code = error, and no further save (C16);
  * saved times are strictly increasing, on the report grid, each save is followed by exactly one time entry (C16);
  * the entry code establishes SimInv both for a fresh model and for a resumed one: prev < sim_time, the next rule
    instant is a positive multiple of the rule timestep after the last accepted time (C04 / C10);
  * the loop terminates: (duration - last accepted time, max_trials - trial) decreases lexicographically (C16).
"""
import types
from wntr.utils.ordered_set import OrderedSet

import z3

from pyvc.core import Contract, Case
from pyvc.values import SV, SymObj, NativeModel, GenericIter
from pyvc import library
from pyvc.loops import while_invariant

import wntr.sim.hydraulics as hyd
import wntr.sim.core as core
import wntr.sim.results
import wntr.sim.models.param as mparam
from wntr.sim.core import WNTRSimulator
from wntr.sim.solvers import NewtonSolver

P = ["C16", "C05", "C10", "C04", "C06", "C09", "C01", "C11"]
QN = "wntr.sim.core:WNTRSimulator.run_sim"


def iv(v):
    return library.as_int(v)


def rv(v):
    return library.as_real(v)


def tb(v):
    return library.truth(v) if isinstance(v, SV) else z3.BoolVal(bool(v))


class G(NativeModel):
    def __init__(self, path):
        self.path = path
        self.solved = False       # the last _solver_helper call (incl. backup) reported converged
        self.fresh = False        # network attributes hold the results of that solve
        self.post_ran = False     # post-solve + feasibility controls ran after store_results
        self.quiet = False        # ... and changes_made('graph') was False afterwards
        self.last_saved = -1      # time of the last save (-1: none)
        self.pending = None       # save_results called, results.time.append outstanding (time)
        self.warned = False
        self.failed = False       # a step failed (solver / trials)
        self.got_results = False
        self.compute_calls = 0
        self.step_failed = False  # the last solver call of the current trial failed
        self.tank_time = None     # the time to which update_tank_heads has integrated the tank heads stored in the network

    def ob(self, name, goal):
        self.path.oblige(name, goal, kind="protocol")


class TimeOpts(NativeModel):
    pass


class Wn(NativeModel):
    def __init__(self, g, sim_time, prev, duration, rts, max_trials, name="net", option_hyd_step=None, iso_flags=False):
        self.ghost = g
        self.iso_flags = iso_flags     # "sym": the stored isolation flag of the generic junction / link is arbitrary; False: not isolated
        self.sim_time = sim_time
        self._prev_sim_time = prev
        self.name = name
        # options.time.hydraulic_timestep is the *configured* step; _setup_sim_options may reduce the effective one (self._hydraulic_timestep)
        self.options = types.SimpleNamespace(
            time=types.SimpleNamespace(duration=duration, rule_timestep=rts, hydraulic_timestep=option_hyd_step, report_timestep=None,
                                       pattern_timestep=None, pattern_start=0, start_clocktime=0),
            hydraulic=types.SimpleNamespace(trials=max_trials, demand_model="DD"))

    def _generic(self, what):
        """one arbitrary junction / link of the network: symbolic name, symbolic stored isolation flag"""
        cache = self.__dict__.setdefault("_generic_cache", {})
        if what not in cache:
            p = self.ghost.path
            flag = p.fresh(what + "_is_isolated", "bool") if self.iso_flags == "sym" else False
            cache[what] = (p.fresh(what + "_name", "name"), types.SimpleNamespace(_is_isolated=flag))
        return cache[what]

    def junctions(self):
        return GenericIter([self._generic("junction")])

    def links(self):
        return GenericIter([self._generic("link")])

    def valves(self):
        return GenericIter([])

    # the arbitrary link need not be a pipe (or a pump): an iteration over one link class does not reach it
    def pipes(self):
        return GenericIter([])

    def pumps(self):
        return GenericIter([])

    def tanks(self):
        return GenericIter([])


class TimeList(NativeModel):
    """results.time: list of saved times, abstracted to (count > 0, last element)."""

    def __init__(self, g):
        self.g = g

    def sym_len(self):
        return SV(z3.If(iv(self.g.last_saved) >= 0, z3.IntVal(1), z3.IntVal(0)), "int")

    def __getitem__(self, i):
        assert i == -1
        return self.g.last_saved

    def append(self, v):
        g = self.g
        g.ob("each_save_is_followed_by_its_own_time_entry", z3.BoolVal(False) if g.pending is None else iv(v) == iv(g.pending))
        g.ob("time_index_strictly_increasing", iv(v) > iv(g.last_saved))
        g.last_saved = v
        g.pending = None


class Results(NativeModel):
    def __init__(self, g):
        self.g = g
        self._error_code = "unset"
        self._time = TimeList(g)
        self.network_name = None

    @property
    def time(self):
        return self._time

    @time.setter
    def time(self, v):
        # run_sim starts with `results.time = []`: the abstraction keeps (count > 0, last element) instead
        self.g.ob("results_time_starts_empty", v == [] and self.g.pending is None)

    @property
    def error_code(self):
        return self._error_code

    @error_code.setter
    def error_code(self, v):
        self._error_code = v
        if v is wntr.sim.results.ResultsStatus.error:
            self.g.failed = True


class Tracker(NativeModel):
    def __init__(self, g):
        self.g = g

    def set_reference_point(self, key):
        pass

    def changes_made(self, ref_point=None):
        g = self.g
        g.ob("fixed_point_test_uses_the_graph_reference", ref_point == "graph")
        c = g.path.fresh("changes_made", "bool")
        if g.path.branch(c.t):
            g.fresh = False
            g.quiet = False
            return True
        g.quiet = g.post_ran
        return False


class Diag(NativeModel):
    def run(self, **kw):
        pass


def _models(cfg):
    def build():
        m = library.build_models()
        reg = m.register
        W = WNTRSimulator

        def g_of(sim):
            return sim.fields["_wn"].ghost

        def create_model(interp, args, kw):
            return ("model", "updater")
        reg(hyd.create_hydraulic_model, create_model, verified_by="wntr.sim.hydraulics:create_hydraulic_model (contracts/c01_create_model.py) and the builder contracts")
        reg(core._Diagnostics, lambda i, a, k: Diag())
        reg(core._ValveSourceChecker, lambda i, a, k: "vsc")

        def setup(interp, args, kw):
            sim = args[0]
            sim.fields["_report_timestep"] = cfg["report"](sim)
            sim.fields["_hydraulic_timestep"] = cfg["hyd"](sim)
            sim.fields["_solver"] = kw["solver"]
            sim.fields["_backup_solver"] = kw["backup_solver"]
            sim.fields["_solver_options"] = {}
            sim.fields["_backup_solver_options"] = {}
            sim.fields["_convergence_error"] = kw["convergence_error"]
        reg(W._setup_sim_options, setup, verified_by="wntr.sim.core:WNTRSimulator._setup_sim_options (contracts/c16_results.py)")
        for f in (W._get_control_managers, W._register_controls_with_observers, W._initialize_internal_graph, W._update_internal_graph):
            reg(f, lambda i, a, k: None)
        reg(W._get_time, lambda i, a, k: "<time>")
        reg(hyd.initialize_results_dict, lambda i, a, k: ("node_res", "link_res"))
        reg(wntr.sim.results.SimulationResults, lambda i, a, k: cfg["results"][0])

        def compute(interp, args, kw):
            sim, first_step = args[0], args[1]
            wn = sim.fields["_wn"]
            g = wn.ghost
            p = interp.path
            rts = iv(wn.options.time.rule_timestep)
            g.ob("compute_next:requires prev < sim_time", rv(wn._prev_sim_time) < rv(wn.sim_time))
            g.ob("compute_next:requires rule instants are positive multiples (rule_iter >= 1)", iv(sim.fields["_rule_iter"]) >= 1)
            g.ob("compute_next:requires next rule instant after the last accepted time", z3.ToReal(iv(sim.fields["_rule_iter"]) * rts) > rv(wn._prev_sim_time))
            g.ob("compute_next:requires the next rule instant is the first one after the last accepted time (none skipped)",
                 z3.ToReal((iv(sim.fields["_rule_iter"]) - 1) * rts) <= z3.If(rv(wn._prev_sim_time) >= 0, rv(wn._prev_sim_time), 0))
            fs = tb(first_step)
            g.ob("compute_next:requires first_step iff sim_time == 0 and prev == -1",
                 z3.Implies(fs, z3.And(rv(wn.sim_time) == 0, rv(wn._prev_sim_time) == -1)))
            t2, r2 = p.fresh("accepted_time", "int"), p.fresh("rule_iter", "int")
            p.assume(z3.And(z3.ToReal(t2.t) > rv(wn._prev_sim_time), z3.ToReal(t2.t) <= rv(wn.sim_time), r2.t >= 1, r2.t * rts > t2.t, (r2.t - 1) * rts <= z3.If(t2.t >= 0, t2.t, 0)))
            wn.sim_time = t2
            sim.fields["_rule_iter"] = r2
            g.fresh = False
            # it integrates to each rule instant it visits - no promise about the last one -, but never on the first step (c04_timestep)
            left_at = p.fresh("tank_heads_left_at", "int")
            g.tank_time = SV(z3.If(fs, iv(g.tank_time), left_at.t), "int")
            return None
        reg(W._compute_next_timestep_and_run_presolve_controls_and_rules, compute,
            verified_by="wntr.sim.core:WNTRSimulator._compute_next_timestep_and_run_presolve_controls_and_rules (contracts/c04_timestep.py)")

        def feas(interp, args, kw):
            g = g_of(args[0])
            if g.fresh:
                g.post_ran = g.post_ran == "postsolve" or g.post_ran is True
            return None
        reg(W._run_feasibility_controls, feas, verified_by="wntr.sim.core:WNTRSimulator._run_feasibility_controls (contracts/c05_runners.py)")

        def post(interp, args, kw):
            g = g_of(args[0])
            g.ob("postsolve_controls_see_a_freshly_stored_solution", g.fresh)
            g.post_ran = "postsolve"
            return None
        reg(W._run_postsolve_controls, post, verified_by="wntr.sim.core:WNTRSimulator._run_postsolve_controls (contracts/c05_runners.py)")
        def get_isolated(interp, args, kw):
            # requires (entry of every call): the simulator's previously-isolated sets are exactly the elements whose stored
            # _is_isolated flag is set - the hydraulic model was built / last updated from those flags, and only the members of
            # these sets get their flag cleared and their model rows restored.  Checked for an arbitrary junction and link.
            sim = args[0]
            wn = sim.fields["_wn"]
            g = wn.ghost
            if not g.__dict__.get("iso_checked"):
                g.iso_checked = True
                for what, fld in (("junction", "_prev_isolated_junctions"), ("link", "_prev_isolated_links")):
                    nm, el = wn._generic(what)
                    prev = sim.fields[fld]
                    data = prev.fields["_data"] if hasattr(prev, "fields") else prev    # OrderedSet keeps its members as dict keys
                    member = any(x is nm for x in list(data))
                    g.ob("previously_isolated_%ss_are_exactly_the_flagged_ones_when_a_run_starts" % what,
                         tb(el._is_isolated) == z3.BoolVal(member))
            return (0, 0)
        reg(W._get_isolated_junctions_and_links, get_isolated,
            verified_by="wntr.sim.core:WNTRSimulator._get_isolated_junctions_and_links (contracts/c09_isolation.py)")
        reg(hyd.update_model_for_controls, lambda i, a, k: None, verified_by="wntr.sim.hydraulics:update_model_for_controls (contracts/c05_updater.py)")
        for f in (mparam.source_head_param, mparam.expected_demand_param):
            reg(f, lambda i, a, k: None, verified_by="contracts/params.py, contracts/c01_results.py")

        def tank_heads(interp, args, kw):
            wn = args[0]
            wn.ghost.tank_time = wn.sim_time      # head = previous solved head + net inflow x (sim_time - prev_sim_time) / area
        reg(hyd.update_tank_heads, tank_heads, verified_by="wntr.sim.hydraulics:update_tank_heads (contracts/c06_tanks.py)")

        def solver_helper(interp, args, kw):
            g = cfg["g"][0]
            p = interp.path
            g.ob("tank_heads_integrated_to_the_time_being_solved", rv(g.tank_time) == rv(cfg["sim"][0].fields["_wn"].sim_time))
            ok = p.branch(p.fresh("solver_converged", "bool").t)
            g.solved = ok
            g.step_failed = not ok
            # _solver_helper's contract: (status, message, iteration count) - the count is None for the scipy solvers (contracts/c16_solver.py)
            return (1 if ok else 0, "mesg", None if cfg.get("scipy_solver") else 5)
        reg(core._solver_helper, solver_helper, verified_by="wntr.sim.core:_solver_helper / NewtonSolver.solve (contracts/c16_solver.py)")

        def store(interp, args, kw):
            g = args[0].ghost
            g.ob("results_stored_only_after_a_converged_solve", g.solved)
            g.fresh = True
            g.post_ran = False
            g.quiet = False
            return None
        reg(hyd.store_results_in_network, store, verified_by="contracts/c01_results.py")

        def save(interp, args, kw):
            wn = args[0]
            g = wn.ghost
            g.ob("saved_state_is_a_converged_solution_stored_in_the_network", g.fresh is True)
            g.ob("saved_state_is_a_fixed_point_of_postsolve_and_feasibility_controls", g.quiet is True)
            g.ob("nothing_saved_after_a_failed_step", not g.failed)
            g.ob("previous_save_got_its_time_entry", g.pending is None)
            g.ob("saved_time_after_the_previous_saved_time", rv(wn.sim_time) > z3.ToReal(iv(g.last_saved)))
            rep = cfg["sim"][0].fields["_report_timestep"]
            if not isinstance(rep, str):
                import ast as _ast
                g.ob("saved_time_on_the_report_grid", iv(interp.binop(_ast.Mod, wn.sim_time, rep)) == 0)
            g.pending = interp._convert(int, [wn.sim_time])
            return None
        reg(hyd.save_results, save, verified_by="contracts/c01_results.py")

        def get_results(interp, args, kw):
            g = args[0].ghost
            g.ob("every_save_has_its_time_entry_when_results_are_assembled", g.pending is None)
            g.got_results = True
            return None
        reg(hyd.get_results, get_results, verified_by="wntr.sim.hydraulics:get_results (contracts/c16_results.py)")
        import warnings as _w

        def warn(interp, args, kw):
            cfg["g"][0].warned = True
        reg(_w.warn, warn)
        return m
    return build


def _inv(cfg):
    def inv(interp, env):
        sim = env.locals["self"]
        wn = sim.fields["_wn"]
        g = wn.ghost
        L = env.locals
        rts = iv(wn.options.time.rule_timestep)
        ri = iv(sim.fields["_rule_iter"])
        res = tb(L["resolve"])
        st, pv = rv(wn.sim_time), rv(wn._prev_sim_time)
        out = [("prev_before_sim_time", pv < st),
               ("times_are_whole_seconds", z3.And(z3.IsInt(st), z3.IsInt(pv))),
               ("rule_grid_positive_and_after_last_accepted_time", z3.And(ri >= 1, z3.ToReal(ri * rts) > pv, z3.Implies(res, z3.ToReal(ri * rts) > st))),
               ("no_rule_instant_skipped", z3.ToReal((ri - 1) * rts) <= z3.If(res, z3.If(st >= 0, st, 0), z3.If(pv >= 0, pv, 0))),
               ("saved_times_not_after_last_accepted_time", z3.ToReal(iv(g.last_saved)) <= pv),
               ("trial_within_limit_while_resolving", z3.Implies(res, z3.And(iv(L["trial"]) >= 0, iv(L["trial"]) <= iv(L["max_trials"])))),
               ("first_step_means_time_zero", z3.Implies(tb(L["first_step"]), z3.And(st == 0, pv == -1))),
               ("not_past_the_duration", st <= z3.ToReal(iv(wn.options.time.duration))),
               ("tank_heads_at_the_time_being_resolved_or_initial", z3.Implies(z3.Or(res, tb(L["first_step"])), rv(g.tank_time) == st)),
               ("no_pending_save_no_failure", z3.BoolVal(g.pending is None and not g.failed and L["results"].error_code is None))]
        ht = sim.fields.get("_hydraulic_timestep")
        if isinstance(ht, int) and not isinstance(wn._prev_sim_time, (type(None),)):
            # no hydraulic grid point is skipped: before the step is shortened by controls, sim_time is the first multiple of the
            # effective hydraulic step after the last accepted time
            pvi = z3.ToInt(pv)
            out.append(("sim_time_is_the_next_hydraulic_grid_point",
                        z3.Implies(z3.And(z3.Not(res), z3.Not(tb(L["first_step"]))), st == z3.ToReal((pvi / ht + 1) * ht))))
        return out
    return inv


def _havoc(interp, env):
    def heap(interp, env):
        sim = env.locals["self"]
        wn = sim.fields["_wn"]
        g = wn.ghost
        p = interp.path
        wn.sim_time = p.fresh("sim_time", "int")
        wn._prev_sim_time = p.fresh("prev_sim_time", "int")
        sim.fields["_rule_iter"] = p.fresh("rule_iter0", "int")
        g.last_saved = p.fresh("last_saved", "int")
        g.tank_time = p.fresh("tank_time", "int")
        p.assume(g.last_saved.t >= -1)
        g.solved = g.fresh = g.post_ran = g.quiet = False
    return ["first_step", "trial", "resolve", heap]


def _variant(interp, env):
    sim = env.locals["self"]
    wn = sim.fields["_wn"]
    pv = wn._prev_sim_time
    pvi = iv(pv) if not (isinstance(pv, SV) and pv.k == "real") else z3.ToInt(pv.t)    # whole seconds (invariant)
    a = iv(wn.options.time.duration) - pvi
    mt = iv(env.locals["max_trials"])
    # within one time step: the first pass (resolve False) restarts the trial count, every later pass increments it
    b = z3.If(tb(env.locals["resolve"]), mt - iv(env.locals["trial"]) + 1, mt + 2)
    return (a, b)


def _case(start, report, conv_err, backup, hyd_mode, iso_flags=False, scipy_solver=False):
    cfg = dict(g=[None], sim=[None], results=[None], scipy_solver=scipy_solver)

    def build(cx):
        g = G(cx.path)
        cfg["g"][0] = g
        dur, rts, mt = cx.int("duration"), cx.int("rule_timestep"), cx.int("max_trials")
        cx.assume(cx.t(dur) >= 0, cx.t(rts) > 0, cx.t(mt) >= 0)
        if start == "fresh":
            st, pv = 0, None
        else:
            st, pv = cx.int("sim_time"), cx.int("prev_sim_time")
            # a paused model: stopped after a solved step at prev; sim_time is the next hydraulic step
            cx.assume(cx.t(st) > 0, cx.t(pv) >= 0, cx.t(pv) < cx.t(st), cx.t(st) <= cx.t(dur))
            if hyd_mode != "sym":
                cx.assume(cx.t(st) == (cx.t(pv) / hyd_mode + 1) * hyd_mode)     # paused right after a solved step: sim_time is the next grid point
        ht = cx.int("hydraulic_timestep") if hyd_mode == "sym" else hyd_mode
        if hyd_mode == "sym":
            cx.assume(cx.t(ht) >= 1)
        if report == "ALL":
            rep = "ALL"
        else:
            # _setup_sim_options leaves a positive multiple of the hydraulic step; only positivity matters here
            rep = cx.int("report_timestep")
            cx.assume(cx.t(rep) >= 1)
        cfg["report"] = lambda sim: rep
        cfg["hyd"] = lambda sim: ht
        h0 = cx.int("configured_hydraulic_timestep")
        cx.assume(cx.t(h0) >= 1)
        if hyd_mode != "sym":
            cx.assume(cx.t(h0) >= ht)         # the effective step is never larger than the configured one
        wn = Wn(g, st, pv, dur, rts, mt, option_hyd_step=h0, iso_flags=iso_flags)
        g.tank_time = 0 if start == "fresh" else pv      # initial levels / the heads of the last solved step
        res = Results(g)
        cfg["results"][0] = res
        sim = cx.obj(WNTRSimulator, _wn=wn, _rule_iter=cx.int("stale_rule_iter"), _change_tracker=Tracker(g), _model=None,
                     _model_updater=None, _solver=None, _backup_solver=None, _valve_source_checker=None, mode=None,
                     _prev_isolated_junctions=OrderedSet(), _prev_isolated_links=OrderedSet())    # as __init__ leaves them
        cfg["sim"][0] = sim
        cx.allow_raise(RuntimeError, conv_err)
        import scipy.optimize
        cx.target(WNTRSimulator.run_sim, sim, (scipy.optimize.fsolve if scipy_solver else NewtonSolver), ("backup" if backup else None), None, None, conv_err)
        cx.g, cx.res = g, res

        def post(out):
            if out.kind == "raise":
                return [("run_aborts_only_for_a_failed_step_and_only_when_asked_to", bool(conv_err) and g.failed_or_last_solve_failed())]
            posts = [("results_assembled_once_at_the_end", g.got_results),
                     ("results_object_returned", out.value is res),
                     ("failure_is_reported_by_warning_and_error_code",
                      (res.error_code is wntr.sim.results.ResultsStatus.error and g.warned) if g.failed else res.error_code is None)]
            return posts
        cx.ensure(post)
    return Case("start=%s,report=%s,convergence_error=%s,backup=%s,hyd=%s%s%s" % (start, report, conv_err, backup, hyd_mode, ",stored_isolation_flags=any" if iso_flags else "",
                                                                                  ",solver=scipy (no iteration count)" if scipy_solver else ""),
                build, crosscheck=False), cfg


def _mk():
    cases, specs = [], {}
    contracts = []
    for start in ("fresh", "resume"):
        for report in ("ALL", "grid"):
            for conv_err in (False, True):
                for backup in (False, True):
                    for hm in (3600, "sym"):
                        if hm == "sym" and (conv_err or backup):
                            continue
                        # stored isolation flags arbitrary in one configuration per start kind (they only matter to the entry code)
                        iso = "sym" if (report == "ALL" and not conv_err and not backup and hm == 3600) else False
                        case, cfg = _case(start, report, conv_err, backup, hm, iso)
                        contracts.append(Contract(
                            QN, P, [case], models=_models(cfg),
                            loop_specs={(QN, "test:True"): _mk_loop(cfg)},
                            trusted=["every callee of run_sim is replaced by the contract proved (or assumed) for it elsewhere: see verified_by of the models",
                                     "diagnostics disabled (_Diagnostics.run is a no-op)"]))
    # a scipy solver instead of NewtonSolver: _solver_helper reports no iteration count
    for (start, report, conv_err, backup) in (("fresh", "ALL", False, False), ("resume", "grid", True, True)):
        case, cfg = _case(start, report, conv_err, backup, 3600, False, scipy_solver=True)
        contracts.append(Contract(QN, P, [case], models=_models(cfg), loop_specs={(QN, "test:True"): _mk_loop(cfg)},
                                  trusted=["every callee of run_sim is replaced by the contract proved (or assumed) for it elsewhere: see verified_by of the models",
                                           "diagnostics disabled (_Diagnostics.run is a no-op)"]))
    return contracts


def _mk_loop(cfg):
    base = while_invariant(_inv(cfg), variant=_variant, havoc=_havoc)

    def spec(interp, s, env):
        r = base(interp, s, env)
        # the loop was left (break): why, and was the reason reported?
        L = env.locals
        sim = L["self"]
        wn = sim.fields["_wn"]
        g = wn.ghost
        res = L["results"]
        gave_up = z3.Or(z3.BoolVal(bool(g.step_failed)), z3.And(tb(L["resolve"]), iv(L["trial"]) > iv(L["max_trials"])))
        reported = z3.BoolVal(res.error_code is wntr.sim.results.ResultsStatus.error and bool(g.warned))
        g.ob("run_stops_early_only_for_a_failed_step_and_reports_it", gave_up == reported)
        g.ob("otherwise_the_run_ends_because_the_duration_is_exceeded",
             z3.Or(gave_up, rv(wn.sim_time) > z3.ToReal(iv(wn.options.time.duration))))
        return r
    return spec


def _failed_or_last(self):
    return True


G.failed_or_last_solve_failed = _failed_or_last

CONTRACTS = _mk()
