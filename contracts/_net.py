"""Shared vocabulary for builder contracts: symbolic network / aml-model stubs (DESIGN 3.2).

`WN` is the *contract view* of a WaterNetworkModel under RegInv (proved by C14): get_node/get_link return
the registered element, get_links_for_node enumerates in(n)/out(n) without duplicates.
"""
import types

import z3

from pyvc.values import SV, SymMap, SymObj, SymSeq, NativeModel, Leaf, NameSort, real_val, Unsupported, GenericIter
from pyvc.amlmodel import ModelStub, Con
from pyvc.interp import PyRaise

import wntr
from wntr.network import LinkStatus
from wntr.network.elements import Junction, Tank, Reservoir, Pipe, HeadPump, PowerPump, PRValve, PSValve, FCValve, TCValve

R = z3.RealSort()
B = z3.BoolSort()


def fn(name, *sorts):
    return z3.Function(name, *sorts)


# uninterpreted model unknowns / parameters, indexed by element name
FLOW = fn("flow", NameSort, R)
HEAD = fn("head", NameSort, R)
SRC_HEAD = fn("source_head", NameSort, R)
DEMAND = fn("demand", NameSort, R)
EXP_DEMAND = fn("expected_demand", NameSort, R)
LEAK_RATE = fn("leak_rate", NameSort, R)
ELEV = fn("elevation", NameSort, R)
IS_J = fn("is_junction", NameSort, B)
IS_T = fn("is_tank", NameSort, B)
IS_R = fn("is_reservoir", NameSort, B)
IS_L = fn("is_link", NameSort, B)


def pmap(name, dom, label=None, leaf=False):
    """Map over names with domain predicate dom(k) and content f(k) for an uninterpreted f."""
    f = fn(name, NameSort, R)

    def get(k):
        v = SV(f(k.t), "real")
        return Leaf(v) if leaf else v
    return SymMap(lambda k: dom(k.t), get, label=label or name)


class Updater(NativeModel):
    def __init__(self):
        self.calls = []

    def add(self, obj, attr, func):
        self.calls.append((obj, attr, func))


class WN(NativeModel):
    """Contract view of the network: a finite table of symbolic elements keyed by symbolic names."""

    def __init__(self, options=None):
        self.nodes = []  # (name SV, obj)
        self.links = []
        self.options = options
        self.inlet = {}
        self.outlet = {}
        self.sim_time = 0
        self.controls_added = []
        self.controls_discarded = []

    generic_link = None   # callable(name SV) -> SymObj for names the case did not declare (heap-as-functions view)
    generic_node = None

    def _find(self, table, name):
        for nm, o in table:
            if isinstance(name, SV) and isinstance(nm, SV) and nm.t.eq(name.t):
                return o
            if not isinstance(name, SV) and not isinstance(nm, SV) and nm == name:
                return o
        gen = self.generic_link if table is self.links else self.generic_node
        if gen is not None and isinstance(name, SV):
            return gen(name)
        raise Unsupported("WN stub: lookup of a name that the case did not declare: %r" % (name,))

    def _of(self, table, *classes):
        return [(nm, o) for nm, o in table if issubclass(getattr(o, "cls", type(o)), classes)]

    def junctions(self):
        return self._of(self.nodes, Junction)

    def tanks(self):
        return self._of(self.nodes, Tank)

    def reservoirs(self):
        return self._of(self.nodes, Reservoir)

    def pipes(self):
        return self._of(self.links, Pipe)

    def head_pumps(self):
        return self._of(self.links, HeadPump)

    def power_pumps(self):
        return self._of(self.links, PowerPump)

    def valves(self):
        return self._of(self.links, PRValve, PSValve, FCValve, TCValve)

    def all_links(self):
        return list(self.links)

    def all_nodes(self):
        return list(self.nodes)

    def get_node(self, name):
        return self._find(self.nodes, name)

    def add_control(self, name, control):
        self.controls_added.append((name, control))

    def _discard_control(self, name):
        self.controls_discarded.append(name)

    def get_link(self, name):
        return self._find(self.links, name)

    # `links`/`nodes` are data attributes of the stub; the real generators wn.links()/wn.nodes() are reached
    # through these aliases by the contracts that need them (see contracts/c01_results.py)
    def get_links_for_node(self, name, flag="ALL"):
        key = name.t.get_id() if isinstance(name, SV) else name
        flag = flag.upper()
        if flag == "INLET":
            return self.inlet[key]
        if flag == "OUTLET":
            return self.outlet[key]
        raise Unsupported("WN stub: get_links_for_node flag %r" % flag)


def mk_node(cx, cls, name, **fields):
    base = dict(_name=name, _is_isolated=False, _leak_status=False, _leak=False, _leak_area=0.0, _leak_discharge_coeff=0.0,
                _head=None, _demand=None, _leak_demand=None, _pressure=None)
    if cls is Junction:
        base.update(_elevation=0.0, _required_pressure=None, _minimum_pressure=None, _pressure_exponent=None)
    base.update(fields)
    if getattr(cls, "__name__", "") == "Tank" and getattr(cx, "mode", "symbolic") == "symbolic":
        # the other attributes Tank.__init__ sets: arbitrary values of their own (code that starts to read one of them runs symbolically and fails
        # its postcondition if the value matters, instead of stopping at a field the stub does not carry)
        tag = str(name.t) if hasattr(name, "t") else str(name)
        for a in ("_elevation", "_min_level", "_max_level", "_init_level", "_min_vol", "_diameter"):
            if a not in base:
                base[a] = cx.path.fresh("tank%s_%s" % (a, tag), "real")
        if "_overflow" not in base:
            base["_overflow"] = cx.path.fresh("tank_overflow_%s" % tag, "bool")
    return cx.obj(cls, **base)


def mk_link(cx, cls, name, start, end, **fields):
    base = dict(_link_name=name, _start_node=start, _end_node=end, _user_status=LinkStatus.Open,
                _internal_status=LinkStatus.Active, _is_isolated=False, _flow=None, _setting=None)
    # initial (t = 0) values are distinct symbols: a builder that reads them instead of the current ones fails its postcondition
    base["_initial_setting"] = cx.real("initial_setting")
    base["_initial_status"] = LinkStatus.Open
    if getattr(cls, "__name__", "") == "Pipe":
        base["_check_valve"] = False          # as Pipe.__init__ sets it
    base.update(fields)
    return cx.obj(cls, **base)


def options(cx, **hyd):
    h = dict(pressure_exponent=0.5, minimum_pressure=0.0, required_pressure=0.07, demand_multiplier=1.0)
    h.update(hyd)
    # the other numeric options of the same group are arbitrary numbers of their own (code that reads the wrong one gets a different symbol)
    if getattr(cx, "mode", "symbolic") == "symbolic":
        for other in ("emitter_exponent", "specific_gravity", "viscosity", "accuracy", "headerror", "flowchange", "damplimit"):
            h.setdefault(other, cx.path.fresh("option_" + other, "real"))
    else:
        h.setdefault("emitter_exponent", 0.77)
    return cx.obj(types.SimpleNamespace, hydraulic=cx.obj(types.SimpleNamespace, **h),
                  time=cx.obj(types.SimpleNamespace, pattern_start=0))


def con_term(mapobj, key, interp):
    """[[m.X[key]]] for a ConstraintDict-like SymMap after the builder ran; None if key not in dom."""
    d = interp.map_dom(mapobj, key)
    return d


def written_value(mapobj, key):
    """Last overlay write at exactly `key` (syntactic), or None."""
    for k, v in reversed(mapobj.overlay):
        if isinstance(k, SV) and isinstance(key, SV) and k.t.eq(key.t):
            return v
    return None


class WN2(NativeModel):
    """Contract view of a WaterNetworkModel for functions that iterate over it (wn.links(), wn.tanks(), ...).

    The *independent-iteration rule*: a case declares the element(s) under test; each typed iterator yields the
    declared elements of that type, so a loop body is verified once for an arbitrary element. Elements the case
    did not declare are reached through get_node/get_link as generic objects whose fields are uninterpreted
    functions of the name (heap-as-functions). Assumes RegInv (C14): the iterators enumerate exactly the
    registered elements, get_links_for_node enumerates in(n)/out(n) exactly once.
    """

    def __init__(self, options=None, sim_time=0, prev_sim_time=None, generic_link=None, generic_node=None):
        self._N = []
        self._L = []
        self.options = options
        self.sim_time = sim_time
        self._prev_sim_time = prev_sim_time
        self.inlet = {}
        self.outlet = {}
        self.generic_link = generic_link
        self.generic_node = generic_node

    def declare_node(self, name, obj):
        self._N.append((name, obj))

    def declare_link(self, name, obj):
        self._L.append((name, obj))

    def _find(self, table, name, gen):
        for nm, o in table:
            if isinstance(name, SV) and isinstance(nm, SV) and nm.t.eq(name.t):
                return o
            if not isinstance(name, SV) and not isinstance(nm, SV) and nm == name:
                return o
        if gen is not None:
            return gen(name)
        raise Unsupported("WN2 stub: lookup of a name that the case did not declare: %r" % (name,))

    def get_node(self, name):
        return self._find(self._N, name, self.generic_node)

    def get_link(self, name):
        return self._find(self._L, name, self.generic_link)

    def _of(self, table, *classes):
        return GenericIter([(nm, o) for nm, o in table if issubclass(getattr(o, "cls", type(o)), classes)])

    def nodes(self, typ=None):
        return GenericIter([(nm, o) for nm, o in self._N if typ is None or issubclass(getattr(o, "cls", type(o)), typ)])

    def links(self, typ=None):
        return GenericIter([(nm, o) for nm, o in self._L if typ is None or issubclass(getattr(o, "cls", type(o)), typ)])

    def junctions(self):
        return self._of(self._N, Junction)

    def tanks(self):
        return self._of(self._N, Tank)

    def reservoirs(self):
        return self._of(self._N, Reservoir)

    def pipes(self):
        return self._of(self._L, Pipe)

    def head_pumps(self):
        return self._of(self._L, HeadPump)

    def power_pumps(self):
        return self._of(self._L, PowerPump)

    def pumps(self):
        return self._of(self._L, HeadPump, PowerPump)

    def valves(self):
        return self._of(self._L, PRValve, PSValve, FCValve, TCValve)

    @staticmethod
    def _k(name):
        return name.t.get_id() if isinstance(name, SV) else str(name)

    def set_links_for_node(self, name, inlet=None, outlet=None):
        if inlet is not None:
            self.inlet[self._k(name)] = inlet
        if outlet is not None:
            self.outlet[self._k(name)] = outlet

    def get_links_for_node(self, name, flag="ALL"):
        key = self._k(name)
        flag = flag.upper()
        if flag == "INLET":
            return self.inlet[key]
        if flag == "OUTLET":
            return self.outlet[key]
        if flag == "ALL":
            a, b = self.inlet[key], self.outlet[key]
            if isinstance(a, list) and isinstance(b, list):
                return a + [x for x in b if x not in a]
        raise Unsupported("WN2 stub: get_links_for_node flag %r" % flag)


def leaf_pmap(name, dom, label=None):
    """Map over names whose entries are aml Var/Param boxes (one box per key)."""
    f = fn(name, NameSort, R)
    cache = {}

    def get(k):
        key = k.t.get_id()
        if key not in cache:
            cache[key] = Leaf(SV(f(k.t), "real"))
        return cache[key]
    return SymMap(lambda k: dom(k.t), get, label=label or name)


def list_map(label):
    """dict name -> python list (results lists of save_results): one list per key."""
    cache = {}

    def get(k):
        key = k.t.get_id() if isinstance(k, SV) else k
        if key not in cache:
            cache[key] = []
        return cache[key]
    m = SymMap(lambda k: z3.BoolVal(True), get, label=label)
    m.cache = cache
    return m


def time_options(cx, **over):
    """options.time with every field present (symbolic positive integers unless overridden)."""
    f = {}
    for nm in ("duration", "hydraulic_timestep", "quality_timestep", "rule_timestep", "pattern_timestep", "report_timestep"):
        if nm in over:
            f[nm] = over[nm]
        else:
            v = cx.int("opt_" + nm)
            cx.assume(cx.t(v) > 0)
            f[nm] = v
    for nm in ("pattern_start", "report_start", "start_clocktime"):
        if nm in over:
            f[nm] = over[nm]
        else:
            v = cx.int("opt_" + nm)
            cx.assume(cx.t(v) >= 0)
            f[nm] = v
    f["pattern_interpolation"] = over.get("pattern_interpolation", False)
    f["statistic"] = over.get("statistic", "NONE")
    return cx.obj(types.SimpleNamespace, **f)
