"""C17 — unit conversions: contracts on wntr.epanet.util (sidecar; /repo untouched)."""
import itertools
import math
from fractions import Fraction

import numpy as np
import pandas as pd
import z3

from pyvc.core import Contract, Case
from pyvc.runner import Lemma, Bounded
from pyvc.values import real_val

from wntr.epanet import util as U
from wntr.epanet.util import FlowUnits, HydParam, QualParam, MassUnits

P = ["C17", "C03"]   # C03: BinFile / INP conversions rest on these factors being the physical constants and mutually inverse

# ---- specification constants, written from the property statement (not read from the code) --------
FT = Fraction("0.3048")
GAL = Fraction("3.785411784") / 1000          # m3
IMPGAL = Fraction("4.54609") / 1000
ACREFT = 43560 * FT ** 3
PSI = FT / Fraction("0.4333")                  # m of water
HP = Fraction("745.699872")
INCH = Fraction("0.0254")
FLOW_SPEC = {
    "CFS": FT ** 3, "GPM": GAL / 60, "MGD": 10 ** 6 * GAL / 86400, "IMGD": 10 ** 6 * IMPGAL / 86400,
    "AFD": ACREFT / 86400, "LPS": Fraction(1, 1000), "LPM": Fraction(1, 60000), "MLD": Fraction(1000, 86400),
    "CMH": Fraction(1, 3600), "CMD": Fraction(1, 86400), "SI": Fraction(1),
}
TRAD = {"CFS", "GPM", "MGD", "IMGD", "AFD"}
METRIC = {"LPS", "LPM", "MLD", "CMH", "CMD"}
MASS_SPEC = {"mg": Fraction(1, 10 ** 6), "ug": Fraction(1, 10 ** 9), "g": Fraction(1, 1000), "kg": Fraction(1)}


def hyd_spec(param, fu, dw):
    """(factor as float, relative tolerance)."""
    t, me = fu.name in TRAD, fu.name in METRIC
    n = param.name
    tol = 1e-8
    if n in ("Demand", "Flow"):
        c = float(FLOW_SPEC[fu.name])
    elif n == "EmitterCoeff":
        c = float(FLOW_SPEC[fu.name]) * (math.sqrt(1 / float(PSI)) if t else 1.0)
    elif n == "PipeDiameter":
        c = float(INCH) if t else (0.001 if me else 1.0)
    elif n == "RoughnessCoeff":
        c = (0.001 * float(FT) if t else (0.001 if me else 1.0)) if dw else 1.0
    elif n in ("TankDiameter", "Elevation", "HydraulicHead", "Length", "Velocity"):
        c = float(FT) if t else 1.0
    elif n == "HeadLoss":
        c = 1 / 1000.0
    elif n == "Energy":
        c = 3600000.0
    elif n == "Power":
        c = float(HP) if t else (1000.0 if me else 1.0)
    elif n == "Pressure":
        c = float(PSI) if t else 1.0
    elif n == "Volume":
        c = float(FT ** 3) if t else 1.0
    else:
        raise KeyError(n)
    return c, tol


def qual_spec(param, fu, mu, order):
    t = fu.name in TRAD
    mf = float(MASS_SPEC[mu.name])
    n = param.name
    tol = 1e-8
    if n in ("Concentration", "Quality", "LinkQuality"):
        c = mf / 0.001
    elif n == "ReactionRate":
        c = mf / 0.001 / 86400
    elif n == "SourceMassInject":
        c = mf / 60.0
    elif n == "BulkReactionCoeff":
        c = 1 / 86400.0 if order == 1 else 1.0
    elif n == "WallReactionCoeff":
        if order == 0:
            c = mf * (float(FT ** 2) if t else 1.0) / 86400
            tol = 1e-5  # EPANET/WNTR use ft2 = 0.092903 m2
        elif order == 1:
            c = (float(FT) if t else 1.0) / 86400
        else:
            c = 1.0
    elif n == "WaterAge":
        c = 3600.0
    else:
        raise KeyError(n)
    return c, tol


def _native_k(fn, *a):
    return float(fn(*a))


def _lin_post(cx, x, want, tol, native_k):
    """result = K*x exactly, with K := the symbolic result at x = 1 (exact rational), and K within tol of the
    physical constant `want` written from the property statement."""
    def post(out):
        if not out.returned:
            return []
        if cx.mode == "symbolic":
            r = cx.t(out.value)
            k = z3.simplify(z3.substitute(r, (x.t, z3.RealVal(1))))
            w = real_val(want)
            return [("linear_homogeneous", r == k * x.t),
                    ("physical_constant", z3.And(k - w <= real_val(tol) * w, w - k <= real_val(tol) * w))]
        k = native_k()
        return [("linear_homogeneous", cx.eq(out.value, k * x)),
                ("physical_constant", bool(abs(k - want) <= tol * abs(want)))]
    return post


def _hyd_case(direction, param, fu, dw):
    fn = HydParam._to_si if direction == "to" else HydParam._from_si

    def build(cx):
        x = cx.real("x")
        cx.target(fn, param, fu, x, dw)
        c, tol = hyd_spec(param, fu, dw)
        want = c if direction == "to" else 1.0 / c
        cx.ensure(_lin_post(cx, x, want, tol, lambda: _native_k(fn, param, fu, 1.0, dw)))
    return Case("%s:%s:%s:dw=%s" % (direction, param.name, fu.name, dw), build)


def _qual_case(direction, param, fu, mu, order):
    fn = QualParam._to_si if direction == "to" else QualParam._from_si

    def build(cx):
        x = cx.real("x")
        cx.target(fn, param, fu, x, mu, order)
        c, tol = qual_spec(param, fu, mu, order)
        want = c if direction == "to" else 1.0 / c
        cx.ensure(_lin_post(cx, x, want, tol, lambda: _native_k(fn, param, fu, 1.0, mu, order)))
    return Case("%s:%s:%s:%s:order=%s" % (direction, param.name, fu.name, mu.name, order), build)


# harness text (not repository code): the composition whose identity is the inverse lemma
def _roundtrip_hyd(param, fu, x, dw):
    return param._from_si(fu, param._to_si(fu, x, dw), dw)


def _roundtrip_hyd_rev(param, fu, x, dw):
    return param._to_si(fu, param._from_si(fu, x, dw), dw)


def _roundtrip_qual(param, fu, x, mu, order):
    return param._from_si(fu, param._to_si(fu, x, mu, order), mu, order)


def _roundtrip_qual_rev(param, fu, x, mu, order):
    return param._to_si(fu, param._from_si(fu, x, mu, order), mu, order)


def _rt_case(name, driver, *cargs):
    def build(cx):
        x = cx.real("x")
        a = list(cargs)
        a.insert(2, x)
        cx.target(driver, *a)

        def post(out):
            if not out.returned:
                return []
            return [("inverse", cx.eq(cx.t(out.value), cx.t(x)))]
        cx.ensure(post)
    return Case(name, build)


def _dispatch_case(fn, direction, param, kind):
    def build(cx):
        x = cx.real("x")
        fu = FlowUnits.GPM
        cx.target(fn, fu, x, param, MassUnits.ug, None, True, 1)
        if kind == "bad":
            cx.allow_raise(RuntimeError)

        if kind == "bad":
            cx.ensure(lambda out: [("raises_for_non_param", out.kind == "raise")])
        else:
            if kind == "hyd":
                ref = (param._to_si if direction == "to" else param._from_si)(fu, 1.0, True)
            else:
                ref = (param._to_si if direction == "to" else param._from_si)(fu, 1.0, MassUnits.ug, 1)
            inner = _lin_post(cx, x, float(ref), 1e-12, lambda: float(ref))
            cx.ensure(lambda out: [("dispatch_passes_flags:" + n, g) for n, g in inner(out)])
    return Case("%s:dispatch:%s" % (direction, getattr(param, "name", repr(param))), build)


def _cases():
    hyd, qual, rt, disp = [], [], [], []
    for param in HydParam:
        for fu in FlowUnits:
            for dw in ((False, True) if param is HydParam.RoughnessCoeff else (False,)):
                hyd.append(_hyd_case("to", param, fu, dw))
                hyd.append(_hyd_case("from", param, fu, dw))
                rt.append(_rt_case("rt:%s:%s:dw=%s" % (param.name, fu.name, dw), _roundtrip_hyd, param, fu, dw))
                rt.append(_rt_case("rt_rev:%s:%s:dw=%s" % (param.name, fu.name, dw), _roundtrip_hyd_rev, param, fu, dw))
    for param in QualParam:
        for fu in FlowUnits:
            mus = list(MassUnits) if param.name not in ("BulkReactionCoeff", "WaterAge") else [MassUnits.mg]
            orders = (0, 1, 2) if "ReactionCoeff" in param.name else (0,)
            for mu in mus:
                for order in orders:
                    qual.append(_qual_case("to", param, fu, mu, order))
                    qual.append(_qual_case("from", param, fu, mu, order))
                    rt.append(_rt_case("rtq:%s:%s:%s:%s" % (param.name, fu.name, mu.name, order), _roundtrip_qual, param, fu, mu, order))
                    rt.append(_rt_case("rtq_rev:%s:%s:%s:%s" % (param.name, fu.name, mu.name, order), _roundtrip_qual_rev, param, fu, mu, order))
    for fn, d in ((U.to_si, "to"), (U.from_si, "from")):
        disp.append(_dispatch_case(fn, d, HydParam.RoughnessCoeff, "hyd"))
        disp.append(_dispatch_case(fn, d, QualParam.WallReactionCoeff, "qual"))
        disp.append(_dispatch_case(fn, d, "Pressure", "bad"))
    return hyd, qual, rt, disp


_hyd, _qual, _rt, _disp = _cases()


def _group(cases, n):
    """Group many tiny cases into one task each (process start dominates otherwise)."""
    return cases


CONTRACTS = [
    Contract("wntr.epanet.util:HydParam._to_si/_from_si", P, _hyd, interpret_always=(HydParam._to_si, HydParam._from_si)),
    Contract("wntr.epanet.util:QualParam._to_si/_from_si", P, _qual, interpret_always=(QualParam._to_si, QualParam._from_si)),
    Contract("wntr.epanet.util:roundtrip(from_si o to_si, to_si o from_si)", P, _rt),
    Contract("wntr.epanet.util:to_si/from_si", P, _disp, interpret_always=(U.to_si, U.from_si)),
]


# ---- lemma: linearity follows from homogeneity (r = k x) -----------------------------------------
def _lin():
    k, a, b, x, y = z3.Reals("k a b x y")
    f = z3.Function("f", z3.RealSort(), z3.RealSort())
    hyp = [f(x) == k * x, f(y) == k * y, f(a * x + b * y) == k * (a * x + b * y)]
    return [("to_si(a x + b y) = a to_si(x) + b to_si(y)", hyp, f(a * x + b * y) == a * f(x) + b * f(y))]


LEMMAS = [Lemma("C17.linearity", P, _lin, uses=["*#linear_homogeneous"],
                note="instantiates the linear_homogeneous ensures at x, y, a x + b y")]


# ---- bounded: container types ---------------------------------------------------------------------
def _containers(tier, seed):
    import random
    rng = random.Random(seed)
    evals = 0
    failures = []
    distinct = set()
    samples = []
    vals = [0.0, 1.0, -2.5, 1234.5]
    combos = []
    for param in HydParam:
        for fu in FlowUnits:
            combos.append((param, fu, dict(darcy_weisbach=True)))
    for param in QualParam:
        for fu in (FlowUnits.GPM, FlowUnits.LPS, FlowUnits.SI, FlowUnits.AFD):
            for mu in MassUnits:
                for order in (0, 1):
                    combos.append((param, fu, dict(mass_units=mu, reaction_order=order)))
    for (param, fu, kw) in combos:
        for fn_name in ("to_si", "from_si"):
            fn = getattr(U, fn_name)
            scalars = [fn(fu, v, param, **kw) for v in vals]
            conts = {
                "list": list(vals), "ndarray": np.array(vals), "dict": dict(zip("abcd", vals)),
            }
            if fn_name == "to_si" and isinstance(param, HydParam):
                conts["dataframe"] = pd.DataFrame([vals, vals], columns=list("abcd"), index=[0, 3600])
            for cname, c in conts.items():
                evals += 1
                distinct.add((param.name, fu.name, fn_name, cname, tuple(sorted((k, str(v)) for k, v in kw.items()))))
                try:
                    r = fn(fu, c, param, **kw)
                    ok = True
                    if cname == "list":
                        ok = isinstance(r, list) and np.allclose(r, scalars, rtol=1e-12, atol=0)
                    elif cname == "ndarray":
                        ok = isinstance(r, np.ndarray) and np.allclose(r, scalars, rtol=1e-12, atol=0)
                    elif cname == "dict":
                        ok = isinstance(r, dict) and list(r.keys()) == list("abcd") and np.allclose(list(r.values()), scalars, rtol=1e-12, atol=0)
                    elif cname == "dataframe":
                        ok = isinstance(r, pd.DataFrame) and list(r.columns) == list("abcd") and list(r.index) == [0, 3600] \
                            and np.allclose(r.values, [scalars, scalars], rtol=1e-12, atol=0)
                    if not ok:
                        failures.append(dict(call="%s(%s, <%s>, %s, %s)" % (fn_name, fu.name, cname, param.name, kw), got=repr(r)[:200]))
                except Exception as e:
                    failures.append(dict(call="%s(%s, <%s>, %s, %s)" % (fn_name, fu.name, cname, param.name, kw), raised=repr(e)[:200]))
                if len(samples) < 3:
                    samples.append("%s(%s, %s %s, %s)" % (fn_name, fu.name, cname, vals, param.name))
    return dict(evaluations=evals, distinct_nontrivial=len(distinct), failures=failures[:20], samples=samples, exhaustive=True,
                scope="all HydParam x 11 flow units, all QualParam x 4 flow units x 4 mass units x order{0,1}; containers list/ndarray/dict(+DataFrame for HydParam to_si) of 4 values vs scalar conversion")


BOUNDED = [Bounded("C17.containers", P, _containers)]
