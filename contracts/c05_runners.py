"""C05 — WNTRSimulator._run_postsolve_controls / _run_feasibility_controls (the callees the run_sim protocol contract stubs).

Executed from the real source against stubs of the ControlChecker (which controls are due: symbolic), the controls
(symbolic priorities; run_control_action logs the call) and the change tracker.  Postcondition: exactly the controls
check() reported are run, each once, in ascending priority (so the highest priority acts last and wins); the change
tracker's reference point is set before the first action and removed after the last - that reference point is what
run_sim's changes_made() decision rests on.  K = 3 controls, priorities and due flags symbolic.
"""
import z3

from pyvc.core import Contract, Case
from pyvc.values import SV, NativeModel
from pyvc import library

from wntr.sim.core import WNTRSimulator

P = ["C05", "C04", "C16"]
K = 3


class Ctl(NativeModel):
    def __init__(self, i, prio, log):
        self.i, self._priority, self.log = i, prio, log

    def run_control_action(self):
        self.log.append(("run", self.i))


class Checker(NativeModel):
    def __init__(self, path, ctls, due, backtracks):
        self.path, self.ctls, self.due, self.backtracks = path, ctls, due, backtracks
        self.calls = 0

    def check(self):
        self.calls += 1
        return [(c, b) for c, d, b in zip(self.ctls, self.due, self.backtracks) if self.path.branch(library.truth(d))]


class Tracker(NativeModel):
    def __init__(self, log):
        self.log = log

    def set_reference_point(self, key):
        self.log.append(("set", key))

    def remove_reference_point(self, key):
        self.log.append(("remove", key))

    def get_changes(self, ref_point=None):
        return []


def _case(which):
    fn = {"postsolve": WNTRSimulator._run_postsolve_controls, "feasibility": WNTRSimulator._run_feasibility_controls}[which]
    field = {"postsolve": "_postsolve_controls", "feasibility": "_feasibility_controls"}[which]

    def build(cx):
        log = []
        prios = [cx.int("priority%d" % i) for i in range(K)]
        due = [cx.bool("due%d" % i) for i in range(K)]
        for p in prios:
            cx.assume(cx.t(p) >= 0, cx.t(p) <= 6)
        ctls = [Ctl(i, prios[i], log) for i in range(K)]
        chk = Checker(cx.path, ctls, due, [0] * K)
        sim = cx.obj(WNTRSimulator, _change_tracker=Tracker(log), **{field: chk})
        cx.target(fn, sim)

        def post(out):
            if not out.returned:
                return []
            runs = [e[1] for e in log if e[0] == "run"]
            want = z3.And(*[library.truth(due[i]) == z3.BoolVal(runs.count(i) == 1) for i in range(K)])
            never_twice = all(runs.count(i) <= 1 for i in range(K))
            ordered = z3.And(*[cx.t(prios[a]) <= cx.t(prios[b]) for a, b in zip(runs[:-1], runs[1:])] or [z3.BoolVal(True)])
            stable = z3.And(*[z3.Implies(cx.t(prios[a]) == cx.t(prios[b]), z3.BoolVal(a < b)) for a, b in zip(runs[:-1], runs[1:])] or [z3.BoolVal(True)])
            framed = len(log) >= 2 and log[0] == ("set", which) and log[-1] == ("remove", which) and all(e[0] == "run" for e in log[1:-1])
            return [("exactly_the_due_controls_run_each_once", z3.And(want, z3.BoolVal(never_twice))),
                    ("actions_run_in_ascending_priority_so_the_highest_priority_acts_last", ordered),
                    ("equal_priorities_keep_registration_order", stable),
                    ("checker_consulted_once", chk.calls == 1),
                    ("reference_point_set_before_the_first_action_and_removed_after_the_last", framed)]
        cx.ensure(post)
    return Case(which, build, crosscheck=False)


CONTRACTS = [
    Contract("wntr.sim.core:WNTRSimulator._run_postsolve_controls", P, [_case("postsolve")],
             note="K = 3 controls; which are due and their priorities are symbolic",
             trusted=["ControlChecker.check returns the due controls with their backtracks in registration order (own contract, c05_conditions.py)",
                      "list.sort is a stable sort (executed exactly on the three-element list)"]),
    Contract("wntr.sim.core:WNTRSimulator._run_feasibility_controls", P, [_case("feasibility")],
             note="K = 3 controls; which are due and their priorities are symbolic; feasibility controls have no backtrack (asserted by the code)",
             trusted=["ControlChecker.check (own contract)", "list.sort is a stable sort"]),
]
