"""C05 — WNTRSimulator._run_postsolve_controls / _run_feasibility_controls (the callees the run_sim protocol contract stubs).

Executed from the real source against stubs of the ControlChecker (which controls are due: symbolic), the controls
(symbolic priorities; run_control_action logs the call) and the change tracker.  Postcondition: exactly the controls
check() reported are run, each once, in ascending priority (so the highest priority acts last and wins); the change
tracker's reference point is set before the first action and removed after the last - that reference point is what
run_sim's changes_made() decision rests on.  K = 3 controls, priorities and due flags symbolic.
"""
import z3

from pyvc.core import Contract, Case
from pyvc.values import SV, NativeModel
from pyvc import library

from wntr.sim.core import WNTRSimulator

P = ["C05", "C04", "C16", "C10", "C11"]
K = 3


class Ctl(NativeModel):
    def __init__(self, i, prio, log):
        self.i, self._priority, self.log = i, prio, log

    def run_control_action(self):
        self.log.append(("run", self.i))


class Checker(NativeModel):
    def __init__(self, path, ctls, due, backtracks):
        self.path, self.ctls, self.due, self.backtracks = path, ctls, due, backtracks
        self.calls = 0

    def check(self):
        self.calls += 1
        return [(c, b) for c, d, b in zip(self.ctls, self.due, self.backtracks) if self.path.branch(library.truth(d))]


class Tracker(NativeModel):
    def __init__(self, log):
        self.log = log

    def set_reference_point(self, key):
        self.log.append(("set", key))

    def remove_reference_point(self, key):
        self.log.append(("remove", key))

    def get_changes(self, ref_point=None):
        return []


def _case(which):
    fn = {"postsolve": WNTRSimulator._run_postsolve_controls, "feasibility": WNTRSimulator._run_feasibility_controls}[which]
    field = {"postsolve": "_postsolve_controls", "feasibility": "_feasibility_controls"}[which]

    def build(cx):
        log = []
        prios = [cx.int("priority%d" % i) for i in range(K)]
        due = [cx.bool("due%d" % i) for i in range(K)]
        for p in prios:
            cx.assume(cx.t(p) >= 0, cx.t(p) <= 6)
        ctls = [Ctl(i, prios[i], log) for i in range(K)]
        chk = Checker(cx.path, ctls, due, [0] * K)
        sim = cx.obj(WNTRSimulator, _change_tracker=Tracker(log), **{field: chk})
        cx.target(fn, sim)

        def post(out):
            if not out.returned:
                return []
            runs = [e[1] for e in log if e[0] == "run"]
            want = z3.And(*[library.truth(due[i]) == z3.BoolVal(runs.count(i) == 1) for i in range(K)])
            never_twice = all(runs.count(i) <= 1 for i in range(K))
            ordered = z3.And(*[cx.t(prios[a]) <= cx.t(prios[b]) for a, b in zip(runs[:-1], runs[1:])] or [z3.BoolVal(True)])
            stable = z3.And(*[z3.Implies(cx.t(prios[a]) == cx.t(prios[b]), z3.BoolVal(a < b)) for a, b in zip(runs[:-1], runs[1:])] or [z3.BoolVal(True)])
            framed = len(log) >= 2 and log[0] == ("set", which) and log[-1] == ("remove", which) and all(e[0] == "run" for e in log[1:-1])
            return [("exactly_the_due_controls_run_each_once", z3.And(want, z3.BoolVal(never_twice))),
                    ("actions_run_in_ascending_priority_so_the_highest_priority_acts_last", ordered),
                    ("equal_priorities_keep_registration_order", stable),
                    ("checker_consulted_once", chk.calls == 1),
                    ("reference_point_set_before_the_first_action_and_removed_after_the_last", framed)]
        cx.ensure(post)
    return Case(which, build, crosscheck=False)


CONTRACTS = [
    Contract("wntr.sim.core:WNTRSimulator._run_postsolve_controls", P, [_case("postsolve")],
             note="K = 3 controls; which are due and their priorities are symbolic",
             trusted=["ControlChecker.check returns the due controls with their backtracks in registration order (own contract, c05_conditions.py)",
                      "list.sort is a stable sort (executed exactly on the three-element list)"]),
    Contract("wntr.sim.core:WNTRSimulator._run_feasibility_controls", P, [_case("feasibility")],
             note="K = 3 controls; which are due and their priorities are symbolic; feasibility controls have no backtrack (asserted by the code)",
             trusted=["ControlChecker.check (own contract)", "list.sort is a stable sort"]),
]


# ---------------------------------------------------------------------------- _get_control_managers / _register_controls_with_observers

import types
from wntr.network.controls import _ControlType, ControlChecker, ControlChangeTracker


class C(NativeModel):
    def __init__(self, tag, ctype):
        self.tag, self.epanet_control_type = tag, ctype

    def __repr__(self):
        return self.tag


def _managers_case():
    """which controls each checker holds, and in which order: the user's controls first (registration order of the model), then the simulator's own
    tank-level, check-valve, pump and valve controls - so that at equal priority the simulator's protection acts last (stable priority sort, see above)"""
    def build(cx):
        T = _ControlType
        # registered under names whose alphabetical order is not the registration order
        user = [("zeta", C("user_presolve", T.presolve)), ("alpha", C("user_rule", T.rule)), ("mu", C("user_postsolve", T.postsolve)), ("beta", C("user_pre_and_post", T.pre_and_postsolve))]
        tank = [C("tank_presolve", T.presolve), C("tank_postsolve", T.postsolve)]
        cv = [C("cv_postsolve", T.postsolve)]
        pump = [C("pump_postsolve", T.postsolve), C("pump_feasibility", T.feasibility)]
        valve = [C("valve_postsolve", T.postsolve), C("valve_feasibility", T.feasibility)]
        wn = types.SimpleNamespace(controls=lambda: list(user), control_name_list=[n for n, _ in user], get_control=lambda n: dict(user)[n], num_controls=len(user))
        sim = cx.obj(WNTRSimulator, _wn=wn)
        m = cx.interp.models
        m.register(WNTRSimulator._get_all_tank_controls, lambda i, a, k: list(tank), verified_by="contracts/c06_tanks.py")
        m.register(WNTRSimulator._get_cv_controls, lambda i, a, k: list(cv), verified_by="contracts/c05_valvectl.py, contracts/c02_status.py")
        m.register(WNTRSimulator._get_pump_controls, lambda i, a, k: list(pump), verified_by="contracts/c05_valvectl.py, contracts/c02_status.py")
        m.register(WNTRSimulator._get_valve_controls, lambda i, a, k: list(valve), verified_by="contracts/c05_valvectl.py, contracts/c02_status.py")
        cx.target(WNTRSimulator._get_control_managers, sim)

        def post(out):
            if not out.returned:
                return []
            def held(field):
                mgr = sim.fields[field]
                lst = mgr.fields["_controls"] if hasattr(mgr, "fields") else mgr._controls
                return [c.tag for c in lst]
            return [("presolve_checker_holds_presolve_and_pre_and_postsolve_controls_user_first", held("_presolve_controls") == ["user_presolve", "user_pre_and_post", "tank_presolve"]),
                    ("postsolve_checker_holds_postsolve_and_pre_and_postsolve_controls_user_first_then_tank_cv_pump_valve",
                     held("_postsolve_controls") == ["user_postsolve", "user_pre_and_post", "tank_postsolve", "cv_postsolve", "pump_postsolve", "valve_postsolve"]),
                    ("rule_checker_holds_exactly_the_rules", held("_rules") == ["user_rule"]),
                    ("feasibility_checker_holds_exactly_the_feasibility_controls", held("_feasibility_controls") == ["pump_feasibility", "valve_feasibility"]),
                    ("a_fresh_change_tracker", isinstance(sim.fields["_change_tracker"], ControlChangeTracker) or getattr(sim.fields["_change_tracker"], "cls", None) is ControlChangeTracker)]
        cx.ensure(post)
    return Case("four_user_controls_and_the_simulator_s_own", build, crosscheck=False)


CONTRACTS.append(Contract("wntr.sim.core:WNTRSimulator._get_control_managers", P, [_managers_case()],
                          note="one control of every type from every origin; ControlChecker.register_control is executed from its source",
                          trusted=["the four _get_*_controls builders (own contracts)"]))


# ---------------------------------------------------------------------------- bounded: reported states vs the simple conditional controls, on the real simulator

from pyvc.runner import Bounded


def _consistency(i, n):
    def run(tier, seed):
        import sys, os
        sys.path.insert(0, os.path.dirname(os.path.dirname(os.path.abspath(__file__))))
        from bounded import c05_consistency
        return c05_consistency.run(tier, seed, i, n)
    return run


BOUNDED = [Bounded("C05.conditional_consistency[%d/4]" % i, ["C05"], _consistency(i, 4), kind="real simulator on listed / generated networks (not exhaustive)") for i in range(4)]
