"""Contracts on wntr.sim.models.param builders, constants and cubic_spline (C02, C07, C08)."""
import math
import types

import z3

from pyvc.core import Contract, Case
from pyvc.runner import Lemma
from pyvc.values import GenericIter
from pyvc.values import SV, SymMap, Leaf, NameSort, real_val
from pyvc import amlmodel, library
from pyvc.amlmodel import ModelStub

from wntr.sim.models import param, constants
from wntr.utils.polynomial_interpolation import cubic_spline
from wntr.utils import polynomial_interpolation
from wntr.network.elements import Junction, Tank, Pipe, PowerPump, TCValve, PRValve

from contracts._net import WN, Updater, mk_node, mk_link, options, fn, R, B, IS_J, IS_T
from contracts.builders import updater_registered

MODELS = amlmodel.build_models


def poly(a, b, c, d, x):
    return a * x * x * x + b * x * x + c * x + d


def dpoly(a, b, c, x):
    return 3 * a * x * x + 2 * b * x + c


# ------------------------------------------------------------------------------------------------
# cubic_spline: the four interpolation identities

def _spline_case():
    def build(cx):
        x1, x2, f1, f2, d1, d2 = [cx.real(n) for n in ("x1", "x2", "f1", "f2", "df1", "df2")]
        cx.assume(cx.t(x1) != cx.t(x2)) if cx.mode == "symbolic" else cx.assume(abs(x1 - x2) > 1e-3)
        cx.target(cubic_spline, x1, x2, f1, f2, d1, d2)

        def post(out):
            if not out.returned:
                return []
            a, b, c, d = [cx.t(v) for v in out.value]
            X1, X2 = cx.t(x1), cx.t(x2)
            return [("p(x1)=f1", cx.eq(poly(a, b, c, d, X1), cx.t(f1))), ("p(x2)=f2", cx.eq(poly(a, b, c, d, X2), cx.t(f2))),
                    ("p'(x1)=df1", cx.eq(dpoly(a, b, c, X1), cx.t(d1))), ("p'(x2)=df2", cx.eq(dpoly(a, b, c, X2), cx.t(d2)))]
        cx.ensure(post)

    def sample(rng):
        x1 = rng.uniform(-5, 5)
        x2 = x1 + rng.choice([-1, 1]) * rng.uniform(0.1, 3)
        return dict(x1=x1, x2=x2, f1=rng.uniform(-3, 3), f2=rng.uniform(-3, 3), df1=rng.uniform(-2, 2), df2=rng.uniform(-2, 2))
    c = Case("interpolation_identities", build, sample=sample)
    return c


def spline_contract(interp, args, kw):
    """Callee contract of cubic_spline (verified above): requires x1 != x2; ensures the four identities."""
    x1, x2, f1, f2, d1, d2 = [library.as_real(v) for v in args]
    path = interp.path
    path.oblige("call:cubic_spline.requires x1 != x2", x1 != x2, kind="callsite")
    a, b, c, d = [path.fresh(n, "real") for n in "abcd"]
    for g in (poly(a.t, b.t, c.t, d.t, x1) == f1, poly(a.t, b.t, c.t, d.t, x2) == f2,
              dpoly(a.t, b.t, c.t, x1) == d1, dpoly(a.t, b.t, c.t, x2) == d2):
        path.assume(g)
    return (a, b, c, d)


def models_with_spline():
    m = amlmodel.build_models()
    m.register(cubic_spline, spline_contract, verified_by="wntr.utils.polynomial_interpolation:cubic_spline#interpolation_identities")
    return m


# ------------------------------------------------------------------------------------------------
# generic "value param" builders: m.X[name].value == attribute of the element (per-element frame)

def leafmap(name, dom_true):
    f = fn("old_" + name, NameSort, R)
    cache = {}

    def get(k):
        key = k.t.get_id()
        if key not in cache:   # one box per key: writes to .value persist
            cache[key] = Leaf(SV(f(k.t), "real"))
        return cache[key]
    return SymMap(lambda k: z3.BoolVal(dom_true), get, label=name)


def _value_param_case(builder, field, mk_elem, spec, tracked, existing, extra_fields=()):
    def build(cx):
        n = cx.name("n")
        el = mk_elem(cx, n)
        for nm in ("D", "C"):   # is_valid(): positive diameter / roughness
            if nm in cx.inputs:
                cx.assume(cx.inputs[nm].t > 0)
        wn = WN(options=options(cx, minimum_pressure=cx.real("pmin_g"), required_pressure=cx.real("preq_g")))
        wn.nodes.append((n, el))
        wn.links.append((n, el))
        fields = {field: leafmap(field, True)} if existing else {}
        m = cx.obj(ModelStub, **fields)
        for cf in (constants.hazen_williams_constants, constants.pdd_constants):
            cx.interp.call(cf, [m])
        upd = Updater()
        before = cx.interp.getitem(fields[field], n) if existing else None      # the Param object the constraints built earlier refer to
        cx.target(builder.build, m, wn, upd, GenericIter([n]))
        cx.el, cx.wn, cx.m = el, wn, m

        def post(out):
            if not out.returned:
                return []
            mp = m.fields[field]
            leaf = cx.interp.getitem(mp, n)
            val = leaf.value if isinstance(leaf, Leaf) else leaf
            want = spec(cx, el, wn)
            writes_ok = all((not isinstance(o, SymMap)) or (o is mp and k.t.eq(n.t)) for (o, k, v) in cx.path.writes)
            posts = [("param_value_is_spec", library.as_real(val) == want),
                     ("frame_only_own_entry", writes_ok),
                     ("updater_tracks_inputs", updater_registered(upd, el, tracked, builder))]
            if existing:
                # rows built earlier hold the parameter *object*: an update must change its value, not put another object in its place
                posts.append(("an_existing_parameter_is_updated_in_place_the_object_the_rows_refer_to_stays", leaf is before))
            return posts
        cx.ensure(post)
    return Case("%s,existing=%s" % (builder.__name__, existing), build, crosscheck=False)


def _junction(**kw):
    def mk(cx, n):
        f = {}
        for k, v in kw.items():
            f[k] = cx.real(v) if isinstance(v, str) else v
        return mk_node(cx, Junction, n, **f)
    return mk


def _pipe(**kw):
    def mk(cx, n):
        f = {}
        for k, v in kw.items():
            f[k] = cx.real(v) if isinstance(v, str) else v
        j1 = mk_node(cx, Junction, cx.name("s"))
        j2 = mk_node(cx, Junction, cx.name("e"))
        cls = kw.get("_cls", Pipe)
        f.pop("_cls", None)
        return mk_link(cx, cls, n, j1, j2, **f)
    return mk


def T(cx, v):
    return cx.t(v) if isinstance(v, SV) else (real_val(v) if isinstance(v, float) else v)


HW_K = 10.666829500036352  # 10.67 / 1 ** 1.852 form of Hazen-Williams in SI (documented constant)

_value_cases = []
for ex in (False, True):
    _value_cases += [
        _value_param_case(param.pmin_param, "pmin", _junction(_minimum_pressure="pmin_n"),
                          lambda cx, el, wn: T(cx, el.fields["_minimum_pressure"]), ["minimum_pressure"], ex),
        _value_param_case(param.pmin_param, "pmin", _junction(_minimum_pressure=None),
                          lambda cx, el, wn: z3.Real("pmin_g"), ["minimum_pressure"], ex),
        _value_param_case(param.leak_coeff_param, "leak_coeff", _junction(_leak_discharge_coeff="cd"),
                          lambda cx, el, wn: z3.Real("cd"), ["leak_discharge_coeff"], ex),
        _value_param_case(param.leak_area_param, "leak_area", _junction(_leak_area="area"),
                          lambda cx, el, wn: z3.Real("area"), ["leak_area"], ex),
        _value_param_case(param.elevation_param, "elevation", _junction(_elevation="elev"),
                          lambda cx, el, wn: z3.Real("elev"), ["elevation"], ex),
        _value_param_case(param.pump_power_param, "pump_power", _pipe(_cls=PowerPump, _base_power="pw"),
                          lambda cx, el, wn: z3.Real("pw"), ["power"], ex),
        _value_param_case(param.valve_setting_param, "valve_setting", _pipe(_cls=PRValve, _setting="setg"),
                          lambda cx, el, wn: z3.Real("setg"), ["setting"], ex),
        _value_param_case(param.minor_loss_param, "minor_loss", _pipe(_minor_loss="K", _diameter="D"),
                          lambda cx, el, wn: 8 * z3.Real("K") / (real_val(9.81 * math.pi ** 2) * (z3.Real("D") * z3.Real("D") * z3.Real("D") * z3.Real("D"))),
                          ["minor_loss", "diameter"], ex),
        _value_param_case(param.tcv_resistance_param, "tcv_resistance", _pipe(_cls=TCValve, _setting="setg", diameter="D"),
                          lambda cx, el, wn: 8 * z3.Real("setg") / (real_val(9.81 * math.pi ** 2) * (z3.Real("D") * z3.Real("D") * z3.Real("D") * z3.Real("D"))),
                          ["setting", "diameter"], ex),
        _value_param_case(param.hw_resistance_param, "hw_resistance", _pipe(_roughness="C", _diameter="D", _length="L"),
                          lambda cx, el, wn: real_val(HW_K) * library.POW(z3.Real("C"), real_val(-1.852)) *
                          library.POW(z3.Real("D"), real_val(-4.871)) * z3.Real("L"), ["roughness", "diameter", "length"], ex),
    ]


# ------------------------------------------------------------------------------------------------
# pnom_param: value + ValueError iff Preq <= delta

def _pnom_case(per_node, existing):
    def build(cx):
        n = cx.name("n")
        pg = cx.real("preq_g")
        pn = cx.real("preq_n") if per_node else None
        node = mk_node(cx, Junction, n, _required_pressure=pn)
        wn = WN(options=options(cx, required_pressure=pg))
        wn.nodes.append((n, node))
        m = cx.obj(ModelStub, **({"pnom": leafmap("pnom", True)} if existing else {}))
        before = cx.interp.getitem(m.fields["pnom"], n) if existing else None
        cx.interp.call(constants.pdd_constants, [m])
        upd = Updater()
        eff = cx.t(pn) if per_node else cx.t(pg)
        cx.allow_raise(ValueError, eff <= real_val(0.05))
        cx.target(param.pnom_param.build, m, wn, upd, GenericIter([n]))

        def post(out):
            if out.kind == "raise":
                return []
            leaf = cx.interp.getitem(m.fields["pnom"], n)
            return [("param_value_is_spec", library.as_real(leaf.value) == eff),
                    ("accepted_only_above_delta", eff > real_val(0.05)),
                    ("updater_tracks_inputs", updater_registered(upd, node, ["required_pressure"], param.pnom_param))] + \
                ([("an_existing_parameter_is_updated_in_place_the_object_the_rows_refer_to_stays", leaf is before)] if existing else [])
        cx.ensure(post)
    return Case("pnom_param,per_node=%s,existing=%s" % (per_node, existing), build, crosscheck=False)


# ------------------------------------------------------------------------------------------------
# pdd_poly_coeffs_param: the two smoothing cubics join the neighbouring branches in value and slope

def _pdd_poly_case(per_node, exp_mode, existing):
    def build(cx):
        n = cx.name("n")
        p0g, pfg, eg = cx.real("pmin_g"), cx.real("preq_g"), cx.real("e_g")
        if per_node:
            p0n, pfn = cx.real("pmin_n"), cx.real("preq_n")
        else:
            p0n = pfn = None
        if exp_mode == "node":
            en = cx.real("e_n")
        else:
            en = None
        if exp_mode == "half":
            eg = 0.5
        node = mk_node(cx, Junction, n, _minimum_pressure=p0n, _required_pressure=pfn, _pressure_exponent=en)
        wn = WN(options=options(cx, minimum_pressure=p0g, required_pressure=pfg, pressure_exponent=eg))
        wn.nodes.append((n, node))
        names = ["pdd_poly%d_coeffs_%s" % (i, c) for i in (1, 2) for c in "abcd"]
        m = cx.obj(ModelStub, **({k: leafmap(k, True) for k in names} if existing else {}))
        before = {k: cx.interp.getitem(m.fields[k], n) for k in names} if existing else {}
        cx.interp.call(constants.pdd_constants, [m])
        upd = Updater()
        P0 = cx.t(p0n) if per_node else cx.t(p0g)
        PF = cx.t(pfn) if per_node else cx.t(pfg)
        E = cx.t(en) if exp_mode == "node" else (real_val(0.5) if exp_mode == "half" else cx.t(eg))
        dl = real_val(0.05)
        # is_valid(): Pmin < Preq with room for both smoothing bands; exponent in (0, 1]
        cx.assume(PF - P0 > 2 * dl, E > 0, E <= 1)
        cx.region("e_not_half", E != real_val(0.5))
        cx.target(param.pdd_poly_coeffs_param.build, m, wn, upd, GenericIter([n]))

        def post(out):
            if not out.returned:
                return []
            def g(k):
                return library.as_real(cx.interp.getitem(m.fields[k], n).value)
            a1, b1, c1, d1 = [g("pdd_poly1_coeffs_" + c) for c in "abcd"]
            a2, b2, c2, d2 = [g("pdd_poly2_coeffs_" + c) for c in "abcd"]
            sl = real_val(1e-11)
            w = PF - P0
            def pw(x):
                return library.SQRT(x) if exp_mode == "half" else library.POW(x, E)
            def dpw(x):   # d/dp ((p-P0)/w)^e = e ((p-P0)/w)^(e-1) / w
                if exp_mode == "half":
                    return real_val(0.5) * library.POW(x, real_val(-0.5)) / w
                return E * library.POW(x, E - 1) / w
            lo, hi = dl / w, (w - dl) / w
            return [
                ("poly1_joins_zero_branch_at_Pmin", z3.And(poly(a1, b1, c1, d1, P0) == 0, dpoly(a1, b1, c1, P0) == sl)),
                ("poly1_joins_power_law_at_Pmin_plus_delta", poly(a1, b1, c1, d1, P0 + dl) == pw(lo)),
                ("poly1_slope_matches_power_law", dpoly(a1, b1, c1, P0 + dl) == dpw(lo)),
                ("poly2_joins_power_law_at_Preq_minus_delta", poly(a2, b2, c2, d2, PF - dl) == pw(hi)),
                ("poly2_slope_matches_power_law", dpoly(a2, b2, c2, PF - dl) == dpw(hi)),
                ("poly2_joins_full_demand_at_Preq", z3.And(poly(a2, b2, c2, d2, PF) == 1, dpoly(a2, b2, c2, PF) == sl)),
                ("updater_tracks_inputs", updater_registered(upd, node, ["minimum_pressure", "required_pressure"], param.pdd_poly_coeffs_param)),
            ] + ([("existing_parameters_are_updated_in_place_the_objects_the_rows_refer_to_stay", all(cx.interp.getitem(m.fields[k], n) is before[k] for k in names))] if existing else [])
        cx.ensure(post)
    return Case("pdd_poly,per_node=%s,exponent=%s,existing=%s" % (per_node, exp_mode, existing), build, crosscheck=False)


def _pdd_poly_two_case():
    """structure-independent companion of the one-junction proof: two junctions in one call that share the global pressure range and differ in the
    exponent (the first uses the global one, the second its own): each gets the cubics of ITS curve - nothing fitted for one junction may serve another"""
    def build(cx):
        n1, n2 = "J1", "J2"          # (fixed names: every map lookup is decided without the solver)
        p0g, pfg, eg, e2 = cx.real("pmin_g"), cx.real("preq_g"), cx.real("e_g"), cx.real("e_n2")
        node1 = mk_node(cx, Junction, n1, _minimum_pressure=None, _required_pressure=None, _pressure_exponent=None)
        node2 = mk_node(cx, Junction, n2, _minimum_pressure=None, _required_pressure=None, _pressure_exponent=e2)
        wn = WN(options=options(cx, minimum_pressure=p0g, required_pressure=pfg, pressure_exponent=eg))
        wn.nodes += [(n1, node1), (n2, node2)]
        m = cx.obj(ModelStub)
        cx.interp.call(constants.pdd_constants, [m])
        upd = Updater()
        P0, PF = cx.t(p0g), cx.t(pfg)
        dl = real_val(0.05)
        cx.assume(PF - P0 > 2 * dl, cx.t(eg) > 0, cx.t(eg) <= 1, cx.t(e2) > 0, cx.t(e2) <= 1, cx.t(e2) != cx.t(eg))
        cx.hint(P0 == 0, PF == 20, cx.t(eg) == real_val(0.5), cx.t(e2) == real_val(0.9))
        cx.target(param.pdd_poly_coeffs_param.build, m, wn, upd, [n1, n2])

        def post(out):
            if not out.returned:
                return []
            posts = []
            w = PF - P0
            lo, hi = dl / w, (w - dl) / w
            for tag, n, E in (("first", n1, cx.t(eg)), ("second", n2, cx.t(e2))):
                def g(k):
                    return library.as_real(cx.interp.getitem(m.fields[k], n).value)
                a1, b1, c1, d1 = [g("pdd_poly1_coeffs_" + c) for c in "abcd"]
                a2, b2, c2, d2 = [g("pdd_poly2_coeffs_" + c) for c in "abcd"]
                posts += [("%s_junction_poly1_joins_its_own_power_law" % tag, poly(a1, b1, c1, d1, P0 + dl) == library.POW(lo, E)),
                          ("%s_junction_poly2_joins_its_own_power_law" % tag, poly(a2, b2, c2, d2, PF - dl) == library.POW(hi, E))]
            return posts
        cx.ensure(post)
    return Case("pdd_poly,two_junctions_one_pressure_range_two_exponents", build, crosscheck=False)


# ------------------------------------------------------------------------------------------------
# leak_poly_coeffs_param

def _leak_poly_case(cls, existing):
    def build(cx):
        n = cx.name("n")
        cd, area = cx.real("cd"), cx.real("area")
        cx.assume(cx.t(cd) >= 0, cx.t(area) >= 0)
        node = mk_node(cx, cls, n, _leak_discharge_coeff=cd, _leak_area=area)
        wn = WN()
        wn.nodes.append((n, node))
        names = ["leak_poly_coeffs_" + c for c in "abcd"]
        m = cx.obj(ModelStub, **({k: leafmap(k, True) for k in names} if existing else {}))
        before = {k: cx.interp.getitem(m.fields[k], n) for k in names} if existing else {}
        cx.interp.call(constants.leak_constants, [m])
        upd = Updater()
        cx.target(param.leak_poly_coeffs_param.build, m, wn, upd, GenericIter([n]))

        def post(out):
            if not out.returned:
                return []
            a, b, c, d = [library.as_real(cx.interp.getitem(m.fields["leak_poly_coeffs_" + k], n).value) for k in "abcd"]
            dl, sl = real_val(1e-4), real_val(1e-11)
            CD, A = cx.t(cd), cx.t(area)
            # constants as the float expressions of the formula Cd*A*sqrt(2 g p) and its derivative at p = delta
            c_val = real_val((2.0 * 9.81 * 1e-4) ** 0.5)
            c_slope = real_val((2.0 * 9.81) ** 0.5) * real_val((1e-4) ** (-0.5))
            return [("cubic_joins_zero_branch_at_p=0", z3.And(poly(a, b, c, d, 0) == 0, dpoly(a, b, c, 0) == sl)),
                    ("cubic_joins_orifice_law_at_delta", poly(a, b, c, d, dl) == CD * A * c_val),
                    ("cubic_slope_matches_orifice_law", dpoly(a, b, c, dl) == real_val(0.5) * CD * A * c_slope),
                    ("updater_tracks_inputs", updater_registered(upd, node, ["leak_discharge_coeff", "leak_area"], param.leak_poly_coeffs_param))] + \
                ([("existing_parameters_are_updated_in_place_the_objects_the_rows_refer_to_stay", all(cx.interp.getitem(m.fields[k], n) is before[k] for k in names))] if existing else [])
        cx.ensure(post)
    return Case("leak_poly,%s,existing=%s" % (cls.__name__, existing), build, crosscheck=False)


TR = ["wntr.sim.aml.Param(v) is a box holding v (aml embedding)"]

CONTRACTS = [
    Contract("wntr.utils.polynomial_interpolation:cubic_spline", ["C02", "C07", "C08"], [_spline_case()],
             interpret_always=(cubic_spline,)),
    Contract("wntr.sim.models.param:value params (pmin, leak_coeff, leak_area, elevation, pump_power, valve_setting, minor_loss, tcv_resistance, hw_resistance)",
             ["C02", "C07", "C08", "C10"], _value_cases, models=MODELS, trusted=TR,
             note="C10: every parameter is built from the element's *current* attribute (setting, power, ...), so the model a continued run "
                  "builds equals the one the uninterrupted run holds; initial_* values are distinct symbols in these contracts"),
    Contract("wntr.sim.models.param:pnom_param.build", ["C07", "C10"],
             [_pnom_case(pn, ex) for pn in (False, True) for ex in (False, True)], models=MODELS, trusted=TR),
    Contract("wntr.sim.models.param:pdd_poly_coeffs_param.build", ["C07", "C10"],
             [_pdd_poly_case(pn, em, ex) for pn in (False, True) for em in ("half", "global", "node") for ex in (False, True)] + [_pdd_poly_two_case()],
             models=models_with_spline, trusted=TR),
    Contract("wntr.sim.models.param:leak_poly_coeffs_param.build", ["C08", "C10"],
             [_leak_poly_case(c, ex) for c in (Junction, Tank) for ex in (False, True)], models=models_with_spline, trusted=TR),
]


# ------------------------------------------------------------------------------------------------
# C07 lemma: the delivered fraction ghat composed from the row contract and the coefficient contracts

def _c07_lemma():
    from contracts.builders import pdd_ghat
    P0, PF, e, p, q = z3.Reals("P0 PF e p q")
    a1, b1, c1, d1, a2, b2, c2, d2 = z3.Reals("a1 b1 c1 d1 a2 b2 c2 d2")
    dl, sl = real_val(0.05), real_val(1e-11)
    w = PF - P0
    POW = library.POW
    lo, hi = dl / w, (w - dl) / w
    valid = [w > 2 * dl, e > 0, e <= 1]
    # ensures of pdd_poly_coeffs_param (hypotheses; discharged for the code by that contract)
    ens = [poly(a1, b1, c1, d1, P0) == 0, dpoly(a1, b1, c1, P0) == sl,
           poly(a1, b1, c1, d1, P0 + dl) == POW(lo, e), dpoly(a1, b1, c1, P0 + dl) == e * POW(lo, e - 1) / w,
           poly(a2, b2, c2, d2, PF - dl) == POW(hi, e), dpoly(a2, b2, c2, PF - dl) == e * POW(hi, e - 1) / w,
           poly(a2, b2, c2, d2, PF) == 1, dpoly(a2, b2, c2, PF) == sl]
    g = lambda x: pdd_ghat(x, P0, PF, e, a1, b1, c1, d1, a2, b2, c2, d2)
    hyp = valid + ens
    mid = lambda x: POW((x - P0) / w, e)
    out = [
        ("zero_at_or_below_Pmin", hyp + [p <= P0], z3.And(g(p) == sl * (p - P0), g(p) <= 0, g(P0) == 0)),
        ("full_demand_at_or_above_Preq", hyp + [p >= PF], z3.And(g(p) - 1 == sl * (p - PF), g(PF) == 1)),
        ("power_law_between_the_bands", hyp + [p >= P0 + dl, p <= PF - dl], g(p) == mid(p)),
        # continuity: at each join the branch on the left and the branch on the right give the same value
        ("continuous_at_Pmin", hyp, sl * (P0 - P0) == poly(a1, b1, c1, d1, P0)),
        ("continuous_at_Pmin_plus_delta", hyp, poly(a1, b1, c1, d1, P0 + dl) == mid(P0 + dl)),
        ("continuous_at_Preq_minus_delta", hyp, mid(PF - dl) == poly(a2, b2, c2, d2, PF - dl)),
        ("continuous_at_Preq", hyp, poly(a2, b2, c2, d2, PF) == sl * (PF - PF) + 1),
        # C1 at the joins (slopes agree)
        ("slope_continuous_at_Pmin_and_Preq", hyp, z3.And(dpoly(a1, b1, c1, P0) == sl, dpoly(a2, b2, c2, PF) == sl)),
        # monotone on the linear pieces, and on the power-law piece given monotonicity of pow in its base
        # (two small queries over the linear pieces only: the coefficient equations with pow are not needed and made one query unstable, 20 s or timeout)
        ("nondecreasing_below_Pmin", valid + [p <= q, q <= P0], g(p) <= g(q)),
        ("nondecreasing_above_Preq", valid + [ens[6], p <= q, p >= PF], g(p) <= g(q)),      # at p = Preq itself the value is the upper cubic's: it is 1 there
        # on the power-law piece ghat = mid (obligation power_law_between_the_bands); mid is monotone by the pow axiom
        ("base_of_power_law_is_monotone_in_p", valid + [p <= q], (p - P0) / w <= (q - P0) / w),
        ("nondecreasing_on_power_law", [z3.Real("gp") == mid(p), z3.Real("gq") == mid(q),
                                        z3.Implies((p - P0) / w <= (q - P0) / w, mid(p) <= mid(q)), (p - P0) / w <= (q - P0) / w],
         z3.Real("gp") <= z3.Real("gq")),
        ("zero_requested_demand_gives_zero_delivered", [z3.Real("d") - 0 * g(p) == 0], z3.Real("d") == 0),
    ]
    return out


def _c07_monotone_cubics():
    """Monotonicity of the two smoothing cubics on their bands, in Hermite form (t in [0,1]).
    v = value of the power law at the inner end of the band, v >= 1e-9 (i.e. Preq-Pmin not astronomically large)."""
    t, e, v, s = z3.Reals("t e v s")
    dl, sl = real_val(0.05), real_val(1e-11)
    # lower band: p(0)=0, p'(0)=sl, p(dl)=v, p'(dl)=e*v/dl  ->  dp/dt = dl*sl*(3t^2-4t+1) + v*(6t-6t^2) + e*v*(3t^2-2t)
    d_lower = dl * sl * (3 * t * t - 4 * t + 1) + v * (6 * t - 6 * t * t) + e * v * (3 * t * t - 2 * t)
    # upper band (u = 1 - v' etc.): p(0)=v, p'(0)=m, p(dl)=1, p'(dl)=sl with m = e*v/(x) where x=(w-dl): bounded 0<=m*dl<=e*v*dl/(w-dl)<=e*v
    m = z3.Real("m")
    d_upper = dl * m * (3 * t * t - 4 * t + 1) + (1 - v) * (6 * t - 6 * t * t) + dl * sl * (3 * t * t - 2 * t)
    return [("lower_cubic_nondecreasing", [t >= 0, t <= 1, e > 0, e <= 1, v >= real_val(1e-9)], d_lower >= 0),
            ("upper_cubic_nondecreasing", [t >= 0, t <= 1, v > 0, v < 1, m >= 0, dl * m <= 3 * (1 - v) / 2, 1 - v >= real_val(1e-9)], d_upper >= 0)]


LEMMAS = [
    Lemma("C07.pressure_demand_curve", ["C07"], _c07_lemma,
          uses=["pdd_constraint.build#row_is_d_minus_D_times_ghat", "pdd_poly_coeffs_param.build#*", "pmin_param/pnom_param#param_value_is_spec"],
          note="pow monotonicity in the base is an axiom of pow_ instantiated at the two points"),
    Lemma("C07.smoothing_cubics_monotone", ["C07"], _c07_monotone_cubics,
          uses=["cubic_spline#interpolation_identities"],
          note="Hermite form of the cubic determined by the four interpolation identities; upper band assumes the chord condition dl*m <= 1.5*(1-v)"),
]
