"""C19 — split_pipe / break_pipe (wntr.morph.link._split_or_break_pipe) under contract; skeletonize bounded.

The function is executed symbolically from the real source on a contract stub of the WaterNetworkModel (add_junction /
add_pipe / get_node / get_link / nodes / links record what they are asked to do; the node registry stub records the
usage moves of the end-node setters). The pipe has symbolic length, diameter, roughness, minor loss and end-node
elevations / coordinates; the pipe has no vertices (the vertices branch - sqrt of sums of squares - is bounded).
"""
import copy
import itertools
import os
import types

import z3

from pyvc.core import Contract, Case
from pyvc.runner import Bounded
from pyvc.values import SV, SymObj, NativeModel, GenericIter, real_val
from pyvc import library

import wntr
import wntr.morph.link as ML
from wntr.network import LinkStatus
from wntr.network.elements import Junction, Tank, Reservoir, Pipe, HeadPump

P = ["C19"]


class NodeReg(NativeModel):
    def __init__(self, wn):
        self.wn, self.removed, self.added = wn, [], []

    def remove_usage(self, key, *args):
        self.removed.append((key, args))

    def add_usage(self, key, *args):
        self.added.append((key, args))

    def __getitem__(self, key):
        return self.wn.get_node(key)


class Wn(NativeModel):
    def __init__(self, label="original"):
        self.label = label
        self.N, self.L = [], []
        self.new_junctions, self.new_pipes = [], []
        self.reg = NodeReg(self)
        self.other_calls = []

    def __getattr__(self, name):
        # any other method of the model (reset_initial_values, remove_link, add_pattern, ...): recorded, and no post-condition tolerates one -
        # the operation is specified as: read the tables, add the junction(s) and one pipe, nothing else
        if name.startswith("_") or name in ("fields", "cls"):
            raise AttributeError(name)

        def other(*a, **k):
            self.other_calls.append(name)
        return other

    def nodes(self):
        return list(self.N)

    # the name lists of the model (by kind): code that consults them sees exactly the registered elements of that kind
    @property
    def node_name_list(self):
        return [n for n, o in self.N]

    @property
    def link_name_list(self):
        return [n for n, o in self.L]

    @property
    def junction_name_list(self):
        return [n for n, o in self.N if o.cls is Junction]

    @property
    def pipe_name_list(self):
        return [n for n, o in self.L if o.cls is Pipe]

    def links(self):
        return list(self.L)

    def _get(self, table, name):
        for n, o in table:
            if (isinstance(n, SV) and isinstance(name, SV) and n.t.eq(name.t)) or (not isinstance(n, SV) and not isinstance(name, SV) and n == name):
                return o
        raise library.PyRaise(KeyError(name))

    def get_node(self, name):
        return self._get(self.N, name)

    def get_link(self, name):
        return self._get(self.L, name)

    def add_junction(self, name, base_demand=0.0, demand_pattern=None, elevation=0.0, coordinates=None, demand_category=None):
        j = SymObj(Junction, dict(_name=name, _elevation=elevation, _coordinates=coordinates, _base_demand=base_demand, _pattern=demand_pattern))
        self.N.append((name, j))
        self.new_junctions.append(j)

    def add_pipe(self, name, start_node_name, end_node_name, length=304.8, diameter=0.3048, roughness=100, minor_loss=0.0,
                 initial_status="OPEN", check_valve=False):
        p = SymObj(Pipe, dict(_link_name=name, _start_node=self.get_node(start_node_name), _end_node=self.get_node(end_node_name), _length=length,
                              _diameter=diameter, _roughness=roughness, _minor_loss=minor_loss, _initial_status=initial_status,
                              _check_valve=check_valve, _vertices=[], _node_reg=self.reg))
        self.L.append((name, p))
        self.new_pipes.append(p)


def _models(holder):
    def build():
        m = library.build_models()

        def deepcopy(interp, args, kw):
            orig = args[0]
            cp = holder["make"]("copy")
            holder["cx"].copy = cp          # per-path state lives on the case context of the running path
            return cp
        m.register(copy.deepcopy, deepcopy, trusted="copy.deepcopy returns a structurally equal model sharing nothing with the original")
        return m
    return build


def _case(flag, at_end, skind, ekind, cv, return_copy):
    holder = {}

    def build(cx):
        L, D, C, K, f = cx.real("length"), cx.real("diameter"), cx.real("roughness"), cx.real("minor_loss"), cx.real("fraction")
        cx.assume(cx.t(L) > 0, cx.t(D) > 0)
        es, ee = cx.real("elev_start"), cx.real("elev_end")
        xs, ys, xe, ye = cx.real("xs"), cx.real("ys"), cx.real("xe"), cx.real("ye")
        j0, j1, newp = cx.name("new_junction_0"), cx.name("new_junction_1"), cx.name("new_pipe")

        def make(label):
            wn = Wn(label)

            def node(cls, nm, el, xy):
                fields = dict(_name=nm, _coordinates=xy)
                if cls is Junction:
                    fields["_elevation"] = el
                elif cls is Tank:
                    fields["_elevation"] = el
                return SymObj(cls, fields)
            a, b = node(skind, "A", es, (xs, ys)), node(ekind, "B", ee, (xe, ye))
            pipe = SymObj(Pipe, dict(_link_name="P", _start_node=a, _end_node=b, _length=L, _diameter=D, _roughness=C, _minor_loss=K,
                                     _user_status=LinkStatus.Open, _internal_status=LinkStatus.Active, _check_valve=cv, _vertices=[], _node_reg=wn.reg))
            # the other link between the two nodes is a pump in the check-valve cases (a new name may clash with ANY existing element)
            other = SymObj(HeadPump if cv else Pipe, dict(_link_name="Q", _start_node=a, _end_node=b, _length=cx.real("other_length") if label == "original" else None, _vertices=[]))
            wn.N += [("A", a), ("B", b)]
            wn.L += [("P", pipe), ("Q", other)]
            wn.pipe, wn.a, wn.b, wn.other = pipe, a, b, other
            return wn
        holder["make"] = make
        holder["cx"] = cx
        wn = make("original")
        cx.orig, cx.copy = wn, None
        names = [j0, j1] if flag == "BREAK" else [j0]
        cx.allow_raise(ValueError, z3.Or(cx.t(f) < 0, cx.t(f) > 1))
        clash = z3.Or(*[z3.Or(cx.t(n) == wntr_name(x) for x in ("A", "B")) for n in names])
        taken = z3.Or(clash, z3.Or(cx.t(newp) == wntr_name("P"), cx.t(newp) == wntr_name("Q")))
        cx.allow_raise(RuntimeError, taken)
        cx.taken = taken
        cx.names = names
        cx.target(ML._split_or_break_pipe, wn, "P", newp, names, at_end, f, flag, return_copy)

        def post(out):
            orig = cx.orig
            target = cx.copy if return_copy else orig
            if out.kind == "raise":
                # refused requests leave the model untouched
                w = [x for x in cx.path.writes if isinstance(x[0], SymObj)]
                return [("refused_request_changes_nothing", not w and not orig.new_junctions and not orig.new_pipes and
                         (target is None or (not target.new_junctions and not target.new_pipes)))]
            F, LEN = cx.t(f), cx.t(L)
            pipe = target.pipe
            posts = [("result_is_the_model_worked_on", out.value is target),
                     # a new name that any existing node / link already carries (whatever its kind) is refused, not silently put in its place
                     ("a_name_already_in_use_is_refused", z3.Not(cx.taken))]
            if return_copy:
                touched_orig = [x for x in cx.path.writes if x[0] in (orig.pipe, orig.a, orig.b, orig.other)] or orig.new_junctions or orig.new_pipes or orig.reg.added or orig.reg.removed or orig.other_calls
                posts.append(("input_model_untouched_when_return_copy", not touched_orig))
            posts.append(("nothing_else_of_the_model_is_called_upon", not target.other_calls and not orig.other_calls))
            nj = target.new_junctions
            posts.append(("junction_count_split_1_break_2", len(nj) == (2 if flag == "BREAK" else 1) and len(target.new_pipes) == 1))
            if len(target.new_pipes) != 1 or not nj:
                return posts
            new = target.new_pipes[0]
            lp, ln = library.as_real(pipe.fields["_length"]), library.as_real(new.fields["_length"])
            posts.append(("total_length_preserved", lp + ln == LEN))
            posts.append(("requested_fraction_on_the_requested_side", (lp == LEN * F) if at_end else (ln == LEN * F)))
            # elevation / coordinates of every new junction
            if skind is Reservoir:
                want_e = cx.t(ee)
            elif ekind is Reservoir:
                want_e = cx.t(es)
            else:
                want_e = cx.t(es) + (cx.t(ee) - cx.t(es)) * F
            for i, j in enumerate(nj):
                posts.append(("junction_%d_elevation_at_fraction_or_non_reservoir_end" % i, library.as_real(j.fields["_elevation"]) == want_e))
                xy = j.fields["_coordinates"]
                posts.append(("junction_%d_coordinates_at_fraction" % i, z3.And(library.as_real(xy[0]) == cx.t(xs) + (cx.t(xe) - cx.t(xs)) * F,
                                                                                 library.as_real(xy[1]) == cx.t(ys) + (cx.t(ye) - cx.t(ys)) * F)))
                posts.append(("junction_%d_has_no_demand" % i, j.fields["_base_demand"] == 0.0 and j.fields["_pattern"] is None))
            posts.append(("new_pipe_copies_diameter_roughness_minor_loss", z3.And(library.as_real(new.fields["_diameter"]) == cx.t(D),
                                                                                 library.as_real(new.fields["_roughness"]) == cx.t(C),
                                                                                 library.as_real(new.fields["_minor_loss"]) == cx.t(K))))
            posts.append(("new_pipe_has_no_check_valve", new.fields["_check_valve"] is False))
            posts.append(("original_pipe_keeps_its_other_attributes", z3.And(library.as_real(pipe.fields["_diameter"]) == cx.t(D), library.as_real(pipe.fields["_roughness"]) == cx.t(C))
                          if True else True))
            ja, jb = nj[0], nj[-1]
            if at_end:
                conn = pipe.fields["_start_node"] is target.a and pipe.fields["_end_node"] is ja and new.fields["_start_node"] is jb and new.fields["_end_node"] is target.b
            else:
                conn = pipe.fields["_end_node"] is target.b and pipe.fields["_start_node"] is ja and new.fields["_end_node"] is jb and new.fields["_start_node"] is target.a
            posts.append(("connectivity_original_end_moved_to_new_junction_new_pipe_takes_the_far_end", conn))
            posts.append(("split_shares_one_junction_break_uses_two", (ja is jb) == (flag == "SPLIT")))
            posts.append(("every_other_element_untouched", not [x for x in cx.path.writes if x[0] in (target.other, target.a, target.b)]))
            moved_from = "B" if at_end else "A"
            posts.append(("usage_record_moved_from_old_end_to_new_junction",
                          len(target.reg.removed) == 1 and target.reg.removed[0][0] == moved_from and len(target.reg.added) == 1 and target.reg.added[0][0] is ja.fields["_name"]))
            return posts
        cx.ensure(post)
    return Case("%s,add_pipe_at_end=%s,%s->%s,cv=%s,copy=%s" % (flag, at_end, skind.__name__, ekind.__name__, cv, return_copy), build, crosscheck=False), holder


def wntr_name(s):
    from pyvc.values import name_const
    return name_const(s)


def _not_a_pipe_case():
    holder = {}

    def build(cx):
        wn = Wn()
        pump = SymObj(HeadPump, dict(_link_name="P"))
        wn.L.append(("P", pump))
        holder["orig"] = wn
        cx.allow_raise(ValueError, True)
        cx.target(ML._split_or_break_pipe, wn, "P", cx.name("new_pipe"), [cx.name("new_junction_0")], True, cx.real("fraction"), "SPLIT", False)

        def post(out):
            return [("only_pipes_can_be_split", out.kind == "raise" and not wn.new_junctions and not wn.new_pipes)]
        cx.ensure(post)
    return Case("not_a_pipe", build, crosscheck=False), holder


_contracts = []
for flag in ("SPLIT", "BREAK"):
    for at_end in (True, False):
        for (sk, ek) in ((Junction, Junction), (Reservoir, Junction), (Junction, Reservoir), (Tank, Junction)):
            for cv in (False, True):
                for rc in (False, True):
                    if rc and (cv or (sk, ek) != (Junction, Junction)):
                        continue
                    case, holder = _case(flag, at_end, sk, ek, cv, rc)
                    _contracts.append(Contract("wntr.morph.link:_split_or_break_pipe", P, [case], models=_models(holder),
                                               trusted=["WaterNetworkModel.add_junction/add_pipe/get_node/get_link register / return the element (C14)",
                                                        "copy.deepcopy returns an independent equal model"],
                                               note="pipe without vertices"))
_c, _h = _not_a_pipe_case()
_contracts.append(Contract("wntr.morph.link:_split_or_break_pipe", P, [_c], models=_models(_h)))
CONTRACTS = _contracts


# ---------------------------------------------------------------------------- bounded stand-ins

def _repo():
    return os.path.dirname(os.path.dirname(os.path.abspath(wntr.__file__)))


def _split_vertices(tier, seed):
    """split / break of pipes WITH vertices: length conservation, junction on the polyline at the fraction, vertices partitioned in order."""
    import random
    import warnings
    import numpy as np
    warnings.simplefilter("ignore")
    rng = random.Random(seed + 3)
    evals, distinct, failures, samples = 0, set(), [], []
    N = 150 if tier == "quick" else 1500
    for it in range(N):
        nv = rng.randint(1, 4)
        pts = [(0.0, 0.0)] + [(rng.uniform(-50, 50), rng.uniform(-50, 50)) for _ in range(nv)] + [(rng.uniform(60, 100), rng.uniform(-20, 20))]
        frac = rng.choice([0.0, 1.0, 0.5, rng.random(), rng.random()])
        at_end = rng.random() < 0.5
        brk = rng.random() < 0.5
        wn = wntr.network.WaterNetworkModel()
        wn.add_junction("A", base_demand=0.01, elevation=10.0, coordinates=pts[0])
        wn.add_junction("B", base_demand=0.01, elevation=30.0, coordinates=pts[-1])
        wn.add_reservoir("R", base_head=50, coordinates=(-10, 0))
        wn.add_pipe("RA", "R", "A", length=10, diameter=0.3, roughness=100)
        wn.add_pipe("P", "A", "B", length=123.0, diameter=0.25, roughness=110, minor_loss=0.3)
        wn.get_link("P").vertices = list(pts[1:-1])
        try:
            if brk:
                w2 = wntr.morph.break_pipe(wn, "P", "P2", "JA", "JB", add_pipe_at_end=at_end, split_at_point=frac)
                newj = ["JA", "JB"]
            else:
                w2 = wntr.morph.split_pipe(wn, "P", "P2", "JA", add_pipe_at_end=at_end, split_at_point=frac)
                newj = ["JA"]
        except Exception as e:
            if 0 < frac < 1:
                failures.append(dict(points=pts, fraction=frac, raised=repr(e)[:160]))
            continue
        evals += 1
        distinct.add((nv, round(frac, 3), at_end, brk))
        p, q = w2.get_link("P"), w2.get_link("P2")
        seg = [np.hypot(pts[i + 1][0] - pts[i][0], pts[i + 1][1] - pts[i][1]) for i in range(len(pts) - 1)]
        total = sum(seg)
        target = total * frac
        acc, want = 0.0, pts[-1]
        for i, s_ in enumerate(seg):
            if acc + s_ >= target > acc or (target == 0 and i == 0):
                t = (target - acc) / s_ if s_ else 0.0
                want = (pts[i][0] + (pts[i + 1][0] - pts[i][0]) * t, pts[i][1] + (pts[i + 1][1] - pts[i][1]) * t)
                break
            acc += s_
        ok = abs(p.length + q.length - 123.0) < 1e-9
        first, second = (p, q) if at_end else (q, p)
        ok = ok and abs(first.length - 123.0 * frac) < 1e-9
        ok = ok and list(first.vertices) + list(second.vertices) == list(pts[1:-1])
        if 0 < frac < 1:
            for jn in newj:
                c = w2.get_node(jn).coordinates
                ok = ok and abs(c[0] - want[0]) < 1e-6 and abs(c[1] - want[1]) < 1e-6 and abs(w2.get_node(jn).elevation - (10.0 + 20.0 * frac)) < 1e-9
        ok = ok and wn.num_links == 2 and wn.get_link("P").length == 123.0          # return_copy default: input untouched
        ok = ok and q.check_valve is False and q.diameter == 0.25 and q.roughness == 110 and q.minor_loss == 0.3
        if not ok:
            failures.append(dict(points=pts, fraction=frac, add_pipe_at_end=at_end, brk=brk, lengths=[p.length, q.length],
                                 vertices=[list(p.vertices), list(q.vertices)]))
        if len(samples) < 2:
            samples.append(dict(vertices=nv, fraction=frac, add_pipe_at_end=at_end, break_pipe=brk))
    return dict(evaluations=evals, distinct_nontrivial=len(distinct), failures=failures[:10], samples=samples, exhaustive=False,
                scope="%d random polylines with 1-4 vertices, fractions incl. 0, 0.5, 1, split and break, both sides" % N)


def _split_hydraulics(tier, seed):
    """splitting (unlike breaking) leaves the hydraulics of the rest of the network unchanged"""
    import warnings
    import logging
    import numpy as np
    warnings.simplefilter("ignore")
    logging.disable(logging.CRITICAL)
    root = _repo()
    evals, distinct, failures, samples = 0, set(), [], []
    for rel, pipes in (("examples/networks/Net1.inp", ["10", "12", "111"]), ("examples/networks/Net3.inp", ["123", "229"] if tier == "quick" else ["123", "229", "105", "60"])):
        wn = wntr.network.WaterNetworkModel(os.path.join(root, rel))
        wn.options.time.duration = 4 * 3600
        base = wntr.sim.WNTRSimulator(wn).run_sim()
        for pn in pipes:
            for frac in (0.3, 0.5):
                wn = wntr.network.WaterNetworkModel(os.path.join(root, rel))
                wn.options.time.duration = 4 * 3600
                w2 = wntr.morph.split_pipe(wn, pn, pn + "_B", pn + "_J", split_at_point=frac)
                r2 = wntr.sim.WNTRSimulator(w2).run_sim()
                evals += 1
                distinct.add((rel, pn, frac))
                cols = list(base.node["head"].columns)
                dh = float(np.abs(r2.node["head"].loc[:, cols].values - base.node["head"].values).max())
                lcols = list(base.link["flowrate"].columns)
                dq = float(np.abs(r2.link["flowrate"].loc[:, lcols].values - base.link["flowrate"].values).max())
                if dh > 1e-3 or dq > 1e-5:
                    failures.append(dict(net=rel, pipe=pn, fraction=frac, max_head_difference=dh, max_flow_difference=dq))
                if len(samples) < 2:
                    samples.append(dict(net=rel, pipe=pn, fraction=frac, max_head_difference=dh, max_flow_difference=dq))
    return dict(evaluations=evals, distinct_nontrivial=len(distinct), failures=failures[:10], samples=samples, exhaustive=False,
                scope="Net1 and Net3: heads and flows of all original elements before/after split_pipe (1e-3 m, 1e-5 m3/s)")


def _skeletonize(tier, seed):
    import warnings
    import logging
    import numpy as np
    warnings.simplefilter("ignore")
    logging.disable(logging.CRITICAL)
    root = _repo()
    evals, distinct, failures, samples = 0, set(), [], []
    nets = ["examples/networks/Net1.inp", "examples/networks/Net2.inp", "examples/networks/Net3.inp", "wntr/tests/networks_for_testing/skeletonize.inp",
            "wntr/tests/networks_for_testing/Anytown.inp"] + (["examples/networks/Net6.inp"] if tier == "thorough" else [])
    inch = 0.0254

    def generated(k):
        """small random networks: trees with loops and a parallel pair; junctions carry 0-3 demand entries with negative (inflow), zero
        and positive base values and different patterns; two pipe sizes so that every threshold trims / merges something"""
        import random
        rng = random.Random(1000 * seed + k)
        wn = wntr.network.WaterNetworkModel()
        wn.options.time.duration = 6 * 3600
        wn.options.time.hydraulic_timestep = 3600
        wn.options.time.pattern_timestep = 3600
        wn.add_pattern("use", [1.0, 1.5, 0.5, 2.0, 0.8, 1.2])
        wn.add_pattern("inj", [0.0, 1.0, 2.0, 1.0, 0.5, 0.0, 3.0])
        if k % 4 >= 2:
            # a default demand pattern that is not identically 1; entries made constant afterwards (pattern None) must stay constant when moved
            wn.options.hydraulic.pattern = "use"
        wn.add_reservoir("R", base_head=60.0, coordinates=(0, 0))
        n = rng.randint(5, 9)
        names = ["R"]
        for i in range(n):
            nm = "J%d" % i
            wn.add_junction(nm, base_demand=0.0, elevation=10.0, coordinates=(i + 1, rng.randint(-2, 2)))
            j = wn.get_node(nm)
            del j.demand_timeseries_list[:]
            for e in range(rng.randint(0, 3)):
                j.add_demand(rng.choice([-0.002, -0.0005, 0.0, 0.001, 0.003]), rng.choice([None, "use", "inj"]), category=rng.choice([None, "a", "b"]))
                if k % 4 >= 2 and rng.random() < 0.4:
                    j.demand_timeseries_list[-1].pattern_name = None
            parent = rng.choice(names)
            wn.add_pipe("P%d" % i, parent, nm, length=rng.choice([50.0, 120.0]), diameter=rng.choice([3 * inch, 10 * inch]), roughness=100)
            names.append(nm)
        for e in range(rng.randint(0, 2)):       # extra links: loops, possibly parallel to an existing pipe
            a, b = rng.sample(names[1:], 2)
            wn.add_pipe("X%d" % e, a, b, length=80.0, diameter=rng.choice([3 * inch, 10 * inch]), roughness=100)
        if k % 2 == 1:                           # a parallel twin of an existing pipe, in either registration order relative to the protected one
            base = wn.get_link("P%d" % rng.randrange(1, n))
            wn.add_pipe("TWIN", base.start_node_name, base.end_node_name, length=base.length, diameter=rng.choice([3 * inch, 10 * inch]), roughness=100)
        if k % 3 != 0:                           # small valves: one feeding a dead end, one in line (valves are never candidates for removal)
            vt = ("TCV", "FCV", "PRV")[k % 3]
            wn.add_junction("VD", base_demand=0.0005, elevation=10.0, coordinates=(n + 2, 1))
            wn.add_valve("VDEAD", rng.choice(names[1:]), "VD", diameter=3 * inch, valve_type=vt, initial_setting=(0.001 if vt == "FCV" else 5.0))
            a, b = rng.sample(names[1:], 2)
            wn.add_valve("VLINE", a, b, diameter=3 * inch, valve_type="TCV", initial_setting=5.0)
        from wntr.network.controls import Control, ControlAction, SimTimeCondition
        pipes = list(wn.pipe_name_list)
        for c in range(rng.randint(0, 2)):       # controls protect the elements they mention
            pn = rng.choice(pipes[1:]) if c or "TWIN" not in pipes else rng.choice(["TWIN", pipes[1]])
            wn.add_control("ctl%d" % c, Control(SimTimeCondition(wn, "==", 1800 * (c + 1)), ControlAction(wn.get_link(pn), "status", 0)))
        # elements that occur only in the *condition* of a control / rule are protected too
        from wntr.network.controls import ValueCondition, Rule
        jn = rng.choice(names[1:])
        wn.add_control("low_pressure", Control(ValueCondition(wn.get_node(jn), "pressure", "<", 5.0), ControlAction(wn.get_link(pipes[0]), "status", 0)))
        if len(pipes) > 2:
            watched = wn.get_link(rng.choice(pipes[1:]))
            wn.add_control("on_flow", Rule(ValueCondition(watched, "flow", ">", 10.0), [ControlAction(wn.get_link(pipes[0]), "status", 1)], name="on_flow"))
        return wn
    ngen = 12 if tier == "quick" else 60
    nets = list(nets) + ["generated:%d" % k for k in range(ngen)]
    for rel in nets:
        wn = generated(int(rel.split(":")[1])) if rel.startswith("generated:") else wntr.network.WaterNetworkModel(os.path.join(root, rel))
        ctrl_elems = set()
        for cn, c in wn.controls():
            for r in c.requires():
                ctrl_elems.add(r.name)
        ed0 = wntr.metrics.expected_demand(wn, 0, 6 * 3600, 3600).sum(axis=1)
        import random as _random
        import zlib as _zlib
        xr = _random.Random(_zlib.crc32(rel.encode()) % 1000 + seed)
        for thr in (4 * inch, 8 * inch, 12 * inch, 24 * inch):
            for opts in ((True, True, True), (True, False, False), (False, True, False), (False, False, True)):
                # a user-supplied exclusion list (generated networks): those pipes / junctions must survive unaltered
                excl_p = sorted(xr.sample(list(wn.pipe_name_list), min(2, wn.num_pipes))) if rel.startswith("generated:") and xr.random() < 0.6 else []
                excl_j = sorted(xr.sample(list(wn.junction_name_list), 1)) if rel.startswith("generated:") and xr.random() < 0.4 else []
                before = {pn: (wn.get_link(pn).diameter, wn.get_link(pn).length, wn.get_link(pn).roughness, wn.get_link(pn).start_node_name, wn.get_link(pn).end_node_name)
                          for pn in list(excl_p) + [e for e in ctrl_elems if e in wn.pipe_name_list]}
                try:
                    w2, smap = wntr.morph.skeletonize(wn, thr, branch_trim=opts[0], series_pipe_merge=opts[1], parallel_pipe_merge=opts[2],
                                                      return_map=True, use_epanet=not rel.startswith("generated:"), pipes_to_exclude=list(excl_p), junctions_to_exclude=list(excl_j))
                except Exception as e:
                    failures.append(dict(net=rel, threshold=thr, options=opts, raised=repr(e)[:200]))
                    continue
                evals += 1
                distinct.add((rel, thr, opts))
                keep = set(wn.tank_name_list + wn.reservoir_name_list)
                ok1 = keep <= set(w2.node_name_list) and set(wn.pump_name_list) <= set(w2.link_name_list) and set(wn.valve_name_list) <= set(w2.link_name_list)
                ok2 = all((e in w2.node_name_list) or (e in w2.link_name_list) for e in ctrl_elems)
                ok5 = all(pn in w2.pipe_name_list and (w2.get_link(pn).diameter, w2.get_link(pn).length, w2.get_link(pn).roughness, w2.get_link(pn).start_node_name,
                                                        w2.get_link(pn).end_node_name) == v for pn, v in before.items()) and all(j in w2.junction_name_list for j in excl_j)
                # the controls of the skeleton act on the skeleton's own elements
                ok6 = all((w2.get_link(r.name) is r if r.name in w2.link_name_list else (r.name in w2.node_name_list and w2.get_node(r.name) is r))
                          for _, c in w2.controls() for r in c.requires())
                ed1 = wntr.metrics.expected_demand(w2, 0, 6 * 3600, 3600).sum(axis=1)
                ok3 = np.allclose(ed0.values, ed1.values, rtol=1e-9, atol=1e-12)
                allm = [n for k, v in smap.items() for n in v]
                ok4 = sorted(allm) == sorted(wn.node_name_list) and len(allm) == len(set(allm)) and \
                    set(k for k, v in smap.items() if v) == set(w2.node_name_list)
                ok2 = ok2 and all(s_.node_name in w2.node_name_list for _, s_ in w2.sources()) and len(list(w2.sources())) == len(list(wn.sources()))
                if not (ok1 and ok2 and ok3 and ok4 and ok5 and ok6):
                    failures.append(dict(net=rel, threshold=thr, options=opts, excluded=[excl_p, excl_j], keeps_sources_pumps_valves=ok1, keeps_control_elements=ok2,
                                         total_demand_conserved=bool(ok3), map_is_partition=ok4, protected_pipes_and_junctions_unaltered=ok5,
                                         controls_refer_to_the_skeleton_s_elements=ok6))
                if len(samples) < 2:
                    samples.append(dict(net=rel, threshold_m=thr, options=opts, nodes_before=wn.num_nodes, nodes_after=w2.num_nodes))
    return dict(evaluations=evals, distinct_nontrivial=len(distinct), failures=failures[:10], samples=samples, exhaustive=False,
                scope="%s (Net2 carries a quality source on a dead-end junction) x 4 diameter thresholds x 4 operation subsets (generated networks also with random pipes_to_exclude / junctions_to_exclude, controls on pipes incl. a parallel twin, small valves on dead ends and in line): tanks/reservoirs/pumps/valves/control elements kept, protected pipes unaltered, "
                      "total expected demand per time conserved, skeleton map is a partition of the original nodes onto the retained ones" % (", ".join(n.split('/')[-1] for n in nets if not n.startswith("generated:")) + " and %d generated networks with inflow / zero / multi-entry demands, half of them with a non-trivial default pattern and constant (pattern None) entries" % ngen))


BOUNDED = [Bounded("C19.split_break_with_vertices", P, _split_vertices, kind="random polylines, run-time contract"),
           Bounded("C19.split_keeps_hydraulics", P, _split_hydraulics, kind="differential simulation on example networks"),
           Bounded("C19.skeletonize", P, _skeletonize, kind="example networks x thresholds x options, run-time contract")]
